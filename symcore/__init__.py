"""symcore -- exploration core of the solver-based checker.

Dynamic symbolic execution by re-execution: a *path* is a list of decisions.
``Engine.branch`` asks z3 which sides of a condition are feasible under the
current path condition; when both are, the True side is followed and the False
side is remembered as a new prefix.  ``Engine.concretize`` fork-enumerates the
feasible values of an expression; the chosen value is part of the decision so a
replayed prefix applies exactly the constraints of the original run.

The z3 solver object persists across the paths of one exploration: every
decision opens a solver scope (push), and when the next path shares its first
``k`` decisions with the previous one only the scopes above ``k`` are popped, so
the SAT encoding of the shared prefix is reused.  The Python side is simply run
again (the real code is re-executed along the recorded decisions).
"""
import time
import z3

_int = int
_len = len


class Inconclusive(BaseException):
    """The path cannot be decided (solver unknown, width bound exceeded,
    unsupported operation).  Never turned into a verdict."""


class DeadPath(BaseException):
    """a queued alternative turned out to be infeasible (not a path)"""


class PathTimeout(BaseException):
    """the analysed code did not come back within the per-path wall budget"""


class HarnessError(BaseException):
    """The harness/shim itself is wrong (cross-validation mismatch, ...)."""


def _opens_scope(d):
    return d is True or d is False or (isinstance(d, tuple) and d[0] == 'c')


class Engine:
    cur = None

    def __init__(self, prefix=(), W=192, timeout_ms=20000, seed=0):
        self.W = W
        self.solver = z3.SolverFor('QF_BV')
        self.solver.set('timeout', timeout_ms)
        if seed:
            self.solver.set('random_seed', seed & 0x7fffffff)
        self.nchecks = 0
        self.solver_time = 0.0
        self.hash_ints = ()      # candidate constants for SymInt.__hash__
        self.hash_bytes = ()
        self.hash_strs = ()
        self.index_limit = None  # C08: sizes derived from input may not exceed this
        self.on_large_index = None
        self.last = []           # decisions of the previous path (solver scopes 1..len)
        self.base_done = False
        self.begin(prefix)

    def begin(self, prefix):
        """start a new path; keeps the solver scopes shared with the previous path"""
        prefix = list(prefix)
        shared = 0
        n = min(_len(prefix) - 1, _len(self.last))
        while shared < n and prefix[shared] == self.last[shared]:
            shared += 1
        # scopes are opened only by decisions that add a constraint (forks)
        target = sum(1 for d in self.last[:shared] if _opens_scope(d))
        depth = self.solver.num_scopes()
        if depth < target:
            shared, target = 0, 0
        if depth > target:
            self.solver.pop(depth - target)
        self.shared = shared
        self.prefix = prefix
        self.decisions = []
        self.forks = []
        self.nvars = 0
        self.model = None
        self.vars = {}
        self.registry = {}
        self.limited = set()
        self.path_checks = 0
        self.path_solver_time = 0.0

    def end(self):
        self.base_done = True
        self.last = list(self.decisions)
        want = sum(1 for d in self.last if _opens_scope(d))
        d = self.solver.num_scopes()
        if d > want:
            self.solver.pop(d - want)
        elif d < want:
            # cannot happen; be safe: forget sharing
            self.last = []
            self.solver.pop(d)

    # -- variables ---------------------------------------------------------
    def fresh(self, name, bits=None):
        bits = bits or self.W
        self.nvars += 1
        return z3.BitVec('%s!%d' % (name, self.nvars), bits)

    def named(self, name, bits=None):
        bits = bits or self.W
        if name in self.vars:
            raise HarnessError('duplicate variable %s' % name)
        v = z3.BitVec(name, bits)
        self.vars[name] = v
        return v

    def assume(self, cond):
        """add a constraint.  A constraint issued after k decisions lives in solver scope k;
        scopes <= shared are retained from the previous path (execution up to there is
        identical, so the constraint is already present) and scope 0 is filled once."""
        k = _len(self.decisions)
        if k == 0:
            if self.base_done:
                return
        elif k <= self.shared:
            return
        self.solver.add(cond)
        if self.model is not None and self._model_says(cond) is not True:
            self.model = None

    # -- solver ------------------------------------------------------------
    def _check(self, *conds):
        self.nchecks += 1
        self.path_checks += 1
        t = time.time()
        r = self.solver.check(*conds)
        dt = time.time() - t
        self.solver_time += dt
        self.path_solver_time += dt
        if r == z3.unknown:
            raise Inconclusive('solver unknown: %s' % self.solver.reason_unknown())
        if r == z3.sat:
            return self.solver.model()
        return None

    def check_model(self, *conds):
        """model of pc /\\ conds, or None (unsat)"""
        return self._check(*conds)

    def get_model(self):
        if self.model is None:
            self.model = self._check()
            if self.model is None:
                raise Inconclusive('infeasible path condition')
        return self.model

    def _model_says(self, cond):
        m = self.model
        if m is None:
            return None
        v = m.eval(cond, model_completion=True)
        if z3.is_true(v):
            return True
        if z3.is_false(v):
            return False
        return None

    def branch(self, cond):
        """Decide a z3 Bool on this path, forking when both sides are feasible.
        Decision items: True/False = fork (constraint added in a new solver scope);
        'T'/'F' = the other side is infeasible (implied by the path condition, nothing added)."""
        if cond is True or cond is False:
            return cond
        cond = z3.simplify(cond)
        if z3.is_true(cond):
            return True
        if z3.is_false(cond):
            return False
        i = _len(self.decisions)
        if i < _len(self.prefix):
            d = self.prefix[i]
            if d is True or d is False:
                self.decisions.append(d)
                if i >= self.shared:
                    self.solver.push()
                    self.solver.add(cond if d else z3.Not(cond))
                    self.model = None
                return d
            if d == 'T' or d == 'F':
                self.decisions.append(d)
                return d == 'T'
            raise HarnessError('non-deterministic harness: decision %d is not a branch' % i)
        ms = self._model_says(cond)
        if ms is True:
            mt = self.model
            mf = self._check(z3.Not(cond))
        elif ms is False:
            mf = self.model
            mt = self._check(cond)
        else:
            mt = self._check(cond)
            mf = self._check(z3.Not(cond))
        t, f = mt is not None, mf is not None
        if t and f:
            self.forks.append((i, False))
            self.decisions.append(True)
            self.solver.push()
            self.solver.add(cond)
            self.model = mt
            return True
        if t:
            self.decisions.append('T')
            self.model = mt
            return True
        if f:
            self.decisions.append('F')
            self.model = mf
            return False
        raise Inconclusive('infeasible path condition')

    def concretize(self, expr, signed=True):
        """fork-enumerate the feasible values of a bit-vector expression.
        Decision items: ('c', excluded, value) = fork among several feasible values;
        ('d', value) = the value is determined by the path condition (nothing added)."""
        expr = z3.simplify(expr)
        if z3.is_bv_value(expr):
            return expr.as_signed_long() if signed else expr.as_long()
        i = _len(self.decisions)
        excluded = ()
        if self.index_limit is not None and expr.size() > self.index_limit.bit_length() + 1:
            # allocation obligation: can a size/index/shift derived from the input exceed the
            # limit?  A satisfiable query is a candidate (replayed under resource limits); the
            # exploration itself continues below the limit.
            key = expr.get_id()
            if key not in self.limited:
                self.limited.add(key)
                big = (expr > self.index_limit) if signed else z3.UGT(expr, self.index_limit)
                if i >= _len(self.prefix) and self.on_large_index is not None:
                    m = self._check(big)
                    if m is not None:
                        self.on_large_index(expr, m)
                self.assume(z3.Not(big))
        if i < _len(self.prefix):
            item = self.prefix[i]
            if not (isinstance(item, tuple) and item[0] in ('c', 'd')):
                raise HarnessError('non-deterministic harness: decision %d is not a concretisation' % i)
            if item[0] == 'd':
                self.decisions.append(item)
                return self._as_py(item[1], expr.size(), signed)
            excluded, chosen = item[1], item[2]
            if chosen is not None:
                self.decisions.append(item)
                if i >= self.shared:
                    self.solver.push()
                    for x in excluded:
                        self.solver.add(expr != x)
                    self.solver.add(expr == chosen)
                    self.model = None
                return self._as_py(chosen, expr.size(), signed)
            # alternative: a fresh value outside `excluded` (always the last prefix item)
            self.solver.push()
            for x in excluded:
                self.solver.add(expr != x)
            self.model = None
            m = self._check()
            if m is None:
                self.solver.pop()
                raise DeadPath()
            self.model = m
            v = m.eval(expr, model_completion=True).as_long()
            m2 = self._check(expr != v)
            if m2 is not None:
                self.forks.append((i, ('c', tuple(excluded) + (v,), None)))
            self.decisions.append(('c', tuple(excluded), v))
            self.solver.add(expr == v)
            return self._as_py(v, expr.size(), signed)
        m = self.get_model()
        v = m.eval(expr, model_completion=True).as_long()
        m2 = self._check(expr != v)
        if m2 is None:
            self.decisions.append(('d', v))
            return self._as_py(v, expr.size(), signed)
        self.forks.append((i, ('c', (v,), None)))
        self.decisions.append(('c', (), v))
        self.solver.push()
        self.solver.add(expr == v)
        return self._as_py(v, expr.size(), signed)

    @staticmethod
    def _as_py(v, bits, signed):
        if signed and v >= (1 << (bits - 1)):
            return v - (1 << bits)
        return v

    def eval(self, expr, model=None):
        m = model or self.get_model()
        return m.eval(expr, model_completion=True)


def E():
    e = Engine.cur
    if e is None:
        raise HarnessError('symbolic value used outside an engine run')
    return e


class PathResult:
    __slots__ = ('decisions', 'forks', 'nchecks', 'solver_time', 'inconclusive',
                 'violations', 'known', 'notes', 'proved', 'samples', 'xval', 'dead')

    def __init__(self):
        self.inconclusive = None
        self.violations = []
        self.known = []
        self.notes = {}
        self.proved = 0
        self.samples = []
        self.xval = 0
        self.dead = False


def _on_alarm(signum, frame):
    raise PathTimeout()


def run_path(harness, prefix, W, seed=0, timeout_ms=20000, ctx_factory=None, engine=None, path_timeout_s=None):
    """Run the harness once along ``prefix``; returns (PathResult, engine).
    path_timeout_s: wall budget of one path (a concrete loop in the analysed code that never ends
    has no decision at which the engine could stop it); on expiry the context's on_timeout() may
    record a candidate for a resource-limited concrete replay, else the path is inconclusive."""
    if engine is None:
        eng = Engine(prefix, W=W, seed=seed, timeout_ms=timeout_ms)
    else:
        eng = engine
        eng.begin(prefix)
    Engine.cur = eng
    res = PathResult()
    ctx = ctx_factory(eng, res) if ctx_factory else eng
    old_handler = None
    if path_timeout_s:
        import signal
        old_handler = signal.signal(signal.SIGALRM, _on_alarm)
        signal.setitimer(signal.ITIMER_REAL, path_timeout_s)
    try:
        try:
            harness(ctx)
        finally:
            if path_timeout_s:
                signal.setitimer(signal.ITIMER_REAL, 0)
                signal.signal(signal.SIGALRM, old_handler)
    except PathTimeout:
        handled = False
        cb = getattr(ctx, 'on_timeout', None)
        if cb is not None:
            try:
                handled = cb(path_timeout_s)
            except Exception:
                handled = False
        if not handled:
            res.inconclusive = 'path did not finish within %s s wall (possible non-termination)' % path_timeout_s
    except Inconclusive as e:
        res.inconclusive = str(e) or 'inconclusive'
    except DeadPath:
        res.dead = True
    except RecursionError:
        res.inconclusive = 'python recursion limit'
    finally:
        Engine.cur = None
        eng.end()
    res.decisions = list(eng.decisions)
    res.forks = eng.forks
    res.nchecks = eng.path_checks
    res.solver_time = eng.path_solver_time
    return res, eng


def explore(harness, W=192, prefixes=None, max_paths=None, deadline=None, seed=0,
            timeout_ms=20000, ctx_factory=None, on_path=None, path_timeout_s=None):
    """Depth-first exploration.  Returns (list of PathResult, leftover prefixes)."""
    stack = [list(p) for p in (prefixes if prefixes is not None else [[]])]
    out = []
    n = 0
    eng = None
    while stack:
        if deadline is not None and time.time() > deadline:
            break
        if max_paths is not None and n >= max_paths:
            break
        prefix = stack.pop()
        res, eng = run_path(harness, prefix, W, seed, timeout_ms, ctx_factory, engine=eng,
                            path_timeout_s=path_timeout_s)
        n += 1
        for i, alt in res.forks:
            stack.append(res.decisions[:i] + [alt])
        if res.dead:
            continue
        if on_path:
            on_path(res)
        out.append(res)
    return out, stack
