"""C17 -- the compile cache is transparent (key function over symbolic file contents/options)."""
import sys
import os
sys.path.insert(0, os.path.dirname(os.path.dirname(os.path.abspath(__file__))))
import json
import z3

from lib import codec as C
from lib.codec import asn1tools
from lib import runner
from lib.symvalue import struct_eq, Mismatch
from asn1tools import compiler as top
import pyfront
from pyfront import shimmed, unshimmed, SymBytes
from symcore import HarnessError, Engine, Inconclusive

PROP = 'C17'
CODECS = ['ber', 'uper']
ADB = [None, {('M', 'T', 'v'): {1: 'INTEGER'}}, {('M', 'T', 'v'): {1: 'BOOLEAN'}}]
FILELISTS = [['f1'], ['f1', 'f2'], 'f1']
ENCODINGS = ['utf-8']


_BYTES = (bytes, bytearray, SymBytes)


def _keq(a, b):
    """cache key equality, decided by the solver for symbolic octets"""
    if isinstance(a, _BYTES) and isinstance(b, _BYTES):
        r = (SymBytes(a) if not isinstance(a, SymBytes) else a) == b
        return r is True or (r is not False and bool(r))
    if isinstance(a, _BYTES) or isinstance(b, _BYTES):
        return False
    if isinstance(a, tuple) and isinstance(b, tuple):
        return len(a) == len(b) and all(_keq(x, y) for x, y in zip(a, b))
    r = (a == b)
    return r is True or (r is not False and r is not NotImplemented and bool(r))


class FakeCache:
    """stands for diskcache.Cache: persistent mapping keyed by directory; list-backed, linear
    == scan (so symbolic keys are compared by the solver, never hashed)"""
    stores = {}

    def __init__(self, directory):
        self.items = FakeCache.stores.setdefault(directory, [])

    def __getitem__(self, key):
        for k, v in self.items:
            if _keq(k, key):
                return v
        raise KeyError(key)

    def get(self, key, default=None):
        try:
            return self[key]
        except KeyError:
            return default

    def __contains__(self, key):
        try:
            self[key]
            return True
        except KeyError:
            return False

    def set(self, key, value, *a, **k):
        self[key] = value
        return True

    def close(self):
        pass

    def __enter__(self):
        return self

    def __exit__(self, *a):
        return False

    def __setitem__(self, key, value):
        for i, (k, _v) in enumerate(self.items):
            if _keq(k, key):
                self.items[i] = (key, value)
                return
        self.items.append((key, value))


class FakeDiskcache:
    Cache = FakeCache


class FakeHash:
    """collision-free digest: the content itself behind a tag (hash functions are modelled as
    injective; equal digests <=> equal contents)"""

    def __init__(self, name, data=b''):
        self.name = name
        self.parts = SymBytes(list(pyfront._cells_of(name.encode() + b':')))
        if len(data):
            self.update(data)

    def update(self, data):
        self.parts = self.parts + (data if isinstance(data, SymBytes) else SymBytes(list(pyfront._cells_of(bytes(data)))))

    def digest(self):
        return self.parts

    def hexdigest(self):
        return self.parts.hex()

    def copy(self):
        h = FakeHash(self.name)
        h.parts = SymBytes(list(self.parts.c))
        return h


class FakeHashlib:
    def __getattr__(self, name):
        if name.startswith('_'):
            raise AttributeError(name)
        return lambda data=b'', **k: FakeHash(name, data)

    def new(self, name, data=b'', **k):
        return FakeHash(name, data)


def jobs_for(tier):
    ncalls = 2
    jobs = []
    top_len = 1 if tier == 'quick' else 3
    for l1 in range(top_len + 1):
        for l2 in range(top_len + 1):
            jobs.append(dict(id='history%d/len-f1=%d,f2=%d' % (ncalls, l1, l2), ncalls=ncalls, lens=[l1, l2],
                             maxlen=top_len, tier=tier))
    if tier == 'thorough':
        jobs.append(dict(id='history3/len-f1=1,f2=1', ncalls=3, lens=[1, 1], maxlen=top_len, tier=tier, small=True))
    for name in STORED:
        for codec in (('ber', 'uper') if tier == 'quick' else ('ber', 'der', 'per', 'uper', 'oer')):
            jobs.append(dict(id='stored/%s/%s' % (name, codec), stored=name, codec=codec, numeric_enums=False,
                             tier=tier, ncalls=0, maxlen=0, lens=[0, 0]))
    return jobs


# ---- what the cache hands back: the pickled Specification ---------------------------------------
STORED = {
    'basic': ('T DEFINITIONS AUTOMATIC TAGS ::= BEGIN\nA ::= SEQUENCE { a INTEGER (0..300), b BOOLEAN OPTIONAL, '
              'e ENUMERATED { x, y } DEFAULT y, l SEQUENCE (SIZE(0..2)) OF B }\nB ::= CHOICE { p INTEGER (0..7), q NULL }\nEND\n'),
    'recursive': 'T DEFINITIONS AUTOMATIC TAGS ::= BEGIN\nA ::= SEQUENCE { v INTEGER (0..7), next A OPTIONAL }\nEND\n',
    # one type name in one, two and three modules (Specification.types keeps only unambiguous names)
    'three-modules': ('M1 DEFINITIONS AUTOMATIC TAGS ::= BEGIN\nId ::= INTEGER (0..7)\nA ::= SEQUENCE { i Id }\nEND\n'
                      'M2 DEFINITIONS AUTOMATIC TAGS ::= BEGIN\nId ::= BOOLEAN\nTwo ::= SEQUENCE { t Id }\nDup ::= NULL\nEND\n'
                      'M3 DEFINITIONS AUTOMATIC TAGS ::= BEGIN\nId ::= IA5String (SIZE(0..2))\nDup ::= BOOLEAN\nEND\n'),
}


def make_stored_harness(job):
    """diskcache stores the pickled Specification and returns the unpickled copy: that copy must be the
    same codec (same type names, and for every type the same bytes / values / errors on all symbolic
    values) as the object that was compiled"""
    import pickle
    from lib import equiv
    from lib.symvalue import Gen, Bounds
    text = STORED[job['stored']]
    parsed = asn1tools.parse_string(text)
    fresh = asn1tools.compile_string(text, job['codec'], numeric_enums=job['numeric_enums'])
    stored = pickle.loads(pickle.dumps(fresh))
    pyfront.patch_lookup_dicts(fresh)
    pyfront.patch_lookup_dicts(stored)
    cands = C.Candidates(fresh, stored)
    gen = Gen(parsed, Bounds(int_abs=1 << 9, n_len=2, depth=3, str_len=2), job['numeric_enums'])
    names_f, names_s = sorted(fresh.types), sorted(stored.types)
    where = {}
    for mod, d in parsed.items():
        for n in d['types']:
            where.setdefault(n, []).append(mod)

    def harness(ctx):
        cands.attach(ctx)
        ctx.describe = lambda m: {'stored': job['stored'], 'codec': job['codec']}
        if names_f != names_s:
            ctx.violation('stored-specification-has-other-types', 'compiled: %s, from the cache: %s' % (names_f, names_s))
            return
        ctx.res.proved += 1
        k = ctx.choose('type', len(names_f))
        name = names_f[k]
        mod = where[name][0]
        with shimmed(C.CODEC_MODS):
            v = gen.value(ctx, parsed[mod]['types'][name], mod)
            from lib.symvalue import jsonable, concretize
            ctx.describe = lambda m: {'stored': job['stored'], 'codec': job['codec'], 'type': name,
                                      'value': jsonable(concretize(v, m))}
            if equiv.compare_codecs(ctx, fresh.types[name], stored.types[name], v, 'stored-vs-compiled'):
                ctx.note('stored-specification-equivalent')
    return harness


def replay_stored(v):
    import pickle
    from lib.symvalue import unjson
    inp = v['witness']['inputs']
    job = v['job']
    text = STORED[job['stored']]
    fresh = asn1tools.compile_string(text, job['codec'], numeric_enums=job['numeric_enums'])
    import tempfile
    import shutil
    d = tempfile.mkdtemp(dir='/var/tmp')
    try:
        path = os.path.join(d, 'spec.asn')
        open(path, 'w').write(text)
        asn1tools.compile_files(path, job['codec'], cache_dir=os.path.join(d, 'cache'), numeric_enums=job['numeric_enums'])
        cached = asn1tools.compile_files(path, job['codec'], cache_dir=os.path.join(d, 'cache'),
                                         numeric_enums=job['numeric_enums'])     # second call: from the cache
    finally:
        shutil.rmtree(d, ignore_errors=True)
    if sorted(cached.types) != sorted(fresh.types):
        return True, 'compile_files from the cache knows the types %s, an uncached compile %s' % (
            sorted(cached.types), sorted(fresh.types))
    if 'type' not in inp:
        return False, 'same type names'
    value = unjson(inp['value'])

    def run(spec):
        try:
            enc = spec.encode(inp['type'], value)
            return ('enc', enc.hex(), repr(spec.decode(inp['type'], enc)))
        except Exception as e:
            return (type(e).__name__,)
    a, b = run(fresh), run(cached)
    if a != b:
        return True, 'type %s value %r: uncached %r, from the cache %r' % (inp['type'], value, a, b)
    return False, 'cached and uncached specification agree on %r' % (value,)


def make_harness(job):
    if job.get('stored'):
        return make_stored_harness(job)
    ncalls, maxlen = job['ncalls'], job['maxlen']
    lens = dict(zip(('f1', 'f2'), job['lens']))
    small = job.get('small')

    def harness(ctx):
        FakeCache.stores = {}
        fs = {}
        log = []

        class FakeFile:
            def __init__(self, name):
                self.name = name

            def __enter__(self):
                return self

            def __exit__(self, *a):
                return False

            def read(self):
                return fs[self.name]

        def fake_open(name, mode='r', *a, **k):
            return FakeFile(name)

        # the file system as the function under analysis may observe it: size and a modification
        # time in whole seconds that never decreases but need not change when a file is rewritten
        # (same second, or preserved by the tool that wrote it)
        mtime = {}

        class FakeStat:
            def __init__(self, name):
                self.st_size = len(fs[name])
                self.st_mtime = mtime[name]
                self.st_mtime_ns = mtime[name] * 1000000000
                self.st_ino = {'f1': 11, 'f2': 12}[name]

        class FakePath:
            abspath = realpath = normpath = staticmethod(lambda n: n)
            getsize = staticmethod(lambda n: len(fs[n]))
            getmtime = staticmethod(lambda n: mtime[n])
            exists = isfile = staticmethod(lambda n: n in fs)
            join = staticmethod(os.path.join)
            basename = staticmethod(os.path.basename)

        class FakeOs:
            path = FakePath
            stat = staticmethod(lambda n, **k: FakeStat(n))
            fspath = staticmethod(lambda n: n)
            sep = os.sep

            def __getattr__(self, name):
                raise Inconclusive('os.%s outside the file-system stub' % name)

        def fake_parse_files(filenames, encoding='utf-8'):
            if isinstance(filenames, str):
                filenames = [filenames]
            return ('parsed', tuple(fs[f] for f in filenames), encoding)

        def fake_compile_dict(specification, codec='ber', any_defined_by_choices=None, numeric_enums=False):
            return ('spec', specification, codec, repr(any_defined_by_choices), numeric_enums)

        saved = {k: top.__dict__.get(k) for k in ('open', 'diskcache', 'parse_files', 'compile_dict', 'os', 'hashlib')}
        top.__dict__.update(open=fake_open, diskcache=FakeDiskcache, parse_files=fake_parse_files,
                            compile_dict=fake_compile_dict)
        if 'os' in top.__dict__:
            top.__dict__['os'] = FakeOs()
        if 'hashlib' in top.__dict__:
            top.__dict__['hashlib'] = FakeHashlib()
        calls = []
        ctx.describe = lambda m: {'calls': [
            {'files': c['files'], 'codec': c['codec'], 'numeric_enums': c['ne'], 'adb': repr(c['adb']),
             'encoding': c['enc'],
             'contents': {f: (b.concrete(m).hex() if isinstance(b, SymBytes) else bytes(b).hex())
                          for f, b in c['contents'].items()},
             'mtime': {f: (m.eval(t.e, model_completion=True).as_signed_long() if hasattr(t, 'e') else t)
                       for f, t in c['mtime'].items()}} for c in calls]}
        try:
            with shimmed([top]):
                for i in range(ncalls):
                    files = FILELISTS[ctx.choose('c%d.files' % i, len(FILELISTS))]
                    codec = CODECS[ctx.choose('c%d.codec' % i, len(CODECS))]
                    ne = bool(ctx.choose('c%d.numeric_enums' % i, 2))
                    adb = ADB[ctx.choose('c%d.adb' % i, len(ADB))]
                    enc = ENCODINGS[0 if small else ctx.choose('c%d.encoding' % i, len(ENCODINGS))]
                    # file contents as of this call (files may have changed since the last call;
                    # a changed file may also have grown by one octet)
                    for f in ('f1', 'f2'):
                        if i == 0:
                            fs[f] = ctx.bytes('c%d.%s' % (i, f), lens[f])
                            mtime[f] = ctx.int('c%d.%s.mtime' % (i, f), 0, 1000)
                        elif ctx.choose('c%d.%s.changed' % (i, f), 2):
                            grow = 0 if small else ctx.choose('c%d.%s.grow' % (i, f), 2)
                            fs[f] = ctx.bytes('c%d.%s' % (i, f), lens[f] + grow)
                            t = ctx.int('c%d.%s.mtime' % (i, f), 0, 1000)
                            ctx.assume(t >= mtime[f])
                            mtime[f] = t
                    calls.append(dict(files=files, codec=codec, ne=ne, adb=adb, enc=enc, contents=dict(fs), mtime=dict(mtime)))
                    got = top._compile_files_cache(files, codec, adb, enc, 'CACHE', ne)
                    want = fake_compile_dict(fake_parse_files(files, enc), codec, adb, ne)
                    conds = []
                    try:
                        struct_eq(want, got, conds)
                    except Mismatch as e:
                        pm = ctx.eng.check_model(z3.And([z3.And(z3.UGE(c, 0x20), z3.ULE(c, 0x7e), c != 0x22)
                                                         for call in calls for b in call['contents'].values()
                                                         if isinstance(b, SymBytes) for c in b.c] + [z3.BoolVal(True)]))
                        ctx.violation('cached-result-differs-from-uncached-compile', 'call %d: %s' % (i + 1, str(e)[:120]),
                                      model=pm)
                        return
                    if conds:
                        # prefer a witness whose octets can be written inside an ASN.1 string literal, so
                        # that the replay can use the real parser and compiler (see replay())
                        printable = z3.And([z3.And(z3.UGE(c, 0x20), z3.ULE(c, 0x7e), c != 0x22)
                                            for call in calls for b in call['contents'].values()
                                            if isinstance(b, SymBytes) for c in b.c] + [z3.BoolVal(True)])
                        if not ctx.prove('cached-result-equals-uncached-compile',
                                         z3.Or(z3.And(conds), z3.Not(printable)), info='call %d' % (i + 1)):
                            return
                        if not ctx.prove('cached-result-equals-uncached-compile', z3.And(conds),
                                         info='call %d' % (i + 1)):
                            return
                    ctx.res.proved += 0 if conds else 1
            ctx.res.xval += 1
            ctx.sample({'job': job['id'], 'calls': [(c['files'], c['codec'], c['ne']) for c in calls]})
        finally:
            for k, v in saved.items():
                if v is None:
                    top.__dict__.pop(k, None)
                else:
                    top.__dict__[k] = v
    return harness


REAL_TEXT = {
    'f1': 'M DEFINITIONS ::= BEGIN\nT ::= SEQUENCE { t INTEGER, v ANY DEFINED BY t OPTIONAL, '
          's UTF8String DEFAULT "%s", e ENUMERATED { x(1), y(2) } DEFAULT y }\nEND\n',
    'f2': 'N DEFINITIONS ::= BEGIN\nU ::= SEQUENCE { t INTEGER, s UTF8String DEFAULT "%s", '
          'e ENUMERATED { p(1), q(2) } DEFAULT q }\nEND\n',
}


def _observe(spec):
    """behaviour of a compiled specification through its public API"""
    out = []
    for name in ('T', 'U'):
        if name not in spec.types:
            out.append((name, 'absent'))
            continue
        for value in ({'t': 1}, {'t': 1, 'v': 5}):
            try:
                enc = spec.encode(name, value)
                out.append((name, 'enc', enc.hex(), repr(spec.decode(name, enc))))
            except Exception as e:
                out.append((name, type(e).__name__))
    return out


def replay_real(calls):
    """the witness with REAL ASN.1 files (the witness octets become the text of a string literal), the
    real parser, the real compiler and the real diskcache, compared with uncached compiles through the
    public API.  Returns None when the witness cannot be embedded."""
    import tempfile
    import shutil
    for c in calls:
        for f in ('f1', 'f2'):
            b = bytes.fromhex(c['contents'][f])
            if not all(0x20 <= x <= 0x7e and x != 0x22 for x in b):
                return None
    d = tempfile.mkdtemp(dir='/var/tmp')
    vacuous = False
    try:
        for i, c in enumerate(calls):
            for f in ('f1', 'f2'):
                path = os.path.join(d, f)
                with open(path, 'wb') as fo:
                    fo.write((REAL_TEXT[f] % bytes.fromhex(c['contents'][f]).decode('ascii')).encode('ascii'))
                if c.get('mtime'):
                    t = 1700000000 + int(c['mtime'][f])
                    os.utime(path, (t, t))
            files = [os.path.join(d, f) for f in c['files']] if isinstance(c['files'], list) \
                else os.path.join(d, c['files'])
            adb = eval(c['adb'])
            kw = dict(any_defined_by_choices=adb, encoding=c['encoding'], numeric_enums=c['numeric_enums'])
            try:
                cached = _observe(asn1tools.compile_files(files, c['codec'], cache_dir=os.path.join(d, 'cache'), **kw))
            except Exception as e:
                cached = ['compile raised %s' % type(e).__name__]
            try:
                plain = _observe(asn1tools.compile_files(files, c['codec'], **kw))
            except Exception as e:
                plain = ['compile raised %s' % type(e).__name__]
            if cached == plain and cached and str(cached[0]).startswith('compile raised'):
                vacuous = True      # this codec cannot compile the embedding text: nothing observed
            if cached != plain:
                return True, ('call %d compile_files(%r, %r, numeric_enums=%r, any_defined_by_choices=%s) with a cache '
                              'directory behaves like an earlier compile: %r, without cache: %r (file texts embed the '
                              'witness octets %r in a string literal)' % (
                                  i + 1, c['files'], c['codec'], c['numeric_enums'], c['adb'], cached[:2], plain[:2],
                                  {f: bytes.fromhex(c['contents'][f]) for f in ('f1', 'f2')}))
        if vacuous:
            return None
        return False, 'real files: every cached compile behaves like the uncached one'
    finally:
        shutil.rmtree(d, ignore_errors=True)


def replay(v):
    if v['job'].get('stored'):
        return replay_stored(v)
    r = replay_real(v['witness']['inputs']['calls'])
    if r is not None:
        return r
    return replay_tokens(v)


def replay_tokens(v):
    """replay on the REAL _compile_files_cache with the REAL diskcache in a temporary directory and
    real files holding the witness bytes; only parse_files/compile_dict are replaced by token
    builders (the witness bytes are not ASN.1 text)"""
    import tempfile
    import shutil
    calls = v['witness']['inputs']['calls']
    d = tempfile.mkdtemp(dir='/var/tmp')

    def tok_parse(filenames, encoding='utf-8'):
        if isinstance(filenames, str):
            filenames = [filenames]
        return ('parsed', tuple(open(f, 'rb').read() for f in filenames), encoding)

    def tok_compile(specification, codec='ber', any_defined_by_choices=None, numeric_enums=False):
        return ('spec', specification, codec, repr(any_defined_by_choices), numeric_enums)
    saved = (top.parse_files, top.compile_dict)
    top.parse_files, top.compile_dict = tok_parse, tok_compile
    try:
        for i, c in enumerate(calls):
            for f in ('f1', 'f2'):
                with open(os.path.join(d, f), 'wb') as fo:
                    fo.write(bytes.fromhex(c['contents'][f]))
                if c.get('mtime'):
                    # the modification time of the witness (whole seconds; a rewrite within one second)
                    t = 1700000000 + int(c['mtime'][f])
                    os.utime(os.path.join(d, f), (t, t))
            files = [os.path.join(d, f) for f in c['files']] if isinstance(c['files'], list) \
                else os.path.join(d, c['files'])
            adb = eval(c['adb'])
            got = top._compile_files_cache(files, c['codec'], adb, c['encoding'], os.path.join(d, 'cache'),
                                           c['numeric_enums'])
            want = tok_compile(tok_parse(files, c['encoding']), c['codec'], adb, c['numeric_enums'])
            if got != want:
                return True, 'call %d %r returns the specification cached for an earlier call: %r instead of %r' % (
                    i + 1, {k: c[k] for k in ('files', 'codec', 'numeric_enums', 'adb', 'contents')}, got, want)
        return False, 'every call returned what an uncached compile builds'
    finally:
        top.parse_files, top.compile_dict = saved
        shutil.rmtree(d, ignore_errors=True)


def main(argv=None):
    a = runner.std_args(argv)
    if a.replay:
        return runner.cli_replay(PROP, 'checks.C17', replay, a.replay)
    jobs = jobs_for(a.tier)
    if a.only:
        jobs = [j for j in jobs if a.only in j['id']]
    return runner.run_check(
        PROP, 'checks.C17', jobs, a.tier, a.seed, replay=replay, nproc=a.nproc,
        functions=['asn1tools.compiler._compile_files_cache'],
        bounds=dict(calls=jobs[0]['ncalls'] if jobs else 0, files='2 files, contents 0..%d fully symbolic octets each, '
                    'may change between calls' % max(j['maxlen'] for j in jobs), file_lists=FILELISTS, codecs=CODECS,
                    numeric_enums=[False, True], any_defined_by_choices=[repr(x) for x in ADB], encodings=ENCODINGS),
        assumptions=['environment stubs: open() returns the current symbolic contents; diskcache.Cache is a '
                     'persistent mapping compared with == (the real one hashes the pickled key; equal keys are '
                     'equal either way); parse_files/compile_dict return a token of their arguments, so "behaves '
                     'like an uncached compile" is "returns the token an uncached call would build"'],
        stubs=['builtins shims in asn1tools.compiler', 'open / diskcache / parse_files / compile_dict stubs (listed above)'],
        outside=['crash points and fault sequences (SIGKILL while populating, truncated or bit-flipped cache files): '
                 'they depend on diskcache/sqlite and the file system, which cannot be encoded; no claim is made'])


if __name__ == '__main__':
    sys.exit(main())
