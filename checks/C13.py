"""C13 -- compiling is independent of what was compiled before from the same dictionary."""
import sys
import os
sys.path.insert(0, os.path.dirname(os.path.dirname(os.path.abspath(__file__))))
import copy
import json
import pprint

from lib import codec as C
from lib.codec import asn1tools
from lib import runner
from lib.common import bounds_for
from lib.symvalue import Gen, Bounds, concretize, jsonable, unjson
from lib.equiv import compare_codecs
import corpus
import pyfront
from pyfront import shimmed

PROP = 'C13'
ALL = ['ber', 'der', 'per', 'uper', 'oer', 'jer', 'xer', 'gser']
TEMPLATES = ['combo-bits-default', 'combo-components-of', 'combo-ext-implied', 'combo-import',
             'enum-ext', 'c13-enum-default', 'defaults-by-ref-small', 'components-of-chain',
             'two-modules-same-name-choice', 'two-modules-same-name-seq']
MORE = ['seq-opt', 'combo-uper6', 'combo-ref', 'combo-default-shared', 'tag-app', 'combo-recursive', 'seq-ext-group', 'set-tags',
        'combo-set-choice', 'int-named']


def histories(tier):
    """list of histories; a history is a list of steps ('compile', codec, numeric) | ('pformat',) | ('deepcopy',)"""
    out = []
    priors = [(c, ne) for c in ALL for ne in (False, True)]
    for c, ne in priors:
        out.append([('compile', c, ne)])
    for c, ne in (('ber', False), ('uper', True), ('gser', False), ('oer', True)):
        out.append([('compile', c, ne), ('pformat',)])
        out.append([('compile', c, ne), ('deepcopy',)])
    out.append([('pformat',)])
    out.append([('compile', 'ber', False), ('compile', 'ber', False)])
    out.append([('compile', 'uper', False), ('compile', 'jer', False), ('compile', 'oer', False)])
    if tier == 'thorough':
        for c1, n1 in (('ber', True), ('uper', False), ('jer', True), ('oer', False), ('xer', True)):
            for c2, n2 in (('per', False), ('der', True), ('gser', True), ('oer', True)):
                out.append([('compile', c1, n1), ('compile', c2, n2)])
                out.append([('compile', c1, n1), ('pformat',), ('compile', c2, n2)])
        out.append([('compile', 'ber', True), ('compile', 'ber', False), ('compile', 'uper', True),
                    ('deepcopy',), ('compile', 'oer', False), ('pformat',), ('compile', 'per', True)])
    return out


def hist_id(h):
    return '+'.join('%s%s' % (s[1], 'N' if s[2] else '') if s[0] == 'compile' else s[0] for s in h)


def jobs_for(tier):
    jobs = []
    finals = [('ber', False), ('uper', True)] if tier == 'quick' else \
        [(c, ne) for c in ('ber', 'der', 'per', 'uper', 'oer') for ne in (False, True)]
    for t in TEMPLATES + (MORE if tier == 'thorough' else []):
        for h in histories(tier):
            for codec, ne in finals:
                jobs.append(dict(id='%s/%s/%s%s' % (t, hist_id(h), codec, 'N' if ne else ''), template=t,
                                 history=h, codec=codec, numeric_enums=ne, tier=tier))
    return jobs


def run_history(text, history):
    d = asn1tools.parse_string(text)
    for step in history:
        if step[0] == 'compile':
            asn1tools.compile_dict(d, step[1], numeric_enums=step[2])
        elif step[0] == 'pformat':
            d = eval(pprint.pformat(d))            # what the `parse` sub-command writes and .py files read back
        elif step[0] == 'deepcopy':
            d = copy.deepcopy(d)
    return d


def make_harness(job):
    tpl = corpus.BY_ID[job['template']]
    history = [tuple(s) for s in job['history']]
    error = None
    try:
        d = run_history(tpl['text'], history)
        used = asn1tools.compile_dict(d, job['codec'], numeric_enums=job['numeric_enums'])
    except Exception as e:
        used = None
        error = '%s: %s' % (type(e).__name__, str(e)[:120])
    fresh = asn1tools.compile_string(tpl['text'], job['codec'], numeric_enums=job['numeric_enums'])
    parsed = asn1tools.parse_string(tpl['text'])
    b = Bounds(int_abs=1 << 9, n_len=1, depth=4, str_len=1) if job['tier'] == 'quick' else \
        Bounds(int_abs=1 << 17, n_len=2, depth=5, str_len=2)
    gen = Gen(parsed, b, job['numeric_enums'], tie=tpl.get('tie'))
    td = parsed[tpl['module']]['types'][tpl['type']]
    if used is not None:
        pyfront.patch_lookup_dicts(used)
    pyfront.patch_lookup_dicts(fresh)
    cands = C.Candidates(fresh, used)
    name = tpl['type']

    def harness(ctx):
        cands.attach(ctx)
        if error is not None:
            ctx.describe = lambda m: {'value': None}
            ctx.violation('compile-after-history-raises', error)
            return
        with shimmed(C.CODEC_MODS):
            v = gen.value(ctx, td, tpl['module'])
            ctx.describe = lambda m: {'value': jsonable(concretize(v, m))}
            ctF, ctU = fresh.types[name], used.types[name]
            try:
                ctF.check_types(v)
                ctF.check_constraints(v)
            except C.LIB_ERRORS:
                ctx.note('outside-domain')
                return
            compare_codecs(ctx, ctF, ctU, v, 'fresh-vs-history')
    return harness


def replay(v):
    job = v['job']
    tpl = corpus.BY_ID[job['template']]
    history = [tuple(s) for s in job['history']]
    fresh = asn1tools.compile_string(tpl['text'], job['codec'], numeric_enums=job['numeric_enums'])
    try:
        d = run_history(tpl['text'], history)
        used = asn1tools.compile_dict(d, job['codec'], numeric_enums=job['numeric_enums'])
    except Exception as e:
        return True, 'history %s then compile(%s) raises %r' % (hist_id(history), job['codec'], e)
    value = unjson(v['witness']['inputs']['value'])
    name = tpl['type']

    def run(spec):
        try:
            enc = spec.encode(name, value)
        except Exception as e:
            return ('encode-raises', type(e).__name__)
        try:
            return (enc.hex(), repr(spec.decode(name, enc)))
        except Exception as e:
            return (enc.hex(), 'decode-raises ' + type(e).__name__)
    a, b = run(fresh), run(used)
    return (a != b), 'value %r after history %s: fresh %r, reused dictionary %r' % (value, hist_id(history), a, b)


def main(argv=None):
    a = runner.std_args(argv)
    if a.replay:
        return runner.cli_replay(PROP, 'checks.C13', replay, a.replay)
    jobs = jobs_for(a.tier)
    if a.only:
        jobs = [j for j in jobs if a.only in j['id']]
    return runner.run_check(
        PROP, 'checks.C13', jobs, a.tier, a.seed, replay=replay, nproc=a.nproc,
        functions=['asn1tools.compile_dict', 'codecs.compiler.Compiler.pre_process*'] + C.functions_of(*C.CODEC_MODS),
        bounds=dict(histories=len(histories(a.tier)), templates=len({j['template'] for j in jobs}),
                    history_shape='1 prior compile over 8 codecs x numeric_enums, optional pformat/eval or deepcopy'
                    if a.tier == 'quick' else 'up to 7 steps (2-compile histories over a codec sample, one 7-step history)',
                    values='C01 quick bounds with lists <= 1/2'),
        assumptions=['the history (a finite choice) is enumerated as jobs; the solver decides, per history, '
                     'equivalence of the resulting codec with a freshly compiled one over all symbolic values'],
        stubs=['builtin shims as in C01'],
        outside=['final codec jer/xer/gser (text codecs are compared in C02/C20 only)', 'histories longer than stated'])


if __name__ == '__main__':
    sys.exit(main())
