"""C15 -- BER/DER framing helpers (decode_length, decode_with_length) agree with the decoder."""
import sys
import os
sys.path.insert(0, os.path.dirname(os.path.dirname(os.path.abspath(__file__))))
import json
import z3

from lib import codec as C
from lib.codec import asn1tools
from lib import runner
from lib.common import Compiled, bounds_for
from lib.symvalue import Equiv, Mismatch, concretize, jsonable, unjson
import corpus
from pyfront import shimmed, unshimmed, SymBytes, SymInt, SymBool, to_z3bool
from symcore import HarnessError, Engine

PROP = 'C15'
MAX_LEN_OCTETS = 4


def jobs_for(tier):
    jobs = []
    maxk = 9 if tier == 'quick' else 11
    for codec in ('ber', 'der'):
        for k in range(0, maxk + 1):
            jobs.append(dict(id='header/%s/prefix%d' % (codec, k), kind='header', codec=codec, k=k, tier=tier))
    ids = ['bool', 'int', 'octets', 'seq-basic', 'seq-ext', 'seq-opt', 'choice-ext', 'seqof', 'tag-explicit',
           'tag-big', 'ia5', 'null', 'set-basic']
    if tier == 'thorough':
        ids += ['combo-uper6', 'combo-choice-seq', 'seq-ext-group', 'bits-named', 'oid', 'utf8', 'tag-app',
                'combo-recursive', 'enum-ext']
    for i in ids:
        for codec in ('ber', 'der'):
            for ntail in range(0, 3 if tier == 'quick' else 4):
                jobs.append(dict(id='tail/%s/%s/tail%d' % (i, codec, ntail), kind='tail', template=i,
                                 codec=codec, ntail=ntail, tier=tier, numeric_enums=False))
    for i in ['octets', 'ia5', 'seq-basic', 'choice-ext', 'combo-str-seq', 'set-basic', 'bits'] + \
            (['seq-ext', 'tag-explicit', 'utf8', 'setof'] if tier == 'thorough' else []):
        for ntail in range(0, 3):
            jobs.append(dict(id='variant-tail/%s/ber/tail%d' % (i, ntail), kind='tail', variant=True, template=i,
                             codec='ber', ntail=ntail, tier=tier, numeric_enums=False))
    return jobs


# ---- independent X.690 header model (clauses 8.1.2, 8.1.3) ---------------------------------
def model_header(ctx, data):
    """returns None if identifier+length octets are not complete in `data`, the string
    'outside' if the header is not a definite-length header inside the bound, else
    (header_len, content_len)"""
    n = len(data)
    i = 0
    if i >= n:
        return None
    b0 = data[i]
    i += 1
    if (b0 & 0x1f) == 0x1f:
        cnt = 0
        while True:
            if i >= n:
                return None
            b = data[i]
            i += 1
            cnt += 1
            if (b & 0x80) == 0:
                break
            if cnt >= 4:
                return 'outside'          # tag numbers >= 2^28
    if i >= n:
        return None
    l0 = data[i]
    i += 1
    if l0 < 0x80:
        return i, l0
    if l0 == 0x80 or l0 == 0xff:
        return 'outside'                  # indefinite / reserved
    k = (l0 & 0x7f)
    k = int(k) if not isinstance(k, SymInt) else k.__index__()
    if k > MAX_LEN_OCTETS:
        return 'outside'
    if i + k > n:
        return None
    v = 0
    for j in range(k):
        v = (v << 8) | data[i + j]
    return i + k, v


def make_harness(job):
    if job['kind'] == 'header':
        spec = asn1tools.compile_string('T DEFINITIONS ::= BEGIN A ::= INTEGER END', job['codec'])
        cands = C.Candidates(spec)
        k = job['k']

        def harness(ctx):
            cands.attach(ctx)
            data = ctx.bytes('x', k)
            ctx.describe = lambda m: {'data': data.concrete(m).hex()}
            with shimmed(C.CODEC_MODS):
                mh = model_header(ctx, data)
                if mh == 'outside':
                    ctx.note('outside-bound-or-not-definite')
                    return
                try:
                    got = spec.decode_length(data)
                except asn1tools.DecodeError as e:
                    ctx.violation('decode_length-raises', str(e)[:100])
                    return
                except Exception as e:
                    ctx.violation('decode_length-foreign-exception', repr(e)[:100])
                    return
                m = ctx.eng.get_model()
                cd = data.concrete(m)
                with unshimmed():
                    real = spec.decode_length(cd)
                sym = got
                if isinstance(got, SymInt):
                    sym = m.eval(got.e, model_completion=True).as_signed_long()
                if real != sym:
                    raise HarnessError('xval mismatch on %s: symbolic %r concrete %r' % (cd.hex(), sym, real))
                ctx.res.xval += 1
                ctx.sample({'job': job['id'], 'prefix': cd.hex(), 'decode_length': real})
                if mh is None:
                    if got is not None:
                        ctx.violation('length-reported-before-header-complete', repr(got))
                    else:
                        ctx.res.proved += 1
                        ctx.note('not-yet-known')
                    return
                hl, cl = mh
                total = hl + cl
                # the prefix is a prefix of the message: k <= total
                c = (total >= k)
                if isinstance(c, SymBool):
                    if not bool(c):
                        ctx.note('longer-than-message(covered by the tail jobs)')
                        return
                elif not c:
                    ctx.note('longer-than-message(covered by the tail jobs)')
                    return
                if got is None:
                    ctx.violation('header-complete-but-not-known', 'header %d' % hl)
                    return
                ctx.prove('length-equals-header-plus-content', got == total)
                ctx.note('length-known')
        return harness

    cj = Compiled(job, bounds_for(job['tier'], corpus.BY_ID[job['template']],
                                  **({'int_abs': 1 << 17} if job['tier'] == 'quick' else {})))
    eq = Equiv(cj.gen, 0)
    ntail = job['ntail']
    variant = job.get('variant')
    if variant:
        from models import x690
        cj.bounds.n_len = 1
        cj.bounds.int_abs = 1 << 9
        model = x690.DerModel(cj.parsed)

    def harness(ctx):
        cj.cands.attach(ctx)
        with shimmed(C.CODEC_MODS):
            v = cj.value(ctx)
            tail = ctx.bytes('tail', ntail)
            st = {}
            ctx.describe = lambda m: {'value': jsonable(concretize(v, m)), 'tail': tail.concrete(m).hex(),
                                      'message': st['enc'].concrete(m).hex() if 'enc' in st else None}
            if not cj.accepted(v):
                ctx.note('outside-domain')
                return
            try:
                if variant:
                    # any valid BER form of the message (built by the independent X.690 model)
                    rw = x690.Rewriter(lambda name, n: ctx.choose(name, n), max_rewrites=1)
                    enc = SymBytes(rw.emit(model.tree(v, cj.name, cj.module)))
                    if any('len=3' in x for x in rw.log):
                        ctx.note('indefinite-outer-length(outside: the property is about definite-length encodings)')
                else:
                    enc = cj.ct.encode(v)
            except Exception:
                ctx.note('encode-raises(C01 territory)')
                return
            msg = SymBytes(enc) + tail
            if variant:
                st['enc'] = SymBytes(enc)
            try:
                dec, length = cj.spec.decode_with_length(cj.name, msg)
            except Exception as e:
                ctx.violation('decode_with_length-raises', '%s: %s' % (type(e).__name__, str(e)[:100]))
                return
            m = ctx.eng.get_model()
            cmsg = msg.concrete(m)
            with unshimmed():
                try:
                    rdec, rlen = cj.spec.decode_with_length(cj.name, cmsg)
                except Exception as e:
                    raise HarnessError('xval: concrete decode_with_length(%s) raised %r' % (cmsg.hex(), e))
            slen = length if not isinstance(length, SymInt) else \
                m.eval(length.e, model_completion=True).as_signed_long()
            if rlen != slen:
                raise HarnessError('xval mismatch on %s: length symbolic %r concrete %r' % (cmsg.hex(), slen, rlen))
            ctx.res.xval += 1
            ctx.sample({'job': job['id'], 'message+tail': cmsg.hex(), 'decode_with_length': [repr(rdec), rlen]})
            ok = ctx.prove('length-is-message-length', length == len(enc))
            try:
                cond = eq.equiv(v, dec, cj.td, cj.module)
            except Mismatch as e:
                ctx.violation('value-differs-with-tail', str(e))
                return
            ctx.prove('value-unchanged-by-tail', cond)
            if variant and any('len=3' in x for x in rw.log):
                return          # decode_length is defined for definite lengths only
            # the length probe on the full message
            try:
                pl = cj.spec.decode_length(msg)
            except Exception as e:
                ctx.violation('decode_length-raises', repr(e)[:100])
                return
            if pl is None:
                ctx.violation('decode_length-unknown-on-complete-message', '')
                return
            ctx.prove('probe-equals-message-length', pl == len(enc))
    return harness


def replay(v):
    job = v['job']
    inp = v['witness']['inputs']
    if job['kind'] == 'header':
        spec = asn1tools.compile_string('T DEFINITIONS ::= BEGIN A ::= INTEGER END', job['codec'])
        data = bytes.fromhex(inp['data'])
        eng = Engine()
        Engine.cur = eng
        try:
            mh = model_header(None, list(data))
        finally:
            Engine.cur = None
        try:
            got = spec.decode_length(data)
        except Exception as e:
            return True, 'decode_length(%s) raised %r' % (data.hex(), e)
        if mh == 'outside':
            return False, 'outside bound'
        if mh is None:
            return (got is not None), 'decode_length(%s) = %r before the header is complete' % (data.hex(), got)
        want = mh[0] + mh[1]
        return (got != want), 'decode_length(%s) = %r, X.690 header says %d+%d' % (data.hex(), got, mh[0], mh[1])
    tpl = corpus.BY_ID[job['template']]
    spec = asn1tools.compile_string(tpl['text'], job['codec'])
    value = unjson(inp['value'])
    tail = bytes.fromhex(inp['tail'])
    enc = bytes(spec.encode(tpl['type'], value))
    if inp.get('message'):
        enc = bytes.fromhex(inp['message'])
    try:
        dec, length = spec.decode_with_length(tpl['type'], enc + tail)
        alone = spec.decode(tpl['type'], enc)
        pl = spec.decode_length(enc + tail)
    except Exception as e:
        return True, 'message %s tail %s: %r' % (enc.hex(), tail.hex(), e)
    bad = (length != len(enc)) or (repr(dec) != repr(alone)) or (pl != len(enc))
    return bad, 'message %s tail %s: decode_with_length -> (%r, %r), alone %r, decode_length %r' % (
        enc.hex(), tail.hex(), dec, length, alone, pl)


def main(argv=None):
    a = runner.std_args(argv)
    if a.replay:
        return runner.cli_replay(PROP, 'checks.C15', replay, a.replay)
    jobs = jobs_for(a.tier)
    if a.only:
        jobs = [j for j in jobs if a.only in j['id']]
    return runner.run_check(
        PROP, 'checks.C15', jobs, a.tier, a.seed, replay=replay, nproc=a.nproc,
        functions=['asn1tools.compiler.Specification.decode_length', 'asn1tools.codecs.ber.decode_full_length',
                   'ber.skip_tag', 'ber.decode_length', 'ber.skip_tag_length_contents',
                   'Specification.decode_with_length', 'ber/der CompiledType.decode_with_length'] +
        C.functions_of(C.ber, C.der),
        bounds=dict(header='every prefix of 0..%d fully symbolic octets; tag numbers < 2^28; <= 4 length octets '
                           '(content lengths < 2^32, never materialised)' % max(j.get('k', 0) for j in jobs),
                    tail='0..%d symbolic trailing octets after the encoding of a symbolic value'
                         % max(j.get('ntail', 0) for j in jobs)),
        assumptions=['header jobs: first length octet is not 0x80 (indefinite) / 0xFF (reserved)'],
        stubs=['builtin shims as in C01'],
        outside=['tag numbers >= 2^28, more than 4 length octets'])


if __name__ == '__main__':
    sys.exit(main())
