"""C06 -- OER encodings are byte-exact X.696 (differential vs models/x696)."""
import sys
import os
sys.path.insert(0, os.path.dirname(os.path.dirname(os.path.abspath(__file__))))
import json
import z3

from lib import codec as C
from lib.codec import asn1tools
from lib import runner
from lib.common import Compiled, bounds_for
from lib.symvalue import Equiv, Mismatch, concretize, jsonable, unjson, Bounds
from models import x696
import corpus
from pyfront import shimmed, unshimmed, SymBytes, to_z3bool
from symcore import HarnessError, Engine, Inconclusive

PROP = 'C06'


def jobs_for(tier):
    jobs = []
    if tier == 'quick':
        tpls = corpus.select(feats={'basic', 'ext', 'int', 'enum', 'str', 'tag', 'set', 'bits', 'octets', 'of'},
                             exclude={'manyadd', 'real', 'heavy'})
        tpls = [t for t in tpls if t['id'] not in ('combo-seqof-seq', 'combo-ext-nest')]
    else:
        tpls = [t for t in corpus.TEMPLATES if not (t['feats'] & {'real'})] + corpus.generated(exclude={'real'})
    if tier == 'quick':
        tpls = tpls + corpus.generated(quick=True, exclude={'real'})
    for t in tpls:
        jobs.append(dict(id='%s/oer' % t['id'], template=t['id'], codec='oer', tier=tier, numeric_enums=False))
    jobs.append(dict(id='kernel/oer-int-range', kernel='oer-int-range', tier=tier, codec='oer', numeric_enums=False, W=256))
    return jobs


def beq(a, b):
    return to_z3bool(SymBytes(a) == b)


def make_kernel_harness(job):
    from lib import kernels_int

    def harness(ctx):
        with shimmed(C.CODEC_MODS):
            ctx.describe = lambda m: {'state': {n: m.eval(v, model_completion=True).as_signed_long()
                                                for n, v in ctx.eng.vars.items()}}
            try:
                out, ref, dec, v = kernels_int.oer_int_range(ctx, C.oer)
            except Inconclusive:
                raise
            except Exception as e:
                ctx.violation('kernel-raises', '%s: %s' % (type(e).__name__, str(e)[:100]))
                return
            if len(out) != len(ref):
                ctx.violation('kernel-length-differs-from-X.696', 'library %d octets, X.696 10.2-10.4 %d' % (len(out), len(ref)))
                return
            if not ctx.prove('kernel-integer-equals-X.696', SymBytes(out) == ref):
                return
            if ctx.prove('kernel-decode(model-octets)-is-the-value', dec == v):
                ctx.note('kernel-proved')
    return harness


def replay_kernel(v):
    """INTEGER (lo..hi) of the witness through the public API against the model"""
    s = v['witness']['vars']
    lo, hi, val = s['lo'], s['hi'], s['v']
    text = 'T DEFINITIONS AUTOMATIC TAGS ::= BEGIN A ::= INTEGER (%d..%d) END' % (lo, hi)
    spec = asn1tools.compile_string(text, 'oer')
    want = x696.encode(asn1tools.parse_string(text), 'T', 'A', val).concrete()
    try:
        got = bytes(spec.encode('A', val))
    except Exception as e:
        return True, 'INTEGER (%d..%d) value %d: encode raised %s: %s' % (lo, hi, val, type(e).__name__, str(e)[:80])
    if got != want:
        return True, 'INTEGER (%d..%d) value %d: library %s, X.696 %s' % (lo, hi, val, got.hex(), want.hex())
    try:
        back = spec.decode('A', want)
    except Exception as e:
        return True, 'INTEGER (%d..%d): decode(%s) raised %s' % (lo, hi, want.hex(), type(e).__name__)
    if back != val:
        return True, 'INTEGER (%d..%d): %s decodes to %d, not %d' % (lo, hi, want.hex(), back, val)
    return False, 'INTEGER (%d..%d) value %d agrees with X.696 (%s)' % (lo, hi, val, got.hex())


def make_harness(job):
    if job.get('kernel'):
        return make_kernel_harness(job)
    cj = Compiled(job, bounds_for(job['tier'], corpus.BY_ID[job['template']],
                                  **({'n_len': 2, 'int_abs': 1 << 33} if job['tier'] == 'quick' else {'int_abs': 1 << 65})))
    model = x696.Model(cj.parsed, cj.numeric_enums)
    flat = x696.Model(cj.parsed, cj.numeric_enums)
    flat.flatten_groups = True
    eq = Equiv(cj.gen, 0)

    def run_model(mdl, v):
        buf = x696.BitBuf() if hasattr(x696, 'BitBuf') else None
        from lib.bits import BitBuf
        buf = BitBuf()
        mdl.encode(buf, cj.td, cj.module, v)
        return buf.symbytes()

    def harness(ctx):
        cj.cands.attach(ctx)
        with shimmed(C.CODEC_MODS):
            v = cj.value(ctx)
            ctx.describe = lambda m: {'value': jsonable(concretize(v, m))}
            if not cj.accepted(v):
                ctx.note('outside-domain')
                return
            try:
                enc = cj.ct.encode(v)
            except Exception as e:
                ctx.note('encode-raises(C01 territory)')
                return
            m = ctx.eng.get_model()
            cv = concretize(v, m)
            want_c = enc.concrete(m) if isinstance(enc, SymBytes) else bytes(enc)
            with unshimmed():
                got_c = bytes(cj.ct.encode(cv))
            if got_c != want_c:
                raise HarnessError('xval mismatch %r: symbolic %s concrete %s' % (cv, want_c.hex(), got_c.hex()))
            ctx.res.xval += 1
            try:
                ref = run_model(model, v)
            except x696.ModelError as e:
                ctx.note('model: not a value of the type (%s)' % str(e)[:40])
                return
            except NotImplementedError as e:
                raise Inconclusive('x696 model: %s' % e)
            ctx.sample({'job': job['id'], 'value': jsonable(cv), 'oer': got_c.hex()})
            if len(ref) != len(enc) or ctx.eng.check_model(z3.Not(beq(enc, ref))) is not None:
                # classification of the known "groups flattened" deviation
                try:
                    ref2 = run_model(flat, v)
                    if len(ref2) == len(enc) and ctx.eng.check_model(z3.Not(beq(enc, ref2))) is None:
                        ctx.violation('addition-groups-flattened', 'one presence bit and one open type per group '
                                      'component instead of one per [[ ]] group (X.696 16.4/16.5)')
                        return
                except Exception:
                    pass
                if len(ref) != len(enc):
                    m2 = ctx.eng.get_model()
                    ctx.violation('length-differs-from-X.696', 'library %d octets (%s), model %d (%s)' % (
                        len(enc), SymBytes(enc).concrete(m2).hex(), len(ref), ref.concrete(m2).hex()))
                    return
            if not ctx.prove('oer-equals-X.696-model', SymBytes(enc) == ref):
                return
            # the decoder accepts exactly the model's octets
            try:
                dec = cj.ct.decode(ref)
            except Exception as e:
                ctx.violation('decoder-rejects-model-octets', '%s: %s' % (type(e).__name__, str(e)[:80]))
                return
            try:
                cond = eq.equiv(v, dec, cj.td, cj.module)
            except Mismatch as e:
                ctx.violation('decoder-misreads-model-octets', str(e)[:120])
                return
            ctx.prove('decode(model-octets)-is-the-value', cond)
    return harness


def replay(v):
    job = v['job']
    if job.get('kernel'):
        return replay_kernel(v)
    tpl = corpus.BY_ID[job['template']]
    spec = asn1tools.compile_string(tpl['text'], 'oer')
    value = unjson(v['witness']['inputs']['value'])
    got = bytes(spec.encode(tpl['type'], value))
    eng = Engine()
    Engine.cur = eng
    try:
        parsed = asn1tools.parse_string(tpl['text'])
        want = x696.encode(parsed, tpl['module'], tpl['type'], value).concrete()
        if v['label'] == 'addition-groups-flattened':
            return got != want, 'value %r: library %s, X.696 %s (groups flattened)' % (value, got.hex(), want.hex())
        if got != want:
            return True, 'value %r: library %s, X.696 %s' % (value, got.hex(), want.hex())
        dec = spec.decode(tpl['type'], want)
        return (repr(dec) != repr(spec.decode(tpl['type'], got))), 'decode(model octets) = %r' % (dec,)
    finally:
        Engine.cur = None


def main(argv=None):
    a = runner.std_args(argv)
    if a.replay:
        v = json.load(open(a.replay))
        ok, detail = replay(v)
        print(('VIOLATION property=%s replay=%s\n  ' % (PROP, a.replay) if ok else 'not reproduced: ') + detail)
        return 1 if ok else 0
    jobs = jobs_for(a.tier)
    if a.only:
        jobs = [j for j in jobs if a.only in j['id']]
    return runner.run_check(
        PROP, 'checks.C06', jobs, a.tier, a.seed, replay=replay, nproc=a.nproc,
        functions=C.functions_of(C.oer, C.ccompiler),
        bounds=dict(bounds_for(a.tier).as_dict(), templates=len(jobs), int_abs='2^33 (quick) / 2^65 (thorough): '
                    'both sides of every fixed-width threshold'),
        assumptions=['oracle: models/x696.py (written clause by clause from X.696, validated against the OER '
                     'vectors pinned in the repository tests: 3845 cases)',
                     'sender options resolved as the library does (DEFAULT root components omitted)'],
        stubs=['builtin shims as in C01'],
        outside=['REAL', 'time types', 'constraint forms the parser drops (INCLUDES, intersections, EXCEPT)'])


if __name__ == '__main__':
    sys.exit(main())
