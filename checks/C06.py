"""C06 -- OER encodings are byte-exact X.696 (differential vs models/x696)."""
import sys
import os
sys.path.insert(0, os.path.dirname(os.path.dirname(os.path.abspath(__file__))))
import json
import z3

from lib import codec as C
from lib.codec import asn1tools
from lib import runner
from lib.common import Compiled, bounds_for
from lib.symvalue import Equiv, Mismatch, concretize, jsonable, unjson, Bounds
from models import x696
import corpus
from pyfront import shimmed, unshimmed, SymBytes, to_z3bool
from symcore import HarnessError, Engine, Inconclusive

PROP = 'C06'


def jobs_for(tier):
    jobs = []
    if tier == 'quick':
        tpls = corpus.select(feats={'basic', 'ext', 'int', 'enum', 'str', 'tag', 'set', 'bits', 'octets', 'of'},
                             exclude={'manyadd', 'real', 'heavy', 'spill'})
        tpls = [t for t in tpls if t['id'] not in ('combo-seqof-seq', 'combo-ext-nest')]
    else:
        tpls = [t for t in corpus.TEMPLATES if not (t['feats'] & {'real', 'spill'})] + corpus.generated(exclude={'real'})
    if tier == 'quick':
        tpls = tpls + corpus.generated(quick=True, exclude={'real'})
    for t in tpls:
        jobs.append(dict(id='%s/oer' % t['id'], template=t['id'], codec='oer', tier=corpus.job_tier(t, tier), numeric_enums=False))
    jobs.append(dict(id='kernel/oer-int-range', kernel='oer-int-range', tier=tier, codec='oer', numeric_enums=False, W=256))
    for k in ('set-symbolic-tags', 'choice-symbolic-tags'):
        jobs.append(dict(id='kernel/' + k, kernel=k, tier=tier, codec='oer', numeric_enums=False, W=256))
    return jobs


def beq(a, b):
    return to_z3bool(SymBytes(a) == b)


TAG_TEXT = {
    'set-symbolic-tags': ('T DEFINITIONS IMPLICIT TAGS ::= BEGIN\nA ::= SET { a [1] INTEGER (0..7), b [2] BOOLEAN, '
                          'c [3] NULL }\nEND\n'),
    'choice-symbolic-tags': ('T DEFINITIONS IMPLICIT TAGS ::= BEGIN\nA ::= CHOICE { a [1] INTEGER (0..7), b [2] BOOLEAN, '
                             'c [3] NULL }\nEND\n'),
}
TAG_CLASSES = ['CONTEXT', 'APPLICATION', 'PRIVATE']


def make_tag_kernel(job):
    """SET / CHOICE with SYMBOLIC tag numbers and classes: the real OER compiler runs on solver
    variables (canonical order of SET components, tag octets of CHOICE alternatives incl. the
    62/63 and base-128 boundaries)"""
    import copy
    from lib.bits import BitBuf
    base = asn1tools.parse_string(TAG_TEXT[job['kernel']])
    top = (1 << 21) if job['tier'] == 'thorough' else (1 << 15)
    is_set = job['kernel'].startswith('set')

    def harness(ctx):
        with shimmed(C.CODEC_MODS):
            parsed = copy.deepcopy(base)
            members = parsed['T']['types']['A']['members']
            tags = []
            for i, m in enumerate(members):
                cls = TAG_CLASSES[ctx.choose('class%d' % i, 2 if i < 2 else 3)]
                num = ctx.int('tag%d' % i, 0, top)
                m['tag'] = {'number': num, 'class': cls}
                tags.append((cls, num))
            for i in range(len(tags)):
                for j in range(i):
                    if tags[i][0] == tags[j][0]:
                        ctx.assume(tags[i][1] != tags[j][1])
            if is_set:
                v = {'a': ctx.int('a', 0, 7), 'b': ctx.flag('b'), 'c': None}
            else:
                k = ctx.choose('alt', 3)
                v = [('a', ctx.int('a', 0, 7)), ('b', True), ('c', None)][k]
            ctx.describe = lambda m: {'tags': [(c, (m.eval(n.e, model_completion=True).as_signed_long()
                                                    if hasattr(n, 'e') else n)) for c, n in tags],
                                      'value': jsonable(concretize(v, m))}
            try:
                spec = asn1tools.compile_dict(parsed, 'oer')
                enc = spec.types['A'].encode(v)
            except Inconclusive:
                raise
            except Exception as e:
                ctx.violation('kernel-raises', '%s: %s' % (type(e).__name__, str(e)[:100]))
                return
            buf = BitBuf()
            x696.Model(parsed, False).encode(buf, {'type': 'A'}, 'T', v)
            ref = buf.symbytes()
            if len(ref) != len(enc):
                ctx.violation('kernel-length-differs-from-X.696', 'library %d octets, model %d' % (len(enc), len(ref)))
                return
            if not ctx.prove('kernel-tags-equal-X.696', SymBytes(enc) == ref):
                return
            try:
                dec = spec.types['A'].decode(ref)
            except Inconclusive:
                raise
            except Exception as e:
                ctx.violation('kernel-decoder-rejects-model-octets', '%s: %s' % (type(e).__name__, str(e)[:100]))
                return
            ctx.note('kernel-proved')
    return harness


def replay_tag_kernel(v):
    inp = v['witness']['inputs']
    kind = 'SET' if v['job']['kernel'].startswith('set') else 'CHOICE'
    body = ', '.join('%s [%s%d] %s' % (n, '' if c == 'CONTEXT' else c + ' ', num, t) for (c, num), (n, t) in zip(
        inp['tags'], [('a', 'INTEGER (0..7)'), ('b', 'BOOLEAN'), ('c', 'NULL')]))
    text = 'T DEFINITIONS IMPLICIT TAGS ::= BEGIN\nA ::= %s { %s }\nEND\n' % (kind, body)
    value = unjson(inp['value'])
    spec = asn1tools.compile_string(text, 'oer')
    want = x696.encode(asn1tools.parse_string(text), 'T', 'A', value).concrete()
    try:
        got = bytes(spec.encode('A', value))
    except Exception as e:
        return True, '%s { %s } value %r: encode raised %s: %s' % (kind, body, value, type(e).__name__, str(e)[:80])
    if got != want:
        return True, '%s { %s } value %r: library %s, X.696 %s' % (kind, body, value, got.hex(), want.hex())
    try:
        back = spec.decode('A', want)
    except Exception as e:
        return True, '%s { %s }: decode(%s) raised %s: %s' % (kind, body, want.hex(), type(e).__name__, str(e)[:80])
    return False, 'agrees with the model: %s' % got.hex()


def make_kernel_harness(job):
    if job['kernel'].endswith('symbolic-tags'):
        return make_tag_kernel(job)
    from lib import kernels_int

    def harness(ctx):
        with shimmed(C.CODEC_MODS):
            ctx.describe = lambda m: {'state': {n: m.eval(v, model_completion=True).as_signed_long()
                                                for n, v in ctx.eng.vars.items()}}
            try:
                out, ref, dec, v = kernels_int.oer_int_range(ctx, C.oer)
            except Inconclusive:
                raise
            except Exception as e:
                ctx.violation('kernel-raises', '%s: %s' % (type(e).__name__, str(e)[:100]))
                return
            if len(out) != len(ref):
                ctx.violation('kernel-length-differs-from-X.696', 'library %d octets, X.696 10.2-10.4 %d' % (len(out), len(ref)))
                return
            if not ctx.prove('kernel-integer-equals-X.696', SymBytes(out) == ref):
                return
            if ctx.prove('kernel-decode(model-octets)-is-the-value', dec == v):
                ctx.note('kernel-proved')
    return harness


def replay_kernel(v):
    """INTEGER (lo..hi) of the witness through the public API against the model"""
    if v['job']['kernel'].endswith('symbolic-tags'):
        return replay_tag_kernel(v)
    s = v['witness']['vars']
    lo, hi, val = s['lo'], s['hi'], s['v']
    text = 'T DEFINITIONS AUTOMATIC TAGS ::= BEGIN A ::= INTEGER (%d..%d) END' % (lo, hi)
    spec = asn1tools.compile_string(text, 'oer')
    want = x696.encode(asn1tools.parse_string(text), 'T', 'A', val).concrete()
    try:
        got = bytes(spec.encode('A', val))
    except Exception as e:
        return True, 'INTEGER (%d..%d) value %d: encode raised %s: %s' % (lo, hi, val, type(e).__name__, str(e)[:80])
    if got != want:
        return True, 'INTEGER (%d..%d) value %d: library %s, X.696 %s' % (lo, hi, val, got.hex(), want.hex())
    try:
        back = spec.decode('A', want)
    except Exception as e:
        return True, 'INTEGER (%d..%d): decode(%s) raised %s' % (lo, hi, want.hex(), type(e).__name__)
    if back != val:
        return True, 'INTEGER (%d..%d): %s decodes to %d, not %d' % (lo, hi, want.hex(), back, val)
    return False, 'INTEGER (%d..%d) value %d agrees with X.696 (%s)' % (lo, hi, val, got.hex())


def make_harness(job):
    if job.get('kernel'):
        return make_kernel_harness(job)
    cj = Compiled(job, bounds_for(job['tier'], corpus.BY_ID[job['template']],
                                  **({'n_len': 2, 'int_abs': 1 << 33} if job['tier'] == 'quick' else {'int_abs': 1 << 65})))
    model = x696.Model(cj.parsed, cj.numeric_enums)
    flat = x696.Model(cj.parsed, cj.numeric_enums)
    flat.flatten_groups = True
    eq = Equiv(cj.gen, 0)

    def run_model(mdl, v):
        buf = x696.BitBuf() if hasattr(x696, 'BitBuf') else None
        from lib.bits import BitBuf
        buf = BitBuf()
        mdl.encode(buf, cj.td, cj.module, v)
        return buf.symbytes()

    def harness(ctx):
        cj.cands.attach(ctx)
        with shimmed(C.CODEC_MODS):
            v = cj.value(ctx)
            ctx.describe = lambda m: {'value': jsonable(concretize(v, m))}
            if not cj.accepted(v):
                ctx.note('outside-domain')
                return
            try:
                enc = cj.ct.encode(v)
            except Exception as e:
                ctx.note('encode-raises(C01 territory)')
                return
            m = ctx.eng.get_model()
            cv = concretize(v, m)
            want_c = enc.concrete(m) if isinstance(enc, SymBytes) else bytes(enc)
            with unshimmed():
                got_c = bytes(cj.ct.encode(cv))
            if got_c != want_c:
                raise HarnessError('xval mismatch %r: symbolic %s concrete %s' % (cv, want_c.hex(), got_c.hex()))
            ctx.res.xval += 1
            try:
                ref = run_model(model, v)
            except x696.ModelError as e:
                ctx.note('model: not a value of the type (%s)' % str(e)[:40])
                return
            except NotImplementedError as e:
                raise Inconclusive('x696 model: %s' % e)
            ctx.sample({'job': job['id'], 'value': jsonable(cv), 'oer': got_c.hex()})
            if len(ref) != len(enc) or ctx.eng.check_model(z3.Not(beq(enc, ref))) is not None:
                # classification of the known "groups flattened" deviation
                try:
                    ref2 = run_model(flat, v)
                    if len(ref2) == len(enc) and ctx.eng.check_model(z3.Not(beq(enc, ref2))) is None:
                        ctx.violation('addition-groups-flattened', 'one presence bit and one open type per group '
                                      'component instead of one per [[ ]] group (X.696 16.4/16.5)')
                        return
                except Exception:
                    pass
                if len(ref) != len(enc):
                    m2 = ctx.eng.get_model()
                    ctx.violation('length-differs-from-X.696', 'library %d octets (%s), model %d (%s)' % (
                        len(enc), SymBytes(enc).concrete(m2).hex(), len(ref), ref.concrete(m2).hex()))
                    return
            if not ctx.prove('oer-equals-X.696-model', SymBytes(enc) == ref):
                return
            # the decoder accepts exactly the model's octets
            try:
                dec = cj.ct.decode(ref)
            except Exception as e:
                ctx.violation('decoder-rejects-model-octets', '%s: %s' % (type(e).__name__, str(e)[:80]))
                return
            try:
                cond = eq.equiv(v, dec, cj.td, cj.module)
            except Mismatch as e:
                ctx.violation('decoder-misreads-model-octets', str(e)[:120])
                return
            ctx.prove('decode(model-octets)-is-the-value', cond)
    return harness


def replay(v):
    job = v['job']
    if job.get('kernel'):
        return replay_kernel(v)
    tpl = corpus.BY_ID[job['template']]
    spec = asn1tools.compile_string(tpl['text'], 'oer')
    value = unjson(v['witness']['inputs']['value'])
    got = bytes(spec.encode(tpl['type'], value))
    eng = Engine()
    Engine.cur = eng
    try:
        parsed = asn1tools.parse_string(tpl['text'])
        want = x696.encode(parsed, tpl['module'], tpl['type'], value).concrete()
        if v['label'] == 'addition-groups-flattened':
            return got != want, 'value %r: library %s, X.696 %s (groups flattened)' % (value, got.hex(), want.hex())
        if got != want:
            return True, 'value %r: library %s, X.696 %s' % (value, got.hex(), want.hex())
        dec = spec.decode(tpl['type'], want)
        return (repr(dec) != repr(spec.decode(tpl['type'], got))), 'decode(model octets) = %r' % (dec,)
    finally:
        Engine.cur = None


def main(argv=None):
    a = runner.std_args(argv)
    if a.replay:
        return runner.cli_replay(PROP, 'checks.C06', replay, a.replay)
    jobs = jobs_for(a.tier)
    if a.only:
        jobs = [j for j in jobs if a.only in j['id']]
    return runner.run_check(
        PROP, 'checks.C06', jobs, a.tier, a.seed, replay=replay, nproc=a.nproc,
        functions=C.functions_of(C.oer, C.ccompiler),
        bounds=dict(bounds_for(a.tier).as_dict(), templates=len(jobs), int_abs='2^33 (quick) / 2^65 (thorough): '
                    'both sides of every fixed-width threshold'),
        assumptions=['oracle: models/x696.py (written clause by clause from X.696, validated against the OER '
                     'vectors pinned in the repository tests: 3845 cases)',
                     'sender options resolved as the library does (DEFAULT root components omitted)'],
        stubs=['builtin shims as in C01'],
        outside=['REAL', 'time types', 'constraint forms the parser drops (INCLUDES, intersections, EXCEPT)'])


if __name__ == '__main__':
    sys.exit(main())
