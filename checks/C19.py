"""C19 -- encodings do not depend on how the specification text is organised."""
import sys
import os
sys.path.insert(0, os.path.dirname(os.path.dirname(os.path.abspath(__file__))))
import json
import re

from lib import codec as C
from lib.codec import asn1tools
from lib import runner
from lib.symvalue import Gen, Bounds, concretize, jsonable, unjson
from lib.equiv import compare_codecs
import pyfront
from pyfront import shimmed

PROP = 'C19'

# base specifications: list of (name, right-hand side); the type under test is A
BASES = {
    'defaults-by-ref': (
        'AUTOMATIC TAGS',
        [('A', 'SEQUENCE { b B DEFAULT TRUE, i I DEFAULT 5, e E DEFAULT two, z INTEGER (0..7) }'),
         ('B', 'BOOLEAN'), ('I', 'INTEGER (0..20)'), ('E', 'ENUMERATED { one, two }')]),
    'defaults-by-ref-2': (
        'AUTOMATIC TAGS',
        [('A', 'SEQUENCE { o O DEFAULT \'0102\'H, bs BS DEFAULT { one }, f B DEFAULT FALSE }'),
         ('B', 'BOOLEAN'), ('O', 'OCTET STRING (SIZE(0..2))'), ('BS', 'BIT STRING { one(1), three(3) }')]),
    'optional-by-ref': (
        'AUTOMATIC TAGS',
        [('A', 'SEQUENCE { p P OPTIONAL, q SEQUENCE (SIZE(0..2)) OF P, c C, ..., x P }'),
         ('P', 'SEQUENCE { v INTEGER (0..300), w BOOLEAN OPTIONAL }'),
         ('C', 'CHOICE { m INTEGER (0..7), n P }')]),
    'tags-explicit': (
        'EXPLICIT TAGS',
        [('A', 'SEQUENCE { a [0] X, b [1] Y OPTIONAL, c Z }'),
         ('X', 'INTEGER (0..7)'), ('Y', 'CHOICE { u BOOLEAN, v NULL }'), ('Z', '[APPLICATION 3] OCTET STRING (SIZE(0..2))')]),
    'tags-implicit': (
        'IMPLICIT TAGS',
        [('A', 'SET { a [0] X, b [1] Y OPTIONAL, c [2] Z }'),
         ('X', 'INTEGER (0..7)'), ('Y', 'CHOICE { u BOOLEAN, v NULL }'), ('Z', 'SEQUENCE { k BOOLEAN }')]),
    'constraints-by-ref': (
        'AUTOMATIC TAGS',
        [('A', 'SEQUENCE { n N (2..5), s S (SIZE(1..2)), l L }'),
         ('N', 'INTEGER (0..10)'), ('S', 'IA5String (FROM("a".."d"))'), ('L', 'SEQUENCE (SIZE(0..2)) OF N')]),
    'alias-choice': (
        'IMPLICIT TAGS',
        [('A', 'SEQUENCE { a [0] Alias, b [1] INTEGER (0..7), c [2] Alias2 OPTIONAL }'), ('Alias', 'Inner'),
         ('Alias2', 'Alias'), ('Inner', 'CHOICE { u BOOLEAN, v INTEGER (0..7) }')]),
    'shared-size': (
        '',
        [('A', 'SEQUENCE { x Fixed, y Free, z Ranged }'), ('Fixed', 'SEQUENCE { data T (SIZE (2)), n N (1..2) }'),
         ('Free', 'SEQUENCE { data T, n N }'), ('Ranged', 'SEQUENCE { data T (SIZE (0..1)), n N (0..1) }'),
         ('T', 'OCTET STRING'), ('N', 'INTEGER')]),
    # DEFAULT on a member whose type is reached through a chain of references (two hops): in the
    # split-import-minimal arrangement the second hop is private to the exporting module
    'defaults-by-chain': (
        'AUTOMATIC TAGS',
        [('A', 'SEQUENCE { b B1 DEFAULT TRUE, o O1 DEFAULT \'0102\'H, e E1 DEFAULT two, z INTEGER (0..7) }'),
         ('B1', 'B2'), ('B2', 'BOOLEAN'), ('O1', 'O2'), ('O2', 'OCTET STRING (SIZE(0..2))'),
         ('E1', 'E2'), ('E2', 'ENUMERATED { one, two }')]),
    'chain': (
        'AUTOMATIC TAGS',
        [('A', 'SEQUENCE { r R1, k INTEGER (0..3) }'), ('R1', 'R2'), ('R2', 'R3 (1..6)'), ('R3', 'INTEGER (0..7, ...)')]),
}


def render(tags, assignments, module='T', imports=None, extra=''):
    imp = ''
    if imports:
        imp = 'IMPORTS ' + ' '.join('%s FROM %s' % (', '.join(names), m) for m, names in imports.items()) + ';\n'
    body = '\n'.join('%s ::= %s' % (n, r) for n, r in assignments)
    return '%s DEFINITIONS %s ::= BEGIN\n%s%s\nEND\n%s' % (module, tags, imp, body, extra)


def arrangements(base):
    tags, asg = BASES[base]
    names = [n for n, _r in asg]
    out = {}
    out['reversed'] = render(tags, list(reversed(asg)))
    out['rotated'] = render(tags, asg[1:] + asg[:1])
    # move every non-A definition that does not itself reference others... simply: all but A into module U
    moved = [(n, r) for n, r in asg if n != 'A']
    out['split-import'] = render(tags, [a for a in asg if a[0] == 'A'], imports={'U': [n for n, _ in moved]},
                                 extra=render(tags, moved, module='U'))
    out['split-import-modules-reversed'] = render(tags, moved, module='U') + \
        render(tags, [a for a in asg if a[0] == 'A'], imports={'U': [n for n, _ in moved]})
    # import only what A itself mentions (the other definitions stay private to module U)
    a_rhs = dict(asg)['A']
    direct = [n for n, _ in moved if re.search(r'(?<![\w-])%s(?![\w-])' % re.escape(n), a_rhs)]
    if direct and len(direct) < len(moved):
        out['split-import-minimal'] = render(tags, [a for a in asg if a[0] == 'A'], imports={'U': direct},
                                             extra=render(tags, moved, module='U'))
    # inline each referenced type (one at a time, and all at once)
    rhs = dict(asg)

    def inline(text, which):
        for n in which:
            text = re.sub(r'(?<![\w-])%s(?![\w-])' % re.escape(n), lambda m: rhs_inlined[n], text)
        return text
    # fully resolved right-hand sides (inner references first)
    rhs_inlined = {}
    for n, r in reversed(asg):
        rhs_inlined[n] = r
    changed = True
    while changed:
        changed = False
        for n in names:
            new = rhs_inlined[n]
            for k in names:
                if k != n:
                    new2 = re.sub(r'(?<![\w-])%s(?![\w-])' % re.escape(k), lambda m: rhs_inlined[k], new)
                    if new2 != new:
                        new, changed = new2, True
            rhs_inlined[n] = new
    for n in names:
        if n == 'A':
            continue
        if base in ('constraints-by-ref', 'chain') :
            continue       # a constrained reference cannot be replaced textually
        out['inline-' + n] = render(tags, [(x, inline(r, [n]) if x == 'A' else r) for x, r in asg])
    if base not in ('constraints-by-ref', 'chain'):
        out['inline-all'] = render(tags, [('A', rhs_inlined['A'])])
    return out


def jobs_for(tier):
    jobs = []
    codecs = ['ber', 'uper'] if tier == 'quick' else ['ber', 'der', 'per', 'uper', 'oer']
    for base in BASES:
        for arr in arrangements(base):
            for codec in codecs:
                jobs.append(dict(id='%s/%s/%s' % (base, arr, codec), base=base, arr=arr, codec=codec, tier=tier,
                                 numeric_enums=False))
    return jobs


def make_harness(job):
    tags, asg = BASES[job['base']]
    text0 = render(tags, asg)
    text1 = arrangements(job['base'])[job['arr']]
    s0 = asn1tools.compile_string(text0, job['codec'])
    err = None
    try:
        s1 = asn1tools.compile_string(text1, job['codec'])
    except Exception as e:
        s1, err = None, '%s: %s' % (type(e).__name__, str(e)[:120])
    parsed = asn1tools.parse_string(text0)
    b = Bounds(int_abs=1 << 9, n_len=1, depth=4, str_len=1) if job['tier'] == 'quick' else \
        Bounds(int_abs=1 << 17, n_len=2, depth=5, str_len=2)
    gen = Gen(parsed, b)
    td = parsed['T']['types']['A']
    pyfront.patch_lookup_dicts(s0)
    if s1 is not None:
        pyfront.patch_lookup_dicts(s1)
    cands = C.Candidates(s0, s1)

    def harness(ctx):
        cands.attach(ctx)
        if err:
            ctx.describe = lambda m: {'value': None}
            ctx.violation('arrangement-does-not-compile', err)
            return
        with shimmed(C.CODEC_MODS):
            v = gen.value(ctx, td, 'T')
            ctx.describe = lambda m: {'value': jsonable(concretize(v, m))}
            ct0, ct1 = s0.types['A'], s1.types['A']
            try:
                ct0.check_types(v)
                ct0.check_constraints(v)
            except C.LIB_ERRORS:
                # the other arrangement must reject it too
                try:
                    ct1.check_types(v)
                    ct1.check_constraints(v)
                except C.LIB_ERRORS:
                    ctx.note('both-reject')
                    return
                ctx.violation('only-one-arrangement-rejects-the-value', '')
                return
            try:
                ct1.check_types(v)
                ct1.check_constraints(v)
            except C.LIB_ERRORS as e:
                ctx.violation('only-one-arrangement-rejects-the-value', str(e)[:100])
                return
            compare_codecs(ctx, ct0, ct1, v, 'arrangements')
    return harness


def replay(v):
    job = v['job']
    tags, asg = BASES[job['base']]
    text0 = render(tags, asg)
    text1 = arrangements(job['base'])[job['arr']]
    s0 = asn1tools.compile_string(text0, job['codec'])
    try:
        s1 = asn1tools.compile_string(text1, job['codec'])
    except Exception as e:
        return True, 'arrangement %s does not compile: %r' % (job['arr'], e)
    value = unjson(v['witness']['inputs']['value'])

    def run(spec):
        try:
            enc = spec.encode('A', value, check_constraints=True)
        except Exception as e:
            return ('encode-raises', type(e).__name__)
        try:
            return (enc.hex(), repr(spec.decode('A', enc)))
        except Exception as e:
            return (enc.hex(), 'decode-raises ' + type(e).__name__)
    a, b = run(s0), run(s1)
    return (a != b), 'value %r: original text %r, arrangement %s %r' % (value, a, job['arr'], b)


def main(argv=None):
    a = runner.std_args(argv)
    if a.replay:
        return runner.cli_replay(PROP, 'checks.C19', replay, a.replay)
    jobs = jobs_for(a.tier)
    if a.only:
        jobs = [j for j in jobs if a.only in j['id']]
    return runner.run_check(
        PROP, 'checks.C19', jobs, a.tier, a.seed, replay=replay, nproc=a.nproc,
        functions=['asn1tools.parser.*(concrete)', 'codecs.compiler.Compiler.*'] + C.functions_of(*C.CODEC_MODS),
        bounds=dict(bases=list(BASES), arrangements='reverse / rotate assignments, split into two modules with IMPORTS '
                    '(both file orders), inline each referenced type, inline all',
                    values='lists <= 1/2, |int| <= 2^9/2^17'),
        assumptions=['arrangements are generated mechanically from 6 base modules; both texts are compiled '
                     'concretely and the solver decides equivalence of the two codecs over all symbolic values'],
        stubs=['builtin shims as in C01'],
        outside=['text codecs', 'extracting inline sub-types into new named types beyond the inverse of inlining'])


if __name__ == '__main__':
    sys.exit(main())
