"""C02 kernel jobs: XER REAL on symbolic decimal text (see checks/C02.py and pyfront/dec.py)."""
import z3

from lib import codec as C
from lib.codec import asn1tools
import pyfront
from pyfront import shimmed, unshimmed, dec as D
from symcore import Inconclusive, HarnessError
from models import textenv

SPEC_TEXT = 'T DEFINITIONS AUTOMATIC TAGS ::= BEGIN\nA ::= REAL\nEND\n'
MODS = C.CODEC_MODS + C.TEXT_MODS


def shapes(tier):
    if tier == 'quick':
        fixed = [(ni, nf) for ni in range(1, 5) for nf in range(1, 5)] + [(1, 6), (16, 1), (1, 17), (9, 8)]
        exp = [(nf, ne, neg) for nf in (0, 1, 3, 16) for ne in (2, 3) for neg in (False, True)]
    else:
        fixed = [(ni, nf) for ni in range(1, 17) for nf in range(1, 19 - ni)] + [(1, nf) for nf in range(18, 22)]
        exp = [(nf, ne, neg) for nf in range(0, 17) for ne in (2, 3) for neg in (False, True)]
    return fixed, exp


def jobs_for(tier):
    fixed, exp = shapes(tier)
    jobs = []
    for layout, n in (('fixed', len(fixed)), ('exp', len(exp))):
        for part in range(4 if tier == 'thorough' else 1):
            jobs.append(dict(id='kernel/xer-real/%s/%d' % (layout, part), kind='xer-real', layout=layout, part=part,
                             parts=4 if tier == 'thorough' else 1, tier=tier, W=384, template=None, codec='xer',
                             numeric_enums=False, indent=None))
    return jobs


class Installed:
    def __init__(self, mod, **names):
        self.mod, self.names = mod, names

    def __enter__(self):
        self.old = {k: self.mod.__dict__.get(k, self) for k in self.names}
        self.mod.__dict__.update(self.names)

    def __exit__(self, *a):
        for k, v in self.old.items():
            if v is self:
                self.mod.__dict__.pop(k, None)
            else:
                self.mod.__dict__[k] = v


def make_harness(job):
    from checks.C02 import Stubbed, Real_
    spec = asn1tools.compile_string(SPEC_TEXT, 'xer')
    ct = spec.types['A']
    fixed, exp = shapes(job['tier'])
    table = fixed if job['layout'] == 'fixed' else exp
    table = table[job['part']::job['parts']]

    def harness(ctx):
        with shimmed(MODS), Stubbed(), Installed(C.xer, float=D.float_shim, repr=D.repr_shim):
            k = ctx.choose('shape', len(table))
            negative = ctx.flag('negative')
            if job['layout'] == 'fixed':
                ni, nf = table[k]
                v = D.make_real(ctx, 'r', 'fixed', ni, nf, negative=negative)
            else:
                nf, ne, eneg = table[k]
                v = D.make_real(ctx, 'r', 'exp', 1, nf, ne=ne, negative=negative, exp_negative=eneg)
            ctx.describe = lambda m: {'float': repr(v.concretize(m))}
            try:
                enc = ct.encode(v)
            except Inconclusive:
                raise
            except Exception as e:
                ctx.violation('encode-foreign-exception', repr(e)[:200])
                return
            try:
                back = ct.decode(enc)
            except Inconclusive:
                raise
            except Exception as e:
                ctx.violation('decode-of-own-encoding-raises', repr(e)[:200])
                return
            if not isinstance(back, (D.ParsedReal, D.SymReal)):
                ctx.violation('roundtrip-shape', 'decoded as %r' % (back,))
                return
            cond = D.same_double(v.decimal(), back.decimal())
            m = ctx.eng.get_model()
            cv = v.concretize(m)
            with unshimmed(), Real_():
                try:
                    real_enc = spec.encode('A', cv)
                    real_back = spec.decode('A', real_enc)
                except Exception as e:
                    real_enc, real_back = None, e
            ctx.res.xval += 1
            ok = ctx.prove('decimal-value-preserved', cond)
            if ok and not (isinstance(real_back, float) and repr(real_back) == repr(cv)):
                ctx.violation('real-pipeline-fails', '%r -> %r -> %r' % (cv, real_enc, real_back))
                return
            if ok:
                ctx.sample({'job': job['id'], 'value': repr(cv), 'encoded': real_enc.decode()})
                ctx.note('real-roundtrip-proved')
    return harness


def replay(v):
    spec = asn1tools.compile_string(SPEC_TEXT, 'xer')
    cv = float(v['witness']['inputs']['float'])
    try:
        enc = spec.encode('A', cv)
        back = spec.decode('A', enc)
    except Exception as e:
        return True, 'XER REAL %r: %s: %s' % (cv, type(e).__name__, str(e)[:120])
    if repr(back) != repr(cv):
        return True, 'XER REAL %r -> %r -> %r' % (cv, enc, back)
    return False, 'XER REAL %r round-trips (%r)' % (cv, enc)
