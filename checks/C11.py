"""C11 -- check_constraints accepts exactly the values the declared constraints admit."""
import sys
import os
sys.path.insert(0, os.path.dirname(os.path.dirname(os.path.abspath(__file__))))
import json
import z3

from lib import codec as C
from lib.codec import asn1tools
from lib import runner
from lib.common import Compiled, bounds_for
from lib.symvalue import ConstraintOracle, concretize, jsonable, unjson, Bounds
import corpus
from pyfront import shimmed, unshimmed, SymBytes
from symcore import HarnessError, Engine

PROP = 'C11'
IDS_QUICK = ['int-0-7', 'int-m5-300', 'int-ext', 'int-min', 'int-max', 'int-single', 'int-valref', 'int-named',
             'int-refchain', 'octets-fixed', 'octets-range', 'octets-ext', 'bits-fixed', 'bits-range',
             'bits-named-size', 'seqof-size', 'seqof-fixed', 'seqof-ext', 'ia5-size', 'ia5-from', 'ia5-from5',
             'visible', 'numeric', 'bmp', 'utf8-size', 'c11-nested', 'c11-minmax', 'c11-ref', 'c11-named',
             'c11-size-valref', 'c11-strings', 'c11-ext', 'seq-opt', 'choice-ext', 'shared-range', 'shared-size']
IDS_MORE = ['combo-uper6', 'combo-choice-seq', 'combo-ref', 'combo-ext-nest', 'combo-depth3', 'int-u32',
            'int-s64', 'int-0-255', 'int-1-256', 'int-0-65536', 'printable', 'universal', 'seq-ext-group']


def c11_bounds(tier):
    if tier == 'quick':
        return Bounds(int_abs=1 << 17, n_len=2, depth=4, str_len=2, free=True, margin=1 << 17, free_len_cap=4)
    return Bounds(int_abs=1 << 40, n_len=2, depth=5, str_len=3, free=True, margin=1 << 66, free_len_cap=5)


def jobs_for(tier):
    jobs = []
    ids = IDS_QUICK + (IDS_MORE if tier == 'thorough' else [])
    codecs = ['ber', 'uper'] if tier == 'quick' else ['ber', 'der', 'per', 'uper', 'oer']
    for i in ids:
        for codec in codecs:
            jobs.append(dict(id='%s/%s' % (i, codec), template=i, codec=codec, tier=tier, numeric_enums=False))
    return jobs


def make_harness(job):
    cj = Compiled(job, c11_bounds(job['tier']))
    oracle = ConstraintOracle(cj.gen)

    def harness(ctx):
        cj.cands.attach(ctx)
        with shimmed(C.CODEC_MODS):
            v = cj.value(ctx)
            ctx.describe = lambda m: {'value': jsonable(concretize(v, m))}
            try:
                cj.ct.check_types(v)
            except Exception:
                ctx.note('rejected-by-type-check')
                return
            expected = oracle.violates(v, cj.td, cj.module)
            raised = None
            try:
                cj.ct.check_constraints(v)
            except asn1tools.ConstraintsError as e:
                raised = e
            except Exception as e:
                ctx.violation('check_constraints-foreign-exception', '%s: %s' % (type(e).__name__, str(e)[:100]))
                return
            m = ctx.eng.get_model()
            cv = concretize(v, m)
            with unshimmed():
                try:
                    cj.ct.check_constraints(cv)
                    real = False
                except asn1tools.ConstraintsError:
                    real = True
            if real != (raised is not None):
                raise HarnessError('xval mismatch on %r: symbolic raised=%s concrete raised=%s'
                                   % (cv, raised is not None, real))
            ctx.res.xval += 1
            ctx.sample({'job': job['id'], 'value': jsonable(cv), 'ConstraintsError': real})
            if raised is not None:
                ctx.prove('rejected-only-if-a-constraint-is-violated', expected)
                ctx.note('rejected')
                return
            if not ctx.prove('violation-is-rejected', z3.Not(expected)):
                return
            ctx.note('accepted')
            # accepted values: encoding with checks returns bytes or the library's EncodeError,
            # and (BER family) a decode with constraint checking accepts the result
            try:
                enc = cj.spec.encode(cj.name, v, check_constraints=True)
            except asn1tools.ConstraintsError as e:
                ctx.violation('encode(check_constraints)-rejects-what-check_constraints-accepts', str(e)[:100])
                return
            except asn1tools.EncodeError:
                ctx.note('encoder-rejects(EncodeError)')
                return
            except Exception as e:
                ctx.note('encode-foreign-exception(C01/C12 territory)')
                return
            try:
                cj.spec.decode(cj.name, enc, check_constraints=True)
            except asn1tools.ConstraintsError as e:
                ctx.violation('decode(check_constraints)-rejects-an-admitted-value', str(e)[:100])
            except Exception:
                ctx.note('decode-raises(C01 territory)')
    return harness


def make_harness_wire(job):
    """outside values put on the wire without checks must be rejected by decode(check_constraints)"""
    raise NotImplementedError


def replay(v):
    job = v['job']
    tpl = corpus.BY_ID[job['template']]
    spec = asn1tools.compile_string(tpl['text'], job['codec'])
    parsed = asn1tools.parse_string(tpl['text'])
    from lib.symvalue import Gen
    value = unjson(v['witness']['inputs']['value'])
    eng = Engine()
    Engine.cur = eng
    try:
        gen = Gen(parsed, c11_bounds(job['tier']))
        exp = ConstraintOracle(gen).violates(value, parsed[tpl['module']]['types'][tpl['type']], tpl['module'])
        expected = z3.is_true(z3.simplify(exp))
    finally:
        Engine.cur = None
    try:
        spec.types[tpl['type']].check_constraints(value)
        raised = False
    except asn1tools.ConstraintsError:
        raised = True
    except Exception as e:
        return True, 'check_constraints(%r) raised %r' % (value, e)
    if raised != expected:
        return True, 'value %r: constraints %s, check_constraints %s' % (
            value, 'violated' if expected else 'satisfied', 'raises' if raised else 'accepts')
    if not raised:
        try:
            enc = spec.encode(tpl['type'], value, check_constraints=True)
            spec.decode(tpl['type'], enc, check_constraints=True)
        except asn1tools.ConstraintsError as e:
            return True, 'admitted value %r rejected: %s' % (value, e)
        except Exception as e:
            return False, 'other error %r' % (e,)
    return False, 'value %r handled correctly' % (value,)


def main(argv=None):
    a = runner.std_args(argv)
    if a.replay:
        return runner.cli_replay(PROP, 'checks.C11', replay, a.replay)
    jobs = jobs_for(a.tier)
    if a.only:
        jobs = [j for j in jobs if a.only in j['id']]
    return runner.run_check(
        PROP, 'checks.C11', jobs, a.tier, a.seed, replay=replay, nproc=a.nproc,
        functions=C.functions_of(C.constraints_checker, C.ccompiler) + ['Specification.encode/decode(check_constraints=True)'],
        bounds=dict(c11_bounds(a.tier).as_dict(), templates=len({j['template'] for j in jobs})),
        assumptions=['values pass check_types', 'string characters are drawn from the type\'s own alphabet',
                     'oracle: raises <=> some component is outside a non-extensible single value/range, SIZE or FROM'],
        stubs=['builtin shims as in C01'],
        outside=['union/intersection constraints, WITH COMPONENTS, REAL ranges', 'time types'])


if __name__ == '__main__':
    sys.exit(main())
