"""C05 -- PER and UPER encodings are bit-exact X.691 (differential vs models/x691)."""
import sys
import os
sys.path.insert(0, os.path.dirname(os.path.dirname(os.path.abspath(__file__))))
import json
import z3

from lib import codec as C
from lib.codec import asn1tools
from lib import runner
from lib.common import Compiled, bounds_for
from lib.symvalue import Equiv, Mismatch, concretize, jsonable, unjson, Bounds
from lib.bits import BitBuf
from models import x691
from models.test_x691 import Asn1toolsLike
import corpus
from pyfront import shimmed, unshimmed, SymBytes, to_z3bool
from symcore import HarnessError, Engine, Inconclusive

PROP = 'C05'
# deviations of the library from X.691 that are established (recorded as known findings, one per
# decision); the other decisions where the helper model and the library differ rest on a reading of
# the standard that could not be confirmed offline: they are NOT claimed (counted as notes).
CONFIRMED = {'empty-encoding', 'semi-constrained-integer', 'choice-textual-order',
             'enumerated-not-implied-extensible', 'universalstring-not-known-multiplier', 'real-minus-zero',
             'enumerated-index-not-aligned', 'normally-small-not-aligned', 'reindex-whenever-from',
             'string-alignment-by-character-count'}


def jobs_for(tier):
    jobs = []
    if tier == 'quick':
        tpls = corpus.select(feats={'basic', 'ext', 'int', 'enum', 'str', 'set', 'bits', 'octets', 'of', 'from'},
                             exclude={'manyadd', 'real', 'heavy', 'spill'})
        tpls = [t for t in tpls if t['id'] not in ('combo-seqof-seq', 'combo-ext-nest', 'seq-opt')]
        # constraints applied to a shared referenced type at the member (compile-time sharing)
        tpls += [corpus.BY_ID[i] for i in ('shared-size', 'shared-range', 'combo-default-shared')]
    else:
        tpls = [t for t in corpus.TEMPLATES if not (t['feats'] & {'real'})] + corpus.generated(exclude={'real'})
    if tier == 'quick':
        tpls = tpls + corpus.generated(quick=True, exclude={'real'})
    for t in tpls:
        for codec in ('per', 'uper'):
            jobs.append(dict(id='%s/%s' % (t['id'], codec), template=t['id'], codec=codec, tier=corpus.job_tier(t, tier),
                             numeric_enums=False))
    # the bit-level Encoder of per/uper from an arbitrary state (spilled chunks at any bit offset)
    # against a bit-string model: alignment and length arithmetic beyond what whole values reach
    for k in ('per-encoder', 'uper-encoder'):
        jobs.append(dict(id='kernel/' + k, kernel=k, tier=tier, codec=k.split('-')[0], numeric_enums=False, W=256))
    # constrained whole number for SYMBOLIC bounds: every (lo..hi) of the stated interval, any value
    for k in ('per-int-range', 'uper-int-range'):
        jobs.append(dict(id='kernel/' + k, kernel=k, tier=tier, codec=k.split('-')[0], numeric_enums=False, W=256))
    return jobs


def beq(a, b):
    return to_z3bool(SymBytes(a) == b)


def make_int_kernel(job):
    from lib import kernels_int
    mod = C.per if job['codec'] == 'per' else C.uper

    def harness(ctx):
        with shimmed(C.CODEC_MODS):
            ctx.describe = lambda m: {'state': {n: m.eval(v, model_completion=True).as_signed_long()
                                                for n, v in ctx.eng.vars.items()}}
            try:
                out, ref, dec, v = kernels_int.per_int_range(ctx, mod, job['codec'] == 'per')
            except Inconclusive:
                raise
            except Exception as e:
                ctx.violation('kernel-raises', '%s: %s' % (type(e).__name__, str(e)[:100]))
                return
            if len(out) != len(ref):
                ctx.violation('kernel-length-differs-from-X.691', 'library %d octets, X.691 11.5 %d' % (len(out), len(ref)))
                return
            if not ctx.prove('kernel-constrained-whole-number-equals-X.691', SymBytes(out) == ref):
                return
            if ctx.prove('kernel-decode(model-bits)-is-the-value', dec == v):
                ctx.note('kernel-proved')
    return harness


def replay_int_kernel(v):
    s = v['witness']['vars']
    lo, hi, val = s['lo'], s['hi'], s['v']
    codec = v['job']['codec']
    text = 'T DEFINITIONS AUTOMATIC TAGS ::= BEGIN A ::= INTEGER (%d..%d) END' % (lo, hi)
    spec = asn1tools.compile_string(text, codec)
    want = x691.encode(asn1tools.parse_string(text), 'T', 'A', val, codec == 'per')
    want = want.concrete() if hasattr(want, 'concrete') else bytes(want)
    try:
        got = bytes(spec.encode('A', val))
    except Exception as e:
        return True, 'INTEGER (%d..%d) value %d: encode raised %s: %s' % (lo, hi, val, type(e).__name__, str(e)[:80])
    if got != want:
        return True, '%s INTEGER (%d..%d) value %d: library %s, X.691 %s' % (codec, lo, hi, val, got.hex(), want.hex())
    try:
        back = spec.decode('A', want)
    except Exception as e:
        return True, 'INTEGER (%d..%d): decode(%s) raised %s' % (lo, hi, want.hex(), type(e).__name__)
    if back != val:
        return True, 'INTEGER (%d..%d): %s decodes to %d, not %d' % (lo, hi, want.hex(), back, val)
    return False, 'INTEGER (%d..%d) value %d agrees with X.691 (%s)' % (lo, hi, val, got.hex())


def make_harness(job):
    if job.get('kernel', '').endswith('int-range'):
        return make_int_kernel(job)
    if job.get('kernel'):
        from checks import C01
        return C01.make_kernel_harness(job)
    cj = Compiled(job, bounds_for(job['tier'], corpus.BY_ID[job['template']],
                                  **({'n_len': 2, 'int_abs': 1 << 17} if job['tier'] == 'quick' else {'int_abs': 1 << 33})))
    aligned = job['codec'] == 'per'
    eq = Equiv(cj.gen, 0)

    def run(mdl, v):
        buf = BitBuf()
        mdl.encode_type(buf, {'type': cj.name}, cj.module, v)
        return mdl.complete(buf).symbytes()

    def harness(ctx):
        cj.cands.attach(ctx)
        with shimmed(C.CODEC_MODS):
            v = cj.value(ctx)
            ctx.describe = lambda m: {'value': jsonable(concretize(v, m))}
            if not cj.accepted(v):
                ctx.note('outside-domain')
                return
            try:
                enc = cj.ct.encode(v)
            except Exception as e:
                ctx.note('encode-raises(C01 territory)')
                return
            m = ctx.eng.get_model()
            cv = concretize(v, m)
            want_c = enc.concrete(m) if isinstance(enc, SymBytes) else bytes(enc)
            with unshimmed():
                got_c = bytes(cj.ct.encode(cv))
            if got_c != want_c:
                raise HarnessError('xval mismatch %r: symbolic %s concrete %s' % (cv, want_c.hex(), got_c.hex()))
            ctx.res.xval += 1
            try:
                ref = run(x691._Per(cj.parsed, aligned, cj.numeric_enums), v)
            except x691.EncodeError as e:
                ctx.note('model: not a value of the type')
                return
            except NotImplementedError as e:
                raise Inconclusive('x691 model: %s' % e)
            ctx.sample({'job': job['id'], 'value': jsonable(cv), 'per': got_c.hex()})
            if len(ref) != len(enc) or ctx.eng.check_model(z3.Not(beq(enc, ref))) is not None:
                like = Asn1toolsLike.make(cj.parsed, aligned, cj.numeric_enums)
                try:
                    ref2 = run(like, v)
                except Exception:
                    ref2 = None
                if ref2 is not None and like.fired and len(ref2) == len(enc) and \
                        ctx.eng.check_model(z3.Not(beq(enc, ref2))) is None:
                    unresolved = sorted(q for q in like.fired if q not in CONFIRMED)
                    if unresolved:
                        for q in unresolved:
                            ctx.note('unresolved-reading(not claimed): ' + q)
                        return
                    for q in sorted(like.fired):
                        ctx.violation('x691-deviation:' + q, 'library octets equal the model with this decision '
                                      'taken differently from X.691')
                    return
                if len(ref) != len(enc):
                    m2 = ctx.eng.get_model()
                    ctx.violation('length-differs-from-X.691', 'library %s, model %s' % (
                        SymBytes(enc).concrete(m2).hex(), ref.concrete(m2).hex()))
                    return
            if not ctx.prove('per-equals-X.691-model', SymBytes(enc) == ref):
                return
            try:
                dec = cj.ct.decode(ref)
            except Exception as e:
                ctx.violation('decoder-rejects-model-bits', '%s: %s' % (type(e).__name__, str(e)[:80]))
                return
            try:
                cond = eq.equiv(v, dec, cj.td, cj.module)
            except Mismatch as e:
                ctx.violation('decoder-misreads-model-bits', str(e)[:120])
                return
            ctx.prove('decode(model-bits)-is-the-value', cond)
    return harness


def replay(v):
    job = v['job']
    if job.get('kernel', '').endswith('int-range'):
        return replay_int_kernel(v)
    if job.get('kernel'):
        from checks import C01
        return C01.replay_kernel(v)
    tpl = corpus.BY_ID[job['template']]
    spec = asn1tools.compile_string(tpl['text'], job['codec'])
    value = unjson(v['witness']['inputs']['value'])
    got = bytes(spec.encode(tpl['type'], value))
    eng = Engine()
    Engine.cur = eng
    try:
        parsed = asn1tools.parse_string(tpl['text'])
        want = x691.encode(parsed, tpl['module'], tpl['type'], value, job['codec'] == 'per').concrete()
    finally:
        Engine.cur = None
    if got != want:
        return True, 'value %r: library %s, X.691 %s (%s)' % (value, got.hex(), want.hex(), v['label'])
    try:
        dec = spec.decode(tpl['type'], want)
    except Exception as e:
        return True, 'decode(%s) raises %r' % (want.hex(), e)
    return False, 'library and model agree: %s' % got.hex()


def main(argv=None):
    a = runner.std_args(argv)
    if a.replay:
        return runner.cli_replay(PROP, 'checks.C05', replay, a.replay)
    jobs = jobs_for(a.tier)
    if a.only:
        jobs = [j for j in jobs if a.only in j['id']]
    return runner.run_check(
        PROP, 'checks.C05', jobs, a.tier, a.seed, replay=replay, nproc=a.nproc,
        functions=C.functions_of(C.per, C.uper, C.ccompiler, C.permitted_alphabet),
        bounds=dict(bounds_for(a.tier).as_dict(), templates=len({j.get('template') for j in jobs})),
        assumptions=['oracle: models/x691.py (clause-by-clause model of X.691 written from recall of the standard; '
                     'validated on 5980 encodings incl. the X.691 Annex A examples pinned in the repository tests)',
                     'decisions where model and library differ and the reading of the standard could not be confirmed '
                     'offline are not claimed (reported as notes "unresolved-reading")'],
        stubs=['builtin shims as in C01'],
        outside=['REAL', 'time types', 'values whose encoding needs 16K fragmentation (covered only by the model\'s own tests)'])


if __name__ == '__main__':
    sys.exit(main())
