"""C18 -- a compiled specification is stateless across calls (and, by absence of shared
writes, across threads)."""
import sys
import os
sys.path.insert(0, os.path.dirname(os.path.dirname(os.path.abspath(__file__))))
import json
import z3

from lib import codec as C
from lib.codec import asn1tools
from lib import runner
from lib.common import Compiled
from lib.symvalue import Bounds, concretize, jsonable, unjson
from lib.equiv import compare_codecs
from checks.C08 import fingerprint
from checks.C12 import corruptions, _clone
import corpus
import pyfront
from pyfront import shimmed, unshimmed, SymBytes, SymLookupDict
from symcore import HarnessError, Inconclusive

PROP = 'C18'
OPS = ['encode-valid', 'encode-corrupt', 'decode-arbitrary', 'decode-truncated']
IDS_QUICK = ['combo-recursive', 'combo-rec-choice', 'combo-ref', 'combo-default-shared', 'seq-opt', 'seq-ext-mixed',
             'choice-ext', 'combo-oer-enum', 'setof', 'bits-named', 'c12-paths']
IDS_MORE = ['combo-uper6', 'combo-choice-seq', 'combo-ext-nest', 'combo-bits-default', 'combo-set-choice', 'ia5-from',
            'combo-str-seq', 'tag-app', 'seq-ext-8']


# ---- write monitor ------------------------------------------------------------------------
class Monitor:
    """records every attribute / container write to objects of the compiled type graph"""

    def __init__(self, root):
        self.ids = set()
        self.writes = []
        self.active = False
        self._patched = []
        self._collect(root)

    def _collect(self, root):
        seen = set()
        stack = [root]
        classes = set()
        while stack:
            o = stack.pop()
            if id(o) in seen or isinstance(o, (str, bytes, int, float, bool, type(None), type)):
                continue
            seen.add(id(o))
            if isinstance(o, dict):
                stack.extend(o.values())
            elif isinstance(o, (list, tuple, set, frozenset)):
                stack.extend(o)
            elif hasattr(o, '__dict__') and type(o).__module__.startswith('asn1tools'):
                self.ids.add(id(o))
                classes.add(type(o))
                d = o.__dict__
                for k, v in list(d.items()):
                    if type(v) is list:
                        d[k] = TrackedList(v, self, '%s.%s' % (type(o).__name__, k))
                    elif type(v) in (dict, SymLookupDict):
                        nd = TrackedDict(v) if type(v) is dict else TrackedLookup(v)
                        nd._mon, nd._what = self, '%s.%s' % (type(o).__name__, k)
                        d[k] = nd
                    elif type(v) is bytearray:
                        pass        # compared by the fingerprint (cannot be subclass-swapped safely)
                stack.append(d)
        for cls in classes:
            for base in cls.__mro__:
                if base is object or '__setattr__' in base.__dict__:
                    break
            mon = self

            def hook(obj, name, value, _cls=cls):
                if mon.active and id(obj) in mon.ids:
                    mon.writes.append('%s.%s' % (type(obj).__name__, name))
                object.__setattr__(obj, name, value)
            if '__setattr__' not in cls.__dict__:
                cls.__setattr__ = hook
                self._patched.append(cls)

    def note(self, what):
        if self.active:
            self.writes.append(what)


def _mut(name):
    def f(self, *a, **k):
        self._mon.note('%s.%s()' % (self._what, name))
        return getattr(super(type(self), self), name)(*a, **k)
    return f


class TrackedList(list):
    def __init__(self, src, mon, what):
        super().__init__(src)
        self._mon, self._what = mon, what
    for _n in ('append', 'extend', 'insert', 'pop', 'remove', 'clear', 'sort', 'reverse',
               '__setitem__', '__delitem__', '__iadd__', '__imul__'):
        locals()[_n] = _mut(_n)


class TrackedDict(dict):
    for _n in ('__setitem__', '__delitem__', 'pop', 'popitem', 'clear', 'update', 'setdefault'):
        locals()[_n] = _mut(_n)


class TrackedLookup(SymLookupDict):
    for _n in ('__setitem__', '__delitem__', 'pop', 'popitem', 'clear', 'update', 'setdefault'):
        locals()[_n] = _mut(_n)


def snapshot(v):
    """structural snapshot of an argument value (proxies by identity: they are immutable)"""
    if isinstance(v, dict):
        return ('d', tuple((k, snapshot(x)) for k, x in v.items()))
    if isinstance(v, list):
        return ('l', tuple(snapshot(x) for x in v))
    if isinstance(v, tuple):
        return ('t', tuple(snapshot(x) for x in v))
    if isinstance(v, bytearray):
        return ('ba', bytes(v))
    if isinstance(v, (str, bytes, int, float, bool, type(None))):
        return v
    if isinstance(v, SymBytes):
        return ('sb', tuple(v.c))
    return ('id', id(v))


def snapshot_diff(a, b, conds):
    """structural comparison of two snapshots; symbolic cells contribute z3 equalities.
    Returns False on a shape difference."""
    if isinstance(a, tuple) and isinstance(b, tuple) and a[:1] == ('sb',) and b[:1] == ('sb',):
        if len(a[1]) != len(b[1]):
            return False
        for x, y in zip(a[1], b[1]):
            if x is not y:
                conds.append(x == y)
        return True
    if isinstance(a, tuple) and isinstance(b, tuple):
        if len(a) != len(b):
            return False
        return all(snapshot_diff(x, y, conds) for x, y in zip(a, b))
    return a == b


def jobs_for(tier):
    jobs = []
    codecs = ['ber', 'uper', 'oer'] if tier == 'quick' else ['ber', 'der', 'per', 'uper', 'oer']
    for i in IDS_QUICK + (IDS_MORE if tier == 'thorough' else []):
        for codec in codecs:
            for op in OPS:
                jobs.append(dict(id='%s/%s/%s' % (i, codec, op), template=i, codec=codec, op=op, tier=tier,
                                 numeric_enums=False))
            jobs.append(dict(id='%s/%s/second-after-failures' % (i, codec), template=i, codec=codec,
                             op='second', tier=tier, numeric_enums=False))
    return jobs


def make_harness(job):
    b = Bounds(int_abs=1 << 9, n_len=1, depth=4, str_len=1) if job['tier'] == 'quick' else \
        Bounds(int_abs=1 << 17, n_len=2, depth=5, str_len=2)
    cj = Compiled(job, b)
    fresh = Compiled(job, b)
    mon = Monitor(cj.spec)
    fp0 = fingerprint(cj.spec)
    op = job['op']
    nbytes = 2 if job['tier'] == 'quick' else 4

    def harness_second(ctx):
        """after a fixed series of failing and succeeding calls, every symbolic value must be
        handled exactly as by a freshly compiled specification"""
        cj.cands.attach(ctx)
        for bad in (object(), None, [], {}, 'x', 3):
            try:
                cj.spec.encode(cj.name, bad, check_types=True, check_constraints=True)
            except Exception:
                pass
        for data in (b'', b'\xff', b'\xff\xff\xff\xff', b'\x30\x80', b'\x00' * 5, b'\x80\x01'):
            try:
                cj.spec.decode(cj.name, data)
            except Exception:
                pass
        with shimmed(C.CODEC_MODS):
            w = fresh.gen.value(ctx, fresh.td, fresh.module, 'w')
            ctx.describe = lambda m: {'op': 'second', 'arg': None, 'second': jsonable(concretize(w, m))}
            if not fresh.accepted(w):
                ctx.note('second-outside-domain')
                return
            compare_codecs(ctx, fresh.ct, cj.ct, w, 'fresh-vs-used')
            if fingerprint(cj.spec) != fp0:
                ctx.violation('compiled-specification-differs-after-call', 'second')
    if op == 'second':
        return harness_second

    def harness(ctx):
        cj.cands.attach(ctx)
        state = {}
        with shimmed(C.CODEC_MODS):
            # ---- first operation (any kind, any input, may fail) --------------------------
            arg = None
            if op in ('encode-valid', 'encode-corrupt', 'decode-truncated'):
                v = cj.value(ctx, 'v')
                if not cj.accepted(v):
                    ctx.note('outside-domain')
                    return
                arg = v
            if op == 'encode-corrupt':
                options, holder = corruptions(ctx, cj, _clone(v))
                if not options:
                    ctx.note('no-corruption')
                    return
                k = ctx.choose('corruption', len(options))
                options[k][2]()
                arg = holder['v']
                state['what'] = options[k][1]
            ctx.describe = lambda m: {'op': op, 'arg': jsonable(concretize(state.get('arg', arg), m)),
                                      'second': jsonable(concretize(state.get('w'), m))}
            def frozen(x):
                if isinstance(x, SymBytes):
                    return SymBytes(list(x.c))
                if isinstance(x, dict):
                    return {k: frozen(y) for k, y in x.items()}
                if isinstance(x, list):
                    return [frozen(y) for y in x]
                if isinstance(x, tuple):
                    return tuple(frozen(y) for y in x)
                return x
            if arg is not None:
                state['arg'] = frozen(arg)       # the argument as passed (for the witness)
            before = snapshot(arg) if arg is not None else None
            mon.writes.clear()
            mon.active = True
            # sizes taken from the input are explored up to this limit only (C08 owns the rest)
            ctx.eng.index_limit = 64 if job['tier'] == 'quick' else 4096
            try:
                try:
                    if op in ('encode-valid', 'encode-corrupt'):
                        cj.spec.encode(cj.name, arg, check_types=True, check_constraints=True)
                    elif op == 'decode-arbitrary':
                        n = ctx.choose('n', nbytes + 1)
                        data = ctx.bytes('x', n)
                        state['arg'] = data
                        cj.spec.decode(cj.name, data)
                    else:
                        enc = cj.ct.encode(v)
                        if len(enc) == 0:
                            ctx.note('empty-encoding')
                            return
                        cut = ctx.choose('cut', len(enc))
                        cj.spec.decode(cj.name, enc[:cut])
                    first = 'returned'
                except Inconclusive:
                    raise
                except Exception as e:
                    first = type(e).__name__
            finally:
                mon.active = False
                ctx.eng.index_limit = None
            ctx.note('first-op-' + ('returned' if first == 'returned' else 'raised'))
            if mon.writes:
                ctx.violation('shared-state-written-during-call', '%s: %s' % (op, sorted(set(mon.writes))[:6]))
                return
            ctx.res.proved += 1
            if before is not None:
                conds = []
                if not snapshot_diff(before, snapshot(arg), conds):
                    ctx.violation('argument-modified', op)
                    return
                if conds and not ctx.prove('argument-unmodified', z3.And(conds), info=op):
                    return
            ctx.res.proved += 1
            if fingerprint(cj.spec) != fp0:
                ctx.violation('compiled-specification-differs-after-call', '%s (%s)' % (op, first))
                return
            ctx.res.proved += 1
            ctx.sample({'job': job['id'], 'first_op': op, 'outcome': first})
    return harness


def replay(v):
    job = v['job']
    tpl = corpus.BY_ID[job['template']]
    inp = v['witness']['inputs']
    used = asn1tools.compile_string(tpl['text'], job['codec'])
    fresh = asn1tools.compile_string(tpl['text'], job['codec'])
    fp0 = fingerprint(used)
    def mutable(x):
        """the same value with bytearray instead of bytes leaves (both are accepted input types;
        the symbolic run models the mutable one)"""
        if isinstance(x, bytes):
            return bytearray(x)
        if isinstance(x, dict):
            return {k: mutable(y) for k, y in x.items()}
        if isinstance(x, list):
            return [mutable(y) for y in x]
        if isinstance(x, tuple):
            return tuple(mutable(y) for y in x)
        return x
    arg = unjson(inp['arg'])
    if job['op'].startswith('encode') or job['op'] == 'decode-truncated':
        arg = mutable(arg)
    import copy
    keep = copy.deepcopy(arg)
    name = tpl['type']
    if job['op'] == 'second':
        for bad in (object(), None, [], {}, 'x', 3):
            try:
                used.encode(name, bad, check_types=True, check_constraints=True)
            except Exception:
                pass
        for data in (b'', b'\xff', b'\xff\xff\xff\xff', b'\x30\x80', b'\x00' * 5, b'\x80\x01'):
            try:
                used.decode(name, data)
            except Exception:
                pass
    else:
        try:
            if job['op'].startswith('encode') or job['op'] == 'decode-truncated':
                used.encode(name, arg, check_types=True, check_constraints=True)
            else:
                used.decode(name, arg if isinstance(arg, (bytes, bytearray)) else b'')
        except Exception:
            pass
    if job['op'] != 'second' and arg != keep:
        return True, 'argument modified: %r -> %r' % (keep, arg)
    if fingerprint(used) != fp0:
        return True, 'compiled specification changed by %s(%r)' % (job['op'], keep)
    w = unjson(inp.get('second'))
    if w is not None:
        def run(spec):
            try:
                e = spec.encode(name, w)
                return (e.hex(), repr(spec.decode(name, e)))
            except Exception as e:
                return ('raises', type(e).__name__)
        a, b = run(fresh), run(used)
        if a != b:
            return True, 'after %s(%r): %r on a fresh spec, %r on the used one' % (job['op'], keep, a, b)
    if v['label'] == 'shared-state-written-during-call':
        return True, 'write to shared compiled state during %s: %s' % (job['op'], v['info'])
    return False, 'no difference reproduced'


def main(argv=None):
    a = runner.std_args(argv)
    if a.replay:
        return runner.cli_replay(PROP, 'checks.C18', replay, a.replay)
    jobs = jobs_for(a.tier)
    if a.only:
        jobs = [j for j in jobs if a.only in j['id']]
    return runner.run_check(
        PROP, 'checks.C18', jobs, a.tier, a.seed, replay=replay, nproc=a.nproc,
        functions=C.functions_of(*C.CODEC_MODS),
        bounds=dict(first_operation=OPS, templates=len({j['template'] for j in jobs}),
                    values='lists <= 1/2, |int| <= 2^9/2^17, arbitrary input <= 3/4 octets'),
        assumptions=['inductive step: from a compiled graph structurally equal to a fresh one, ANY single encode/decode '
                     '(valid, corrupted, arbitrary bytes, truncated) with symbolic input leaves the graph structurally '
                     'equal, does not modify its argument and writes no attribute/list/dict of the graph during the call; '
                     'hence sequential histories of any length behave like fresh, and calls commute under any thread '
                     'interleaving because they share no written state',
                     'thread schedules themselves are not explored'],
        stubs=['builtin shims as in C01', 'recording __setattr__ on the classes of graph objects; list/dict attributes '
               'replaced by recording subclasses'],
        outside=['real thread interleavings', 'bytearray attributes mutated in place and restored within one call'])


if __name__ == '__main__':
    sys.exit(main())
