"""C03 -- DER output is the unique X.690 distinguished encoding (differential vs models/x690)."""
import sys
import os
sys.path.insert(0, os.path.dirname(os.path.dirname(os.path.abspath(__file__))))
import json
import z3

from lib import codec as C
from lib.codec import asn1tools
from lib import runner
from lib.common import Compiled, bounds_for
from lib.symvalue import concretize, jsonable, unjson, Bounds
from models import x690
import corpus
from pyfront import shimmed, unshimmed, SymBytes
from symcore import HarnessError, Engine, Inconclusive

PROP = 'C03'


def pyfront_eq(a, b):
    from pyfront import to_z3bool
    r = (SymBytes(a) == b)
    return to_z3bool(r)
SKIP_FEATS = {'real'}


def jobs_for(tier):
    jobs = []
    if tier == 'quick':
        tpls = corpus.select(feats={'basic', 'ext', 'tag', 'set', 'setof', 'named', 'opt', 'bits'}, exclude={'manyadd', 'spill'})
    else:
        tpls = [t for t in corpus.TEMPLATES if 'spill' not in t['feats']] + corpus.generated(exclude={'real'})
    if tier == 'quick':
        tpls = tpls + corpus.generated(quick=True, exclude={'real'})
    for t in tpls:
        jobs.append(dict(id='%s/der' % t['id'], template=t['id'], codec='der', tier=corpus.job_tier(t, tier), numeric_enums=False))
        if 'enum' in t['feats'] and tier == 'thorough':
            jobs.append(dict(id='%s/der/numeric' % t['id'], template=t['id'], codec='der', tier=tier,
                             numeric_enums=True))
    for k in ('length', 'tag', 'set-symbolic-tags'):
        jobs.append(dict(id='kernel/' + k, kernel=k, codec='der', tier=tier, numeric_enums=False))
    return jobs


SET_TEXT = ('T DEFINITIONS IMPLICIT TAGS ::= BEGIN\nA ::= SET { a [1] INTEGER (0..7), b [2] BOOLEAN, c [3] NULL, '
            'd [4] INTEGER (0..7) OPTIONAL }\nEND\n')
CLASSES = ['CONTEXT', 'APPLICATION', 'PRIVATE']


def make_set_tags(job):
    """SET with SYMBOLIC tag numbers and classes: the real DER compiler sorts the components at
    compile time from solver variables; the encoding must follow the canonical order of X.690 10.3
    for every assignment of distinct tags (numbers < 2^21: one to four identifier octets)"""
    import copy
    base = asn1tools.parse_string(SET_TEXT)
    top = (1 << 21) if job['tier'] == 'thorough' else (1 << 15)

    def harness(ctx):
        with shimmed(C.CODEC_MODS):
            parsed = copy.deepcopy(base)
            members = parsed['T']['types']['A']['members']
            if job['tier'] == 'quick':
                del members[3:]         # three components in the quick tier
            tags = []
            for i, m in enumerate(members):
                cls = CLASSES[ctx.choose('class%d' % i, 2 if i < 2 else 3)]
                num = ctx.int('tag%d' % i, 0, top)
                m['tag'] = {'number': num, 'class': cls}
                tags.append((cls, num))
            for i in range(len(tags)):
                for j in range(i):
                    if tags[i][0] == tags[j][0]:
                        ctx.assume(tags[i][1] != tags[j][1])
            has_d = len(members) > 3 and ctx.flag('d?')
            v = {'a': ctx.int('a', 0, 7), 'b': ctx.flag('b'), 'c': None}
            if has_d:
                v['d'] = ctx.int('d', 0, 7)
            ctx.describe = lambda m: {'tags': [(c, (m.eval(n.e, model_completion=True).as_signed_long()
                                                    if hasattr(n, 'e') else n)) for c, n in tags],
                                      'value': jsonable(concretize(v, m))}
            try:
                spec = asn1tools.compile_dict(parsed, 'der')
                enc = spec.types['A'].encode(v)
            except Inconclusive:
                raise
            except Exception as e:
                ctx.violation('kernel-raises', '%s: %s' % (type(e).__name__, str(e)[:100]))
                return
            ref = x690.DerModel(parsed, False).encode(v, 'A', 'T')
            if len(ref) != len(enc):
                ctx.violation('kernel-length', 'library %d octets, model %d' % (len(enc), len(ref)))
                return
            if ctx.prove('kernel-set-in-canonical-tag-order', SymBytes(enc) == ref):
                ctx.note('kernel-proved')
    return harness


def replay_set_tags(v):
    inp = v['witness']['inputs']
    body = ', '.join('%s [%s%d] %s' % (n, '' if c == 'CONTEXT' else c + ' ', num, t) for (c, num), (n, t) in zip(
        inp['tags'], [('a', 'INTEGER (0..7)'), ('b', 'BOOLEAN'), ('c', 'NULL'), ('d', 'INTEGER (0..7) OPTIONAL')]))
    text = 'T DEFINITIONS IMPLICIT TAGS ::= BEGIN\nA ::= SET { %s }\nEND\n' % body
    value = unjson(inp['value'])
    spec = asn1tools.compile_string(text, 'der')
    got = bytes(spec.encode('A', value))
    eng = Engine()
    Engine.cur = eng
    try:
        want = x690.DerModel(asn1tools.parse_string(text), False).encode(value, 'A', 'T').concrete(None)
    finally:
        Engine.cur = None
    if got != want:
        return True, 'SET { %s } value %r: library %s, X.690 10.3 order %s' % (body, value, got.hex(), want.hex())
    return False, 'agrees with the model: %s' % got.hex()


def make_kernel(job):
    if job['kernel'] == 'set-symbolic-tags':
        return make_set_tags(job)

    def harness(ctx):
        with shimmed(C.CODEC_MODS):
            if job['kernel'] == 'length':
                n = ctx.int('n', 0, (1 << 32) - 1)
                ctx.describe = lambda m: {'n': m.eval(ctx.eng.vars['n'], model_completion=True).as_long()}
                got = C.ber.encode_length_definite(n)
                nn = n
                want = x690.length_octets(n)         # the model forks over the octet count only
            else:
                num = ctx.int('number', 0, (1 << 28) - 1)
                cls = ctx.choose('class', 4)
                cons = ctx.choose('constructed', 2)
                ctx.describe = lambda m: {'number': m.eval(ctx.eng.vars['number'], model_completion=True).as_long(),
                                          'class': cls, 'constructed': cons}
                flags = (cls << 6) | (0x20 if cons else 0)
                got = C.ber.encode_tag(num, flags)
                nn = num
                want = x690.tag_octets((['UNIVERSAL', 'APPLICATION', 'CONTEXT', 'PRIVATE'][cls], num), bool(cons))
            if len(got) != len(want):
                ctx.violation('kernel-length', '%d vs model %d octets' % (len(got), len(want)))
                return
            from pyfront import cell
            ctx.prove('kernel-octets-equal-model', SymBytes(got) == SymBytes([cell(b) for b in want]))
            ctx.sample({'job': job['id'], 'octets': len(want)})
    return harness


def make_harness(job):
    if job.get('kernel'):
        return make_kernel(job)
    cj = Compiled(job, bounds_for(job['tier'], corpus.BY_ID[job['template']],
                                  **({'n_len': 2, 'int_abs': 1 << 17} if job['tier'] == 'quick' else {})))
    model = x690.DerModel(cj.parsed, cj.numeric_enums)
    model_textual = x690.DerModel(cj.parsed, cj.numeric_enums, textual_auto_tags=True)

    def harness(ctx):
        cj.cands.attach(ctx)
        with shimmed(C.CODEC_MODS):
            v = cj.value(ctx)
            ctx.describe = lambda m: {'value': jsonable(concretize(v, m))}
            if not cj.accepted(v):
                ctx.note('outside-domain')
                return
            try:
                enc = cj.ct.encode(v)
            except Exception as e:
                ctx.note('encode-raises(C01 territory)')
                return
            m = ctx.eng.get_model()
            cv = concretize(v, m)
            want_c = enc.concrete(m) if isinstance(enc, SymBytes) else bytes(enc)
            with unshimmed():
                got_c = bytes(cj.ct.encode(cv))
            if got_c != want_c:
                raise HarnessError('xval mismatch %r: symbolic %s concrete %s' % (cv, want_c.hex(), got_c.hex()))
            ctx.res.xval += 1
            ref = model.encode(v, cj.name, cj.module)
            ctx.sample({'job': job['id'], 'value': jsonable(cv), 'der': got_c.hex()})
            if len(ref) != len(enc):
                m2 = ctx.eng.get_model()
                ctx.violation('length-differs-from-X.690',
                              'library %d octets, model %d (%s)' % (len(enc), len(ref), ref.concrete(m2).hex()))
                return
            if ctx.eng.check_model(z3.Not(pyfront_eq(enc, ref))) is not None:
                # classify: does the library agree with the model under textual-order automatic tags?
                ref2 = model_textual.encode(v, cj.name, cj.module)
                if len(ref2) == len(enc) and ctx.eng.check_model(z3.Not(pyfront_eq(enc, ref2))) is None:
                    ctx.violation('automatic-tags-numbered-in-textual-order',
                                  'root components after the extension additions get later tag numbers than X.680 25.8 assigns')
                    return
            ok = ctx.prove('der-equals-X.690-model', SymBytes(enc) == ref)
            if ok:
                try:
                    x690.check_structure(list(SymBytes(enc).c))
                    ctx.res.proved += 1
                except ValueError as e:
                    ctx.violation('tlv-structure', str(e))
    return harness


def replay(v):
    job = v['job']
    if job.get('kernel'):
        if job['kernel'] == 'set-symbolic-tags':
            return replay_set_tags(v)
        inp = v['witness']['inputs']
        if job['kernel'] == 'length':
            got = bytes(C.ber.encode_length_definite(inp['n']))
            want = bytes(x690.length_octets(inp['n']))
        else:
            flags = (inp['class'] << 6) | (0x20 if inp['constructed'] else 0)
            got = bytes(C.ber.encode_tag(inp['number'], flags))
            want = bytes(x690.tag_octets((['UNIVERSAL', 'APPLICATION', 'CONTEXT', 'PRIVATE'][inp['class']],
                                          inp['number']), bool(inp['constructed'])))
        return got != want, '%s: library %s, X.690 %s' % (inp, got.hex(), want.hex())
    tpl = corpus.BY_ID[job['template']]
    spec = asn1tools.compile_string(tpl['text'], 'der', numeric_enums=job['numeric_enums'])
    value = unjson(v['witness']['inputs']['value'])
    got = bytes(spec.encode(tpl['type'], value))
    eng = Engine()
    Engine.cur = eng
    try:
        model = x690.DerModel(asn1tools.parse_string(tpl['text']), job['numeric_enums'])
        want = model.encode(value, tpl['type'], tpl['module']).concrete(None) if False else \
            bytes(z3.simplify(c).as_long() for c in model.encode(value, tpl['type'], tpl['module']).c)
    finally:
        Engine.cur = None
    return got != want, 'value %r: library %s, X.690 DER %s' % (value, got.hex(), want.hex())


def main(argv=None):
    a = runner.std_args(argv)
    if a.replay:
        return runner.cli_replay(PROP, 'checks.C03', replay, a.replay)
    jobs = jobs_for(a.tier)
    if a.only:
        jobs = [j for j in jobs if a.only in j['id']]
    return runner.run_check(
        PROP, 'checks.C03', jobs, a.tier, a.seed, replay=replay, nproc=a.nproc,
        functions=C.functions_of(C.der, C.ber, C.ccompiler),
        bounds=dict(bounds_for(a.tier).as_dict(), templates=len({j.get('template') for j in jobs}),
                    kernels='encode_length_definite for all n < 2^32; encode_tag for all numbers < 2^28 x 4 classes'),
        assumptions=['oracle: models/x690.py (own tagging incl. AUTOMATIC per X.680 25.8, minimal lengths, DEFAULT '
                     'omission 11.5, SET order 10.3, SET OF order 11.6, named-bit trailing zeros 11.2.2)'],
        stubs=['builtin shims as in C01'],
        outside=['REAL (concrete doubles only in thorough)', 'time types', 'ANY/EXTERNAL'])


if __name__ == '__main__':
    sys.exit(main())
