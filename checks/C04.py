"""C04 -- the BER decoder accepts every valid BER serialisation with the same meaning."""
import sys
import os
sys.path.insert(0, os.path.dirname(os.path.dirname(os.path.abspath(__file__))))
import json
import z3

from lib import codec as C
from lib.codec import asn1tools
from lib import runner
from lib.common import Compiled, bounds_for
from lib.symvalue import Equiv, Mismatch, concretize, jsonable, unjson, Bounds
from models import x690
import corpus
from pyfront import shimmed, unshimmed, SymBytes
from symcore import HarnessError, Engine

PROP = 'C04'
IDS_QUICK = ['octets', 'octets-range', 'bits', 'bits-named', 'ia5', 'utf8', 'seq-basic', 'seq-opt', 'seq-ext',
             'set-basic', 'set-opt-middle', 'set-tags', 'choice', 'choice-ext', 'seqof', 'setof', 'tag-explicit', 'tag-implicit',
             'tag-app', 'tag-choice', 'combo-str-seq', 'combo-set-choice', 'int', 'bool', 'null', 'enum', 'oid']
IDS_MORE = ['combo-uper6', 'combo-choice-seq', 'combo-ext-nest', 'combo-bits-default', 'tag-big', 'bmp', 'universal',
            'general', 'combo-recursive', 'combo-rec-choice', 'seq-ext-group', 'combo-depth3', 'seq-ext-mixed']


def jobs_for(tier):
    jobs = []
    for i in IDS_QUICK + (IDS_MORE if tier == 'thorough' else []):
        jobs.append(dict(id='%s/ber' % i, template=i, codec='ber', tier=tier, numeric_enums=False,
                         rewrites=2 if tier == 'quick' else 3))
    return jobs


def make_harness(job):
    b = Bounds(int_abs=1 << 9, n_len=1, depth=4, str_len=2) if job['tier'] == 'quick' else \
        Bounds(int_abs=1 << 17, n_len=2, depth=5, str_len=3)
    if job['template'] in ('octets', 'bits', 'bits-named', 'ia5', 'utf8', 'octets-range'):
        b.n_len = 2 if job['tier'] == 'quick' else 3
    cj = Compiled(job, b)
    model = x690.DerModel(cj.parsed)
    eq = Equiv(cj.gen, 0)

    def harness(ctx):
        cj.cands.attach(ctx)
        with shimmed(C.CODEC_MODS):
            v = cj.value(ctx)
            state = {}
            ctx.describe = lambda m: {'value': jsonable(concretize(v, m)),
                                      'variant': state['variant'].concrete(m).hex() if 'variant' in state else None,
                                      'rewrites': state.get('log')}
            if not cj.accepted(v):
                ctx.note('outside-domain')
                return
            tree = model.tree(v, cj.name, cj.module)
            rw = x690.Rewriter(lambda name, n: ctx.choose(name, n), max_rewrites=job['rewrites'])
            variant = SymBytes(rw.emit(tree))
            state['variant'], state['log'] = variant, rw.log
            ctx.shape['rewrites'] = ','.join(rw.log)
            if not rw.log:
                ctx.note('unchanged-DER-form')
            try:
                dec = cj.ct.decode(variant)
            except Exception as e:
                ctx.violation('valid-BER-form-rejected', '%s: %s [%s]' % (type(e).__name__, str(e)[:80], rw.log))
                return
            m = ctx.eng.get_model()
            cvar = variant.concrete(m)
            with unshimmed():
                try:
                    cdec = cj.ct.decode(cvar)
                except Exception as e:
                    raise HarnessError('xval: concrete decode(%s) raised %r' % (cvar.hex(), e))
            ctx.res.xval += 1
            ctx.sample({'job': job['id'], 'rewrites': rw.log, 'variant': cvar.hex(), 'decoded': repr(cdec)[:80]})
            try:
                cond = eq.equiv(v, dec, cj.td, cj.module)
            except Mismatch as e:
                ctx.violation('variant-decodes-to-a-different-value', '%s [%s]' % (str(e)[:100], rw.log))
                return
            ctx.prove('variant-decodes-to-the-encoded-value', cond, info=str(rw.log))
    return harness


def replay(v):
    job = v['job']
    tpl = corpus.BY_ID[job['template']]
    spec = asn1tools.compile_string(tpl['text'], 'ber')
    inp = v['witness']['inputs']
    value = unjson(inp['value'])
    data = bytes.fromhex(inp['variant'])
    try:
        dec = spec.decode(tpl['type'], data)
    except Exception as e:
        return True, 'value %r re-serialised as %s (%s): decode raises %s: %s' % (
            value, data.hex(), inp['rewrites'], type(e).__name__, e)
    parsed = asn1tools.parse_string(tpl['text'])
    from lib.symvalue import Gen
    eng = Engine()
    Engine.cur = eng
    try:
        try:
            cond = Equiv(Gen(parsed, Bounds()), 0).equiv(value, dec, parsed[tpl['module']]['types'][tpl['type']],
                                                         tpl['module'])
            same = z3.is_true(z3.simplify(cond))
        except Mismatch as e:
            return True, 'value %r re-serialised as %s (%s) decodes to %r (%s)' % (value, data.hex(), inp['rewrites'], dec, e)
    finally:
        Engine.cur = None
    return (not same), 'value %r re-serialised as %s (%s) decodes to %r' % (value, data.hex(), inp['rewrites'], dec)


def main(argv=None):
    a = runner.std_args(argv)
    if a.replay:
        return runner.cli_replay(PROP, 'checks.C04', replay, a.replay)
    jobs = jobs_for(a.tier)
    if a.only:
        jobs = [j for j in jobs if a.only in j['id']]
    return runner.run_check(
        PROP, 'checks.C04', jobs, a.tier, a.seed, replay=replay, nproc=a.nproc,
        functions=C.functions_of(C.ber),
        bounds=dict(templates=len(jobs), rewrites_per_variant=jobs[0]['rewrites'] if jobs else 0,
                    forms='per node: minimal / long-form / zero-padded definite length, indefinite length + EOC '
                          '(constructed nodes); per string or bit string: primitive / constructed with a symbolic '
                          'cut point / first segment nested constructed; per SET: every permutation (<= 4 components) / 6 characteristic ones',
                    values='content octets fully symbolic; strings <= 2/3 characters, lists <= 1/2'),
        assumptions=['the TLV tree is built by the independent X.690 model (models/x690.py), not taken from the '
                     'library encoder; form choices are solver variables explored by forking'],
        stubs=['builtin shims as in C01'],
        outside=['more than 2/3 rewritten nodes in one variant', 'segmentation deeper than 2', 'time types'])


if __name__ == '__main__':
    sys.exit(main())
