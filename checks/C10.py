"""C10 -- the generated OER C code is equivalent to the Python OER codec and memory-safe.

Same machinery and queries as C09 (E/D, S, F, R -- see checks/C09.py) with the OER generator, plus
  * REAL binary32/64 members, compared as raw IEEE-754 bit patterns (memcpy punning is
    interpreted byte-wise; no floating-point reasoning),
  * SEQUENCE extension additions including their presence flags,
  * V   the V1 generated decoder on V2 bytes: a symbolic valid V2 struct is encoded by the Python
        OER codec of the V2 specification; the decoder generated from V1 must consume exactly
        those bytes, skip the additions it does not know and recover every V1 field (incl. the
        member that follows the extended node),
  * K   kernel obligations over full 32-bit domains: the emitted length-determinant /
        unsigned-length / enumerated-length helpers against the Python OER primitives and against
        the generator's own static length computation (get_length_determinant_length).
"""
import sys
import os
sys.path.insert(0, os.path.dirname(os.path.dirname(os.path.abspath(__file__))))
import z3

from lib import codec as C
from lib.codec import asn1tools
from lib import cgen
from lib.cgen import Mapper
from lib.common import Compiled
from lib.symvalue import Bounds, concretize, jsonable
import cfront
from cfront import Ptr, ival, U64, U32, I32, UB
import pyfront
from pyfront import shimmed, unshimmed, SymBytes
from symcore import HarnessError
from checks import C09 as base
from checks.C09 import M, NS

PROP = 'C10'
CODEC = 'oer'

F32 = 'REAL (WITH COMPONENTS { mantissa (-16777215..16777215), base (2), exponent (-149..104) })'
F64 = 'REAL (WITH COMPONENTS { mantissa (-9007199254740991..9007199254740991), base (2), exponent (-1074..971) })'

OER_ONLY = [
    dict(id='real', quick=True, text=M('A ::= SEQUENCE { a %s, b %s OPTIONAL, c SEQUENCE (SIZE(1..2)) OF %s }'
                                      % (F32, F64, F32))),
    dict(id='additions', quick=True, nbytes_cap=5, text=M(
        'A ::= SEQUENCE { a BOOLEAN, b INTEGER (0..7) OPTIONAL, ..., c INTEGER (0..300), '
        'd OCTET STRING (SIZE(0..2)), e ENUMERATED { p(-1), q(200), r(70000) }, f BOOLEAN OPTIONAL }')),
    dict(id='additions-nested', quick=True, nbytes_cap=5, text=M(
        'A ::= SEQUENCE { a BOOLEAN, ..., n N, m INTEGER (0..7), o CHOICE { x BOOLEAN, y INTEGER (0..300) }, '
        'l SEQUENCE (SIZE(0..2)) OF INTEGER (0..255) }\nN ::= SEQUENCE { u INTEGER (0..7), ..., w BOOLEAN }')),
    dict(id='additions-9', quick=False, nbytes_cap=5, text=M(
        'A ::= SEQUENCE { a BOOLEAN, ..., b1 BOOLEAN, b2 BOOLEAN, b3 BOOLEAN, b4 BOOLEAN, b5 BOOLEAN, '
        'b6 BOOLEAN, b7 BOOLEAN, b8 BOOLEAN, b9 INTEGER (0..255) }')),
    dict(id='enum-oer', quick=True, text=M(
        'A ::= SEQUENCE { a ENUMERATED { n(-129), z(0), p(127), q(128) }, b ENUMERATED { s(-32769), t(32768) }, '
        'c ENUMERATED { u(-8388609), v(8388607), w(2147483647) }, d ENUMERATED { lo(-200), hi(100) }, '
        'e ENUMERATED { m(-129), k(5) }, f ENUMERATED { g(-32769), h(127) } }')),
    # additions whose encoded size is a generate-time constant around the short/long length-determinant boundary
    dict(id='additions-const-len', quick=True, queries=('E',), text=M(
        'A ::= SEQUENCE { a BOOLEAN, ..., b OCTET STRING (SIZE(127)) OPTIONAL, c OCTET STRING (SIZE(128)) OPTIONAL, '
        'd OCTET STRING (SIZE(200)) OPTIONAL, f OCTET STRING (SIZE(256)) OPTIONAL }')),
    # exactly 8 additions (bitmap of whole octets), all OPTIONAL so that every presence pattern is a value
    dict(id='additions-8', quick=True, nbytes_cap=4, queries=('E',), text=M(
        'A ::= SEQUENCE { a BOOLEAN, ..., b1 BOOLEAN OPTIONAL, b2 NULL OPTIONAL, b3 BOOLEAN OPTIONAL, b4 NULL OPTIONAL, '
        'b5 BOOLEAN OPTIONAL, b6 NULL OPTIONAL, b7 NULL OPTIONAL, b8 INTEGER (0..255) OPTIONAL }')),
    # length octets at the short/long form boundary with enough input behind them (F query, padded input)
    dict(id='octets-127', quick=True, nbytes_cap=2, pad=260, queries=('F',), text=M(
        'A ::= SEQUENCE { a OCTET STRING (SIZE(0..127)) }')),
    dict(id='octets-126-128', quick=False, nbytes_cap=2, pad=260, queries=('F',), text=M(
        'A ::= SEQUENCE { a OCTET STRING (SIZE(0..126)), b OCTET STRING (SIZE(0..128)) }')),
    dict(id='additions-fixed-seqof', quick=True, nbytes_cap=5, text=M(
        'A ::= SEQUENCE { a BOOLEAN, ..., e SEQUENCE (SIZE(3)) OF BOOLEAN OPTIONAL, g SEQUENCE (SIZE(2)) OF INTEGER (0..300) }')),
    dict(id='seqof-fixed', quick=False, text=M(
        'A ::= SEQUENCE { a SEQUENCE (SIZE(3)) OF INTEGER (0..255), b OCTET STRING (SIZE(0..4)) DEFAULT \'AA\'H }')),
    # DESIGN C10: quantity field of one vs two octets (beyond the 4-element array bound, E/D only)
    dict(id='seqof-255', quick=False, queries=('E',), text=M('A ::= SEQUENCE { a SEQUENCE (SIZE(255)) OF INTEGER (0..255) }')),
    dict(id='seqof-256', quick=False, queries=('E',), text=M('A ::= SEQUENCE { a SEQUENCE (SIZE(256)) OF INTEGER (0..255) }')),
    dict(id='choice-tags', quick=True, text=M(
        'A ::= CHOICE { a [0] BOOLEAN, b [62] INTEGER (0..255), c [63] INTEGER (0..255), d [APPLICATION 5] NULL, '
        'e [PRIVATE 200] BOOLEAN }')),
]
# the C09 list is written in ASN.1 only; everything in it is inside the OER subset as well
TEMPLATES = [dict(t, quick=t['id'] in ('basic', 'octets', 'seq-opt', 'choice', 'bits', 'bits-33-56')) for t in base.HAND] + \
    OER_ONLY + base.generated_templates('oer')

REJECT = [t for t in base.REJECT if t['id'] not in ('real', 'seq-additions')] + [
    dict(id='real-unconstrained', text=M('A ::= SEQUENCE { a REAL, b BOOLEAN }')),
    dict(id='real-base10', text=M('A ::= SEQUENCE { a REAL (WITH COMPONENTS { mantissa (-99..99), base (10), '
                                  'exponent (-5..5) }) }')),
    dict(id='enum-64bit', text=M('A ::= SEQUENCE { a ENUMERATED { x(0), y(4294967296) } }')),
]
QUICK_REJECT = {'int-unbounded', 'octets-unbounded', 'real-unconstrained', 'seq-addition-group', 'choice-ext',
                'enum-ext', 'int-ext'}

# V1 decoder on V2 bytes (pairs in the style of C07.PAIRS, restricted to SEQUENCE additions, the only
# extension form the generated OER struct can represent).  The extended node X is followed by `tail`.
TAIL = 'A ::= SEQUENCE { x X, tail INTEGER (0..255) }\n'
PAIRS = {
    'seq-add': (TAIL + 'X ::= SEQUENCE { a BOOLEAN, ... }',
                TAIL + 'X ::= SEQUENCE { a BOOLEAN, ..., b INTEGER (0..300) }'),
    'seq-add-more': (TAIL + 'X ::= SEQUENCE { a BOOLEAN, ..., b INTEGER (0..300) }',
                     TAIL + 'X ::= SEQUENCE { a BOOLEAN, ..., b INTEGER (0..300), c BOOLEAN, '
                            'd OCTET STRING (SIZE(0..2)), e NULL }'),
    'seq-add-opt-root': (TAIL + 'X ::= SEQUENCE { a BOOLEAN OPTIONAL, r INTEGER (0..7) DEFAULT 3, ... }',
                         TAIL + 'X ::= SEQUENCE { a BOOLEAN OPTIONAL, r INTEGER (0..7) DEFAULT 3, ..., '
                                'b SEQUENCE (SIZE(0..2)) OF INTEGER (0..7) }'),
    'nested-add': (TAIL + 'X ::= SEQUENCE { a BOOLEAN, ..., n N }\nN ::= SEQUENCE { u INTEGER (0..7), ... }',
                   TAIL + 'X ::= SEQUENCE { a BOOLEAN, ..., n N, m INTEGER (0..7) }\n'
                          'N ::= SEQUENCE { u INTEGER (0..7), ..., w BOOLEAN }'),
    'list-of-extended': ('A ::= SEQUENCE { l SEQUENCE (SIZE(0..2)) OF X, tail INTEGER (0..255) }\n'
                         'X ::= SEQUENCE { a BOOLEAN, ... }',
                         'A ::= SEQUENCE { l SEQUENCE (SIZE(0..2)) OF X, tail INTEGER (0..255) }\n'
                         'X ::= SEQUENCE { a BOOLEAN, ..., b INTEGER (0..300) }'),
    'add-9': (TAIL + 'X ::= SEQUENCE { a BOOLEAN, ..., b1 BOOLEAN }',
              TAIL + 'X ::= SEQUENCE { a BOOLEAN, ..., b1 BOOLEAN, b2 BOOLEAN, b3 BOOLEAN, b4 BOOLEAN, b5 BOOLEAN, '
                     'b6 BOOLEAN, b7 BOOLEAN, b8 BOOLEAN, b9 INTEGER (0..255), b10 BOOLEAN }'),
}
QUICK_PAIRS = ('seq-add', 'seq-add-more', 'nested-add')

KERNEL_TEXT = M('A ::= SEQUENCE { a BOOLEAN, ..., b OCTET STRING (SIZE(0..300)), c ENUMERATED { x(-70000), y(70000) }, '
                'd SEQUENCE (SIZE(0..300)) OF BOOLEAN }')
KERNELS = ('length-determinant', 'length-determinant-static', 'minimum-uint-length', 'enumerated-value-length',
           'append-uint', 'append-int')


def jobs_for(tier):
    jobs = base.jobs_for(tier, CODEC, TEMPLATES, REJECT, QUICK_REJECT)
    for p in PAIRS:
        if tier == 'quick' and p not in QUICK_PAIRS:
            continue
        jobs.append(dict(id='oer/v1-on-v2/%s' % p, template='pair:' + p, pair=p, type='A', query='V', tier=tier,
                         codec=CODEC, expect='accept', nbytes=0, numeric_enums=False))
    for k in KERNELS:
        jobs.append(dict(id='oer/kernel/%s' % k, template='kernel', kernel=k, type='A', query='K', tier=tier,
                         codec=CODEC, expect='accept', nbytes=0, numeric_enums=False))
    return jobs


# ---------------------------------------------------------------------------
# V: V1 generated decoder on V2 bytes
# ---------------------------------------------------------------------------
_PAIRSETUP = {}


def make_pair_harness(job):
    t1, t2 = (M(x) for x in PAIRS[job['pair']])
    key = job['id']
    if key not in _PAIRSETUP:
        u1 = cgen.Unit(t1, CODEC, NS)
        u2 = cgen.Unit(t2, CODEC, NS, native=False)
        cj2 = Compiled(dict(job, template=job['pair']), Bounds(), text=t2,
                       tpl=dict(id=job['pair'], text=t2, type='A', module='T'))
        _PAIRSETUP.clear()
        _PAIRSETUP[key] = (u1, u2, cj2)
    u1, u2, cj2 = _PAIRSETUP[key]
    c1, c2 = u1.cname('T', 'A'), u2.cname('T', 'A')
    td1, td2 = u1.parsed['T']['types']['A'], u2.parsed['T']['types']['A']

    def harness(ctx):
        u1.prog.reset()
        u2.prog.reset()
        cj2.cands.attach(ctx)
        m2 = Mapper(u2, ctx)
        src = u2.prog.alloc(u2.prog.structs[c2 + '_t'], 's')
        ctx.describe = lambda m: dict(struct=cgen.describe(src, m), image=cgen.image(src, m).hex())
        m2.fill(src, td2, 'T', 's', additions=True)
        with shimmed(C.CODEC_MODS):
            v = m2.to_python(src, td2, 'T')
            enc = cj2.ct.encode(v)
        n = len(enc)
        m = ctx.eng.get_model()
        cv = concretize(v, m)
        want = enc.concrete(m) if isinstance(enc, SymBytes) else bytes(enc)
        with unshimmed():
            got = bytes(cj2.spec.encode('A', cv))
        if got != want:
            raise HarnessError('xval (pyfront) mismatch %r: symbolic %s concrete %s' % (cv, want.hex(), got.hex()))
        ctx.sample({'job': job['id'], 'v2_value': jsonable(cv), 'v2_bytes': got.hex()})
        buf = u1.prog.buffer(n, name='src')
        cells = enc.c if isinstance(enc, SymBytes) else [z3.BitVecVal(b, 8) for b in enc]
        for c, b in zip(buf.e, cells):
            c.val = b
        dst = u1.prog.alloc(u1.prog.structs[c1 + '_t'], 'd')
        try:
            r = u1.prog.call(c1 + '_decode', [Ptr(dst), Ptr(buf, 0), ival(U64, n)])
        except UB as e:
            ctx.violation('v1-decode-ub-%s' % e.kind, str(e))
            return
        rn, raw = u1.native.decode(c1, got, u1.prog.structs[c1 + '_t'].size())
        if rn != m.eval(r.e, model_completion=True).as_signed_long():
            raise HarnessError('xval (cfront) V1 decode(%s): interpreter %s, compiled %d' % (got.hex(), r, rn))
        bad = cgen.written_mismatch(dst, raw, m) if not u1.prog.undef_names else None
        if bad:
            raise HarnessError('xval (cfront) V1 decode(%s): %s' % (got.hex(), bad))
        ctx.res.xval += 1
        if not ctx.prove('v1-decoder-consumes-v2-encoding', r.e == n, info='V2 encoding has %d bytes' % n):
            return
        m1 = Mapper(u1, ctx)
        cond = m1.compare(src, dst, td1, 'T')     # V1 view: members are looked up by name in both structs
        if ctx.prove('v1-decoder-recovers-v1-fields', cond, info=base._missing(m1)):
            ctx.note('v1-on-v2-proved')
    return harness


def replay_pair(v):
    job = v['job']
    t1, t2 = (M(x) for x in PAIRS[job['pair']])
    u1 = cgen.Unit(t1, CODEC, NS, native=False)
    u2 = cgen.Unit(t2, CODEC, NS, native=False)
    c1, c2 = u1.cname('T', 'A'), u2.cname('T', 'A')
    td1, td2 = u1.parsed['T']['types']['A'], u2.parsed['T']['types']['A']
    inp = v['witness'].get('inputs') or {}
    m2 = Mapper(u2)
    m2.concrete = True
    src = u2.prog.alloc(u2.prog.structs[c2 + '_t'], 's')
    m2.load(src, td2, 'T', bytes.fromhex(inp['image']))
    value = m2.to_python(src, td2, 'T')
    data = bytes(asn1tools.compile_string(t2, CODEC).encode('A', value))
    r = cgen.sanitized_run(u1.header, u1.source, NS, c1, ['D', data.hex()])
    if r['rc'] is None:
        return False, r['err']
    if r['rc'] != 0:
        return True, 'V2 value %r -> %s; V1 decoder under ASan/UBSan: %s' % (value, data.hex(), r['err'][-600:])
    o = r['out']
    if int(o.get('ret', -1)) != len(data):
        return True, 'V2 value %r -> %s (%d bytes); V1 generated decoder returns %s' % (value, data.hex(), len(data), o.get('ret'))
    dst = u1.prog.alloc(u1.prog.structs[c1 + '_t'], 'd')
    m1 = Mapper(u1)
    m1.load(dst, td1, 'T', bytes.fromhex(o['struct']))
    if not z3.is_true(z3.simplify(m1.compare(src, dst, td1, 'T'))):
        return True, 'V2 value %r -> %s; V1 generated decoder gives %s' % (value, data.hex(), cgen.describe(dst, None))
    return False, 'V1 decoder recovers the V1 fields of %r' % (value,)


# ---------------------------------------------------------------------------
# K: helper kernels over full domains
# ---------------------------------------------------------------------------
_KSETUP = {}


def make_kernel_harness(job):
    if 'u' not in _KSETUP:
        _KSETUP['u'] = cgen.Unit(KERNEL_TEXT, CODEC, NS, native=False)
    u = _KSETUP['u']
    prog = u.prog
    k = job['kernel']
    from asn1tools.source.c import oer as goer
    from asn1tools.codecs import oer as poer

    def encoder(cap):
        enc = prog.alloc(prog.structs['encoder_t'], 'enc')
        buf = prog.buffer(cap, name='out')
        prog.call('encoder_init', [Ptr(enc), Ptr(buf, 0), ival(U64, cap)])
        return enc, buf

    def written(ctx, enc, buf):
        n = ctx.eng.concretize(enc.f['pos'].val, signed=True)
        return n, [c.val for c in buf.e[:max(n, 0)]]

    def harness(ctx):
        prog.reset()
        x = ctx.bv('n', 32)
        ctx.describe = lambda m: {'n': m.eval(x, model_completion=True).as_long()}
        sx = pyfront.unsigned(x)
        try:
            if k in ('length-determinant', 'length-determinant-static'):
                enc, buf = encoder(8)
                prog.call('encoder_append_length_determinant', [Ptr(enc), cfront.Val(U32, x)])
                n, cells = written(ctx, enc, buf)
                with shimmed(C.CODEC_MODS):
                    if k == 'length-determinant':
                        pe = poer.Encoder()
                        pe.append_length_determinant(sx)
                        want = pe.as_bytearray()
                        if len(want) != n:
                            ctx.violation('length-determinant-size', 'C writes %d octets, Python %d' % (n, len(want)))
                            return
                        ctx.prove('length-determinant-bytes-equal-python',
                                  z3.And([a == b for a, b in zip(cells, want.c)]))
                    else:
                        g = goer.get_length_determinant_length(sx)
                        g = int(g) if not isinstance(g, int) else g
                        if g != n:
                            ctx.violation('static-length-determinant-length',
                                          'generator computes %d octets, emitted encoder writes %d' % (g, n))
                            return
                        ctx.res.proved += 1
                # the emitted length_determinant_length() helper agrees with what is written
                r = prog.call('length_determinant_length', [cfront.Val(U32, x)])
                ctx.prove('length-determinant-length-helper', r.e == n)
            elif k == 'minimum-uint-length':
                r = prog.call('minimum_uint_length', [cfront.Val(U32, x)])
                nb = ctx.eng.concretize(r.e, signed=False)
                ctx.prove('minimum-uint-length', z3.And(z3.ULT(z3.ZeroExt(8, x), z3.BitVecVal(1, 40) << (8 * nb)),
                                                        z3.BoolVal(nb == 1) if nb == 1 else
                                                        z3.UGE(z3.ZeroExt(8, x), z3.BitVecVal(1, 40) << (8 * (nb - 1)))))
            elif k == 'enumerated-value-length':
                r = prog.call('enumerated_value_length', [cfront.Val(I32, x)])
                nb = ctx.eng.concretize(r.e, signed=False)
                with shimmed(C.CODEC_MODS):
                    v = pyfront.mkint(x, -(1 << 31), (1 << 31) - 1)
                    if 0 <= v <= 127:
                        want = 0            # short form: the value itself in one octet
                    else:
                        pe = poer.Encoder()
                        pe.append_integer(v)    # what oer.Enumerated.encode uses for the long form
                        want = len(pe.as_bytearray()) - 1
                if want != nb:
                    ctx.violation('enumerated-value-length', 'C helper says %d octets, Python OER writes %d' % (nb, want))
                    return
                ctx.res.proved += 1
            elif k in ('append-uint', 'append-int'):
                nb = 1 + ctx.choose('octets', 4)
                enc, buf = encoder(4)
                if k == 'append-uint':
                    ctx.eng.assume(z3.ULT(z3.ZeroExt(8, x), z3.BitVecVal(1, 40) << (8 * nb)))
                    prog.call('encoder_append_uint', [Ptr(enc), cfront.Val(U32, x), ival(cfront.U8, nb)])
                    want = [z3.Extract(8 * i + 7, 8 * i, x) for i in reversed(range(nb))]
                else:
                    sv = z3.SignExt(8, x)
                    ctx.eng.assume(z3.And(sv >= -(1 << (8 * nb - 1)), sv < (1 << (8 * nb - 1))))
                    prog.call('encoder_append_int', [Ptr(enc), cfront.Val(I32, x), ival(cfront.U8, nb)])
                    want = [z3.Extract(8 * i + 7, 8 * i, x) for i in reversed(range(nb))]
                n, cells = written(ctx, enc, buf)
                if n != nb:
                    ctx.violation(k + '-size', 'writes %d octets for a %d-octet request' % (n, nb))
                    return
                if not ctx.prove(k + '-big-endian', z3.And([a == b for a, b in zip(cells, want)])):
                    return
                # and the matching reader gives the value back
                dec = prog.alloc(prog.structs['decoder_t'], 'dec')
                prog.call('decoder_init', [Ptr(dec), Ptr(buf, 0), ival(U64, nb)])
                r = prog.call('decoder_read_uint' if k == 'append-uint' else 'decoder_read_int',
                              [Ptr(dec), ival(cfront.U8, nb)])
                ctx.prove(k + '-read-back', r.e == x)
            else:
                raise HarnessError('unknown kernel %s' % k)
        except UB as e:
            ctx.violation('kernel-ub-%s' % e.kind, str(e))
            return
        ctx.note('kernel-proved')
    return harness


def replay_kernel(v):
    job = v['job']
    n = (v['witness'].get('inputs') or {}).get('n')
    if n is None:
        return False, 'no witness'
    from asn1tools.source.c import oer as goer
    from asn1tools.codecs import oer as poer
    if job['kernel'] == 'length-determinant-static':
        pe = poer.Encoder()
        pe.append_length_determinant(n)
        real = len(pe.as_bytearray())
        g = goer.get_length_determinant_length(n)
        if g != real:
            return True, ('asn1tools.source.c.oer.get_length_determinant_length(%d) = %d but a length determinant of %d '
                          'takes %d octets (Python OER encoder and emitted encoder_append_length_determinant); the '
                          'static addition length prefixes of a nested extensible SEQUENCE of that size are off by %d'
                          % (n, g, n, real, g - real))
        return False, 'static length agrees for %d' % n
    return False, 'kernel witness n=%d needs the interpreter; not reproducible on compiled code alone' % n


# ---------------------------------------------------------------------------
def make_harness(job):
    if job['query'] == 'V':
        return make_pair_harness(job)
    if job['query'] == 'K':
        return make_kernel_harness(job)
    return base.make_harness(job, TEMPLATES, REJECT)


def replay(v):
    q = v['job']['query']
    if q == 'V':
        return replay_pair(v)
    if q == 'K':
        return replay_kernel(v)
    return base.replay(v, TEMPLATES, REJECT)


def texts(job):
    if job['query'] == 'V':
        return [M(x) for x in PAIRS[job['pair']]]
    if job['query'] == 'K':
        return [KERNEL_TEXT]
    return base._texts(job, TEMPLATES, REJECT)


def main(argv=None):
    return base.main(argv, prop=PROP, modname='checks.C10', codec=CODEC, jobs_fn=jobs_for, replay_fn=replay,
                     texts_fn=texts,
                     extra_outside=['CHOICE/ENUMERATED extension additions (not representable in the generated '
                                    'struct)', 'V1-on-V2 pairs other than SEQUENCE additions'])


if __name__ == '__main__':
    sys.exit(main())
