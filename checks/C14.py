"""C14 -- parsing depends only on the token sequence: the comment pre-pass on symbolic text,
and multi-word keywords with solver-chosen separators."""
import sys
import os
sys.path.insert(0, os.path.dirname(os.path.dirname(os.path.abspath(__file__))))
import ast
import inspect
import json
import re as _re
import z3

from lib import codec as C
from lib.codec import asn1tools
from lib import runner
import asn1tools.parser as P
from pyparsing import ParseSyntaxException
from symcore import Engine, E, HarnessError, Inconclusive
from pyfront import rx

PROP = 'C14'
ALPHA = '-/*\n"x '
BASE = 0xE000


# ---- regex shim: alternation-of-literals / single character class on placeholder text -----------
def _chvar(sc):
    return E().registry['c14chars'][ord(sc) - BASE]


def _is(sc, c):
    """z3 Bool: text character sc (placeholder or concrete) is the character c"""
    if ord(sc) >= BASE:
        return _chvar(sc) == ord(c)
    return z3.BoolVal(sc == c)


class _Compiled:
    def __init__(self, pattern, flags=0):
        self.pattern, self.flags = pattern, flags

    def finditer(self, string):
        return ReShim.finditer(self.pattern, string, self.flags)

    def sub(self, repl, string, count=0):
        return ReShim.sub(self.pattern, repl, string, count, self.flags)


class ReShim:
    """the part of `re` that parser.ignore_comments uses, on placeholder text: the CURRENT pattern is
    parsed by CPython's regex parser and matched by pyfront.rx with one solver decision per
    character test"""
    error = _re.error

    @staticmethod
    def _expr(sc):
        return _chvar(sc) if ord(sc) >= BASE else None

    @staticmethod
    def finditer(pattern, string, flags=0):
        return iter(rx.finditer(pattern, string, ReShim._expr, 8, flags))

    @staticmethod
    def sub(pattern, repl, string, count=0, flags=0):
        return rx.sub(pattern, repl, string, ReShim._expr, 8, count, flags)

    @staticmethod
    def compile(pattern, flags=0):
        return _Compiled(pattern, flags)

    @staticmethod
    def escape(s):
        return _re.escape(s)


def text_guard():
    """static guard, re-derived on every run: ignore_comments may use its text only through
    slicing, len, re.finditer / re.sub (shimmed) and as an exception argument; anything else would
    inspect placeholder characters natively"""
    src = inspect.getsource(P.ignore_comments)
    tree = ast.parse(src)
    fn = tree.body[0]
    arg = fn.args.args[0].arg
    parents = {}
    for node in ast.walk(fn):
        for ch in ast.iter_child_nodes(node):
            parents[ch] = node
    for node in ast.walk(fn):
        if isinstance(node, ast.Name) and node.id == arg and isinstance(node.ctx, ast.Load):
            p = parents[node]
            if isinstance(p, ast.Subscript) and p.value is node:
                # the slice itself may only flow into join / re.sub / append
                continue
            if isinstance(p, ast.Call):
                f = p.func
                name = f.attr if isinstance(f, ast.Attribute) else getattr(f, 'id', '')
                if name in ('finditer', 'sub', 'len', 'ParseSyntaxException'):
                    continue
            return 'text used by %s at line %d' % (type(p).__name__, node.lineno)
    for node in ast.walk(fn):
        if isinstance(node, ast.Call) and isinstance(node.func, ast.Attribute):
            if node.func.attr in ('replace', 'find', 'index', 'split', 'strip', 'startswith', 'endswith', 'count',
                                  'partition', 'splitlines', 'translate'):
                return 'text method .%s() at line %d' % (node.func.attr, node.lineno)
    return None


# ---- independent lexer (X.680 12.6 comments, 12.14 cstring) on symbolic text ----------------------
def ref_lex(s):
    """per position 'keep' / 'blank', or None when the text ends inside a comment"""
    eng = E()
    n = len(s)

    def is_(i, c):
        return i < n and eng.branch(_is(s[i], c))
    kinds = ['keep'] * n
    i = 0
    while i < n:
        if is_(i, '"'):
            j = i + 1
            while j < n:
                if is_(j, '"'):
                    if is_(j + 1, '"'):
                        j += 2
                        continue
                    break
                j += 1
            i = j + 1
        elif is_(i, '-') and is_(i + 1, '-'):
            j = i + 2
            while True:
                if j >= n:
                    return None
                if is_(j, '-') and is_(j + 1, '-'):
                    j += 2
                    break
                if is_(j, '\n'):
                    break
                j += 1
            for k in range(i, j):
                kinds[k] = 'blank'
            i = j
        elif is_(i, '/') and is_(i + 1, '*'):
            depth, j = 1, i + 2
            while depth > 0:
                if j >= n:
                    return None
                if is_(j, '/') and is_(j + 1, '*'):
                    depth += 1
                    j += 2
                elif is_(j, '*') and is_(j + 1, '/'):
                    depth -= 1
                    j += 2
                else:
                    j += 1
            for k in range(i, j):
                kinds[k] = 'blank'
            i = j
        elif is_(i, '*') and is_(i + 1, '/'):
            return 'stray'
        else:
            i += 1
    return kinds


FIXTURES = {
    'OCTET STRING': 'A ::= OCTET STRING', 'BIT STRING': 'A ::= BIT STRING',
    'OBJECT IDENTIFIER': 'A ::= OBJECT IDENTIFIER', 'COMPONENTS OF': 'A ::= SEQUENCE { COMPONENTS OF B }\nB ::= SEQUENCE { a BOOLEAN }',
    'WITH COMPONENTS': 'A ::= B (WITH COMPONENTS { a (0..1) })\nB ::= SEQUENCE { a INTEGER }',
    'EXTENSIBILITY IMPLIED': None, 'CHARACTER STRING': 'A ::= CHARACTER STRING',
    'ANY DEFINED BY': 'A ::= SEQUENCE { t INTEGER, v ANY DEFINED BY t }',
    'WITH COMPONENT': 'A ::= SEQUENCE OF INTEGER (WITH COMPONENT (0..1))',
}


def keywords():
    src = inspect.getsource(P.create_grammar)
    return sorted(set(_re.findall(r"Keyword\('([A-Z][A-Za-z-]*(?: [A-Z][A-Za-z-]*)+)'\)", src)))


def jobs_for(tier):
    jobs = []
    for n in range(0, (6 if tier == 'quick' else 8) + 1):
        jobs.append(dict(id='comments/len%d' % n, kind='comments', n=n, tier=tier))
    for n in range(0, (4 if tier == 'quick' else 6) + 1):
        jobs.append(dict(id='errorpos/len%d' % n, kind='errorpos', n=n, tier=tier))
    for kw in keywords():
        if FIXTURES.get(kw):
            jobs.append(dict(id='keyword/%s' % kw.replace(' ', '_'), kind='keyword', kw=kw, tier=tier))
    return jobs


def make_harness(job):
    if job['kind'] == 'keyword':
        return make_keyword(job)
    if job['kind'] == 'errorpos':
        return make_errorpos(job)
    n = job['n']
    guard = text_guard()

    def harness(ctx):
        if guard:
            raise Inconclusive('ignore_comments inspects its text natively: ' + guard)
        chars = [ctx.bv('c%d' % i, 8) for i in range(n)]
        ctx.eng.registry['c14chars'] = chars
        for c in chars:
            ctx.eng.assume(z3.Or([c == ord(a) for a in ALPHA]))
        s = ''.join(chr(BASE + i) for i in range(n))

        def text(m):
            return ''.join(chr(m.eval(c, model_completion=True).as_long()) for c in chars)
        ctx.describe = lambda m: {'text': text(m)}
        old = P.re
        P.re = ReShim
        try:
            try:
                out = P.ignore_comments(s)
                rejected = False
            except ParseSyntaxException:
                rejected = True
        finally:
            P.re = old
        kinds = ref_lex(s)
        if kinds == 'stray':
            ctx.note('stray-*/-outside-comment(excluded: rejected by the grammar either way)')
            return
        # cross-validation on the path's model with the real regex engine
        m = ctx.eng.get_model()
        t = text(m)
        try:
            real = P.ignore_comments(t)
        except ParseSyntaxException:
            real = None
        if (real is None) != rejected:
            raise HarnessError('xval: %r symbolic rejected=%s, concrete %r' % (t, rejected, real))
        if real is not None:
            sym = ''.join(t[ord(ch) - BASE] if ord(ch) >= BASE else ch for ch in out)
            if sym != real:
                raise HarnessError('xval: %r symbolic output %r, concrete %r' % (t, sym, real))
        ctx.res.xval += 1
        ctx.sample({'job': job['id'], 'text': t, 'ignore_comments': real})
        if rejected != (kinds is None):
            ctx.violation('accept/reject differs from X.680', 'library %s, lexer %s' % (
                'rejects' if rejected else 'accepts', 'unterminated comment' if kinds is None else 'complete'))
            return
        if rejected:
            ctx.res.proved += 1
            return
        if len(out) != n:
            ctx.violation('text-length-changed', '%d -> %d (columns/lines shift)' % (n, len(out)))
            return
        for i in range(n):
            o = out[i]
            if kinds[i] == 'keep':
                if o != s[i]:
                    ctx.violation('non-comment-character-changed', 'position %d' % i)
                    return
            else:
                isnl = ctx.eng.branch(chars[i] == 10)
                if isnl and o != s[i] and o != '\n':
                    ctx.violation('newline-inside-comment-lost', 'position %d' % i)
                    return
                if not isnl and o != ' ':
                    ctx.violation('comment-character-kept', 'position %d' % i)
                    return
        ctx.res.proved += 1
    return harness


# ---- error position mapping: parse_string's except branch on symbolic layout ------------------------
HEAD = 'A DEFINITIONS ::= BEGIN '
TAIL = ' END\n'
ALPHA_E = '\t\n -/*x'


class _NoOffendingItem(Exception):
    pass


def _sym_is(sc, c):
    """python bool: text character sc is c (solver decision for a placeholder)"""
    if ord(sc) >= BASE:
        return E().branch(_chvar(sc) == ord(c))
    return sc == c


class StubParseException(ParseSyntaxException):
    """pyparsing's exception with its position properties (lineno, col, line: functions of pstr
    and loc, pyparsing.util) evaluated on placeholder text: '\n' tests are solver decisions"""

    def __init__(self, pstr, loc, msg):
        Exception.__init__(self)
        self.pstr, self.loc, self.msg = pstr, loc, msg
        self.parser_element = self.parserElement = None
        self.args = (pstr, loc, msg)

    def _last_nl(self):
        s, loc = self.pstr, self.loc
        for i in range(min(loc, len(s)) - 1, -1, -1):
            if _sym_is(s[i], '\n'):
                return i
        return -1

    @property
    def lineno(self):
        s, loc = self.pstr, self.loc
        return 1 + sum(1 for i in range(min(loc, len(s))) if _sym_is(s[i], '\n'))

    @property
    def col(self):
        return self.loc - self._last_nl()

    column = col

    @property
    def line(self):
        s = self.pstr
        a = self._last_nl() + 1
        b = len(s)
        for i in range(self.loc, len(s)):
            if _sym_is(s[i], '\n'):
                b = i
                break
        return s[a:b]

    def markInputline(self, marker_string='>!<'):
        line_str = self.line
        line_column = self.column - 1
        if marker_string:
            line_str = ''.join((line_str[:line_column], marker_string, line_str[line_column:]))
        return line_str.strip() if not any(ord(ch) >= BASE for ch in line_str) else line_str

    mark_input_line = markInputline

    def __str__(self):
        return self.msg


class StubGrammar:
    """pyparsing's parseString contract as far as parse_string depends on it: the text is
    tab-expanded first (parse_with_tabs is off), the exception carries the expanded text and the
    offset of the offending item in it.  The offending item is the '!' of the harness text."""

    def parseString(self, string, parseAll=False):
        out = []
        colno = 0
        for ch in string:
            if _sym_is(ch, '\t'):
                k = 8 - colno % 8
                out.append(' ' * k)
                colno += k
            elif _sym_is(ch, '\n'):
                out.append(ch)
                colno = 0
            else:
                out.append(ch)
                colno += 1
        expanded = ''.join(out)
        loc = expanded.find('!')
        if loc < 0:
            raise _NoOffendingItem()
        raise StubParseException(expanded, loc, "Expected END")

    parse_string = parseString


def make_errorpos(job):
    n = job['n']
    guard = text_guard()

    def harness(ctx):
        if guard:
            raise Inconclusive('ignore_comments inspects its text natively: ' + guard)
        chars = [ctx.bv('c%d' % i, 8) for i in range(n)]
        ctx.eng.registry['c14chars'] = chars
        for c in chars:
            ctx.eng.assume(z3.Or([c == ord(a) for a in ALPHA_E]))
        prefix = ''.join(chr(BASE + i) for i in range(n))
        s = HEAD + prefix + '!' + TAIL

        def text(m):
            return HEAD + ''.join(chr(m.eval(c, model_completion=True).as_long()) for c in chars) + '!' + TAIL
        ctx.describe = lambda m: {'text': text(m)}
        kinds = ref_lex(s)
        if kinds is None or kinds == 'stray':
            ctx.note('layout-is-not-well-formed(unterminated comment / stray */): other harness')
            return
        bang = len(HEAD) + n
        # only layout between the module header and the offending item
        for i in range(len(HEAD), bang):
            if kinds[i] == 'keep' and not (_sym_is(s[i], ' ') or _sym_is(s[i], '\t') or _sym_is(s[i], '\n')):
                ctx.note('prefix-holds-an-earlier-item')
                return
        if kinds[bang] != 'keep':
            ctx.note('offending-item-inside-a-comment')
            return
        want = 1 + sum(1 for i in range(len(HEAD), bang) if _sym_is(s[i], '\n'))
        old = (P.re, P.create_grammar)
        P.re, P.create_grammar = ReShim, (lambda: StubGrammar())
        try:
            try:
                P.parse_string(s)
                msg = None
            except P.ParseError as e:
                msg = str(e)
            except _NoOffendingItem:
                msg = ''
        finally:
            P.re, P.create_grammar = old
        m = ctx.eng.get_model()
        t = text(m)
        try:
            asn1tools.parse_string(t)
            real = None
        except asn1tools.ParseError as e:
            real = str(e)
        ctx.res.xval += 1
        mm = _re.search(r'line\s+(\d+)', msg or '')
        rm = _re.search(r'line\s+(\d+)', real or '')
        if not mm:
            ctx.violation('offending-item-not-reported', 'symbolic run: %r' % (msg,))
            return
        got = int(mm.group(1))
        if got != want:
            ctx.violation('error-line-differs-from-original-text', 'reported line %d, the item is on line %d' % (got, want))
            return
        if rm is None or int(rm.group(1)) != want:
            ctx.violation('error-line-differs-from-original-text(real grammar)',
                          'real parse_string reports %r, the item is on line %d' % (real, want))
            return
        ctx.res.proved += 1
        ctx.sample({'job': job['id'], 'text': t, 'error': real})
    return harness


def make_keyword(job):
    kw = job['kw']
    words = kw.split(' ')

    def harness(ctx):
        # separator chosen by the solver: white-space (X.680 12.1.2) of length 1..3 other than ' '
        k = 1 + ctx.choose('seplen', 3)
        sep = [ctx.bv('sep%d' % i, 8) for i in range(k)]
        for c in sep:
            ctx.eng.assume(z3.Or(c == 32, c == 9, c == 10))
        if k == 1:
            ctx.eng.assume(sep[0] != 32)
        vals = [ctx.eng.concretize(c, signed=False) for c in sep]
        sepstr = ''.join(chr(v) for v in vals)
        ctx.describe = lambda m: {'keyword': kw, 'separator': sepstr}
        body = FIXTURES[kw]
        t0 = 'T DEFINITIONS ::= BEGIN\n%s\nEND' % body
        t1 = 'T DEFINITIONS ::= BEGIN\n%s\nEND' % body.replace(kw, sepstr.join(words))
        want = asn1tools.parse_string(t0)
        try:
            got = asn1tools.parse_string(t1)
        except Exception as e:
            ctx.violation('keyword-separator-rejected', '%r with separator %r: %s' % (kw, sepstr, str(e)[:60]))
            return
        if got != want:
            ctx.violation('keyword-separator-changes-result', '%r with separator %r' % (kw, sepstr))
            return
        ctx.res.proved += 1
        ctx.res.xval += 1
        ctx.sample({'job': job['id'], 'separator': sepstr})
    return harness


def replay(v):
    job = v['job']
    inp = v['witness']['inputs']
    if job['kind'] == 'keyword':
        kw, sep = inp['keyword'], inp['separator']
        body = FIXTURES[kw]
        t0 = 'T DEFINITIONS ::= BEGIN\n%s\nEND' % body
        t1 = 'T DEFINITIONS ::= BEGIN\n%s\nEND' % body.replace(kw, sep.join(kw.split(' ')))
        want = asn1tools.parse_string(t0)
        try:
            got = asn1tools.parse_string(t1)
        except Exception as e:
            return True, '%r written with separator %r is rejected: %s' % (kw, sep, str(e)[:80])
        return got != want, '%r with separator %r parses differently' % (kw, sep)
    t = inp['text']
    if job['kind'] == 'errorpos':
        bang = t.index('!', len(HEAD))
        want = 1 + t.count('\n', 0, bang)
        try:
            asn1tools.parse_string(t)
            return True, 'text %r is accepted' % t
        except asn1tools.ParseError as e:
            mm = _re.search(r'line\s+(\d+)', str(e))
            if not mm:
                return True, 'text %r: error without position: %s' % (t, e)
            if int(mm.group(1)) != want:
                return True, 'text %r: error reported at line %s, the offending item is on line %d (%s)' % (
                    t, mm.group(1), want, str(e)[:80])
            return False, 'line %d reported correctly' % want
    try:
        out = P.ignore_comments(t)
    except ParseSyntaxException:
        out = None
    eng = Engine()
    Engine.cur = eng
    try:
        kinds = ref_lex(t)
    finally:
        Engine.cur = None
    if kinds == 'stray':
        return False, 'excluded text'
    if (out is None) != (kinds is None):
        return True, 'text %r: library %s, X.680 lexer %s' % (t, 'rejects' if out is None else 'accepts',
                                                              'rejects' if kinds is None else 'accepts')
    if out is None:
        return False, 'both reject'
    want = ''.join(c if k == 'keep' or c == '\n' else ' ' for c, k in zip(t, kinds))
    return out != want, 'text %r: ignore_comments gives %r, X.680 lexer gives %r' % (t, out, want)


def main(argv=None):
    a = runner.std_args(argv)
    if a.replay:
        return runner.cli_replay(PROP, 'checks.C14', replay, a.replay)
    jobs = jobs_for(a.tier)
    if a.only:
        jobs = [j for j in jobs if a.only in j['id']]
    return runner.run_check(
        PROP, 'checks.C14', jobs, a.tier, a.seed, replay=replay, nproc=a.nproc,
        functions=['asn1tools.parser.ignore_comments', 'asn1tools.parser.parse_string (keyword replays)'],
        bounds=dict(text='every text of length 0..%d over the alphabet %r (fully symbolic characters)'
                         % (max(j.get('n', 0) for j in jobs), ALPHA),
                    keywords=keywords(), separators='white-space of 1..3 characters from {space, tab, newline}, != " "'),
        assumptions=['texts with a stray */ outside any comment are excluded (rejected by the grammar either way)',
                     'static guard: ignore_comments touches its text only by slicing/len/re.finditer/re.sub'],
        stubs=['parser.re replaced by a matcher for alternation-of-literal patterns that forks on character equality; '
               'characters are private-use placeholders inside a genuine str'],
        outside=['token-level layout invariance of the full pyparsing grammar (regex/packrat internals are not encodable); '
                 'comments between the words of a multi-word keyword'])


if __name__ == '__main__':
    sys.exit(main())
