"""C07 -- extension additions keep old and new versions of a type interoperable."""
import sys
import os
sys.path.insert(0, os.path.dirname(os.path.dirname(os.path.abspath(__file__))))
import json
import z3

from lib import codec as C
from lib.codec import asn1tools
from lib import runner
from lib.symvalue import (Gen, Equiv, Bounds, Mismatch, concretize, jsonable, unjson, members_of, enum_items,
                          Spec)
import pyfront
from pyfront import shimmed, unshimmed, SymBytes
from symcore import HarnessError, Engine

PROP = 'C07'


def M(body):
    return 'T DEFINITIONS AUTOMATIC TAGS ::= BEGIN\n%s\nEND\n' % body


TAIL = 'A ::= SEQUENCE { x X, tail INTEGER (0..255) }\n'
PAIRS = {
    # the extended node X is always followed by a non-extension component (tail) so that
    # re-synchronisation after the skipped additions is observable
    'seq-add': (TAIL + 'X ::= SEQUENCE { a BOOLEAN, ... }',
                TAIL + 'X ::= SEQUENCE { a BOOLEAN, ..., b INTEGER (0..300) }'),
    'seq-add-group': (TAIL + 'X ::= SEQUENCE { a BOOLEAN, ..., b INTEGER (0..300) }',
                      TAIL + 'X ::= SEQUENCE { a BOOLEAN, ..., b INTEGER (0..300), '
                             '[[ c BOOLEAN, d OCTET STRING (SIZE(0..2)) OPTIONAL ]], e NULL }'),
    'seq-add-opt-root': (TAIL + 'X ::= SEQUENCE { a BOOLEAN OPTIONAL, r INTEGER (0..7) DEFAULT 3, ... }',
                         TAIL + 'X ::= SEQUENCE { a BOOLEAN OPTIONAL, r INTEGER (0..7) DEFAULT 3, ..., '
                                'b SEQUENCE (SIZE(0..2)) OF INTEGER (0..7) }'),
    'set-add': (TAIL + 'X ::= SET { a BOOLEAN, b INTEGER (0..7), ... }',
                TAIL + 'X ::= SET { a BOOLEAN, b INTEGER (0..7), ..., c INTEGER (0..300), d BOOLEAN }'),
    'choice-add': (TAIL + 'X ::= CHOICE { p INTEGER (0..7), q BOOLEAN, ... }',
                   TAIL + 'X ::= CHOICE { p INTEGER (0..7), q BOOLEAN, ..., r INTEGER (0..300), '
                          's SEQUENCE { k BOOLEAN } }'),
    'enum-add': (TAIL + 'X ::= ENUMERATED { one, two, ... }',
                 TAIL + 'X ::= ENUMERATED { one, two, ..., three, four }'),
    'nested-add': (TAIL + 'X ::= SEQUENCE { a BOOLEAN, ..., n N }\nN ::= SEQUENCE { u INTEGER (0..7), ... }',
                   TAIL + 'X ::= SEQUENCE { a BOOLEAN, ..., n N, m INTEGER (0..7) }\n'
                          'N ::= SEQUENCE { u INTEGER (0..7), ..., w BOOLEAN }'),
    'list-of-extended': ('A ::= SEQUENCE { l SEQUENCE (SIZE(0..2)) OF X, tail INTEGER (0..255) }\n'
                         'X ::= SEQUENCE { a BOOLEAN, ... }',
                         'A ::= SEQUENCE { l SEQUENCE (SIZE(0..2)) OF X, tail INTEGER (0..255) }\n'
                         'X ::= SEQUENCE { a BOOLEAN, ..., b INTEGER (0..300) }'),
    'ext-int': (TAIL + 'X ::= SEQUENCE { i INTEGER (0..7, ...), ... }',
                TAIL + 'X ::= SEQUENCE { i INTEGER (0..7, ...), ..., j INTEGER (0..7, ...) }'),
}


# COMPONENTS OF takes the ROOT components of the referenced type only (X.680 25.5): when the referenced
# type gains additions, the referencing type does not change
PAIRS['components-of-ext'] = (
    'A ::= SEQUENCE { COMPONENTS OF H, ok BOOLEAN, tail INTEGER (0..255) }\nH ::= SEQUENCE { h INTEGER (0..7), ... }',
    'A ::= SEQUENCE { COMPONENTS OF H, ok BOOLEAN, tail INTEGER (0..255) }\n'
    'H ::= SEQUENCE { h INTEGER (0..7), ..., x INTEGER (0..300), y BOOLEAN OPTIONAL }')
PAIRS['components-of-ext-tail'] = (
    'A ::= SEQUENCE { COMPONENTS OF H, ok BOOLEAN, tail INTEGER (0..255) }\n'
    'H ::= SEQUENCE { h INTEGER (0..7), ..., ..., z BOOLEAN }',
    'A ::= SEQUENCE { COMPONENTS OF H, ok BOOLEAN, tail INTEGER (0..255) }\n'
    'H ::= SEQUENCE { h INTEGER (0..7), ..., x INTEGER (0..300), ..., z BOOLEAN }')


for _L in (127, 128, 129, 256, 520):
    # skipping an unknown addition / alternative whose encoding needs a long-form length
    # (520: two appends, the second one after the PER/UPER encoder has passed its 4096-bit spill point)
    _big = 'OCTET STRING (SIZE (%d))' % _L if _L < 520 else \
        'SEQUENCE { o OCTET STRING (SIZE (%d)), n INTEGER (0..255), p BOOLEAN }' % _L
    PAIRS['seq-add-long-%d' % _L] = (TAIL + 'X ::= SEQUENCE { a BOOLEAN, ... }',
                                     TAIL + 'X ::= SEQUENCE { a BOOLEAN, ..., big %s }' % _big)
    PAIRS['choice-add-long-%d' % _L] = (TAIL + 'X ::= CHOICE { p INTEGER (0..7), ... }',
                                        TAIL + 'X ::= CHOICE { p INTEGER (0..7), ..., big OCTET STRING (SIZE (%d)) }' % _L)
QUICK_LONG = (128, 129, 520)


class Proj:
    """V1 projection of a V2 value, computed from the two parsed dictionaries"""

    def __init__(self, p2, p1):
        self.s2, self.s1 = Spec(p2), Spec(p1)

    def project(self, v, td2, td1, m2='T', m1='T'):
        r2, m2, _ = self.s2.resolve(td2, m2)
        r1, m1, _ = self.s1.resolve(td1, m1)
        t = r1['type']
        if t in ('SEQUENCE', 'SET'):
            mem2 = {m['name']: m for m, _a in members_of(r2)}
            out = {}
            for m, _a in members_of(r1):
                if m['name'] in v:
                    out[m['name']] = self.project(v[m['name']], mem2[m['name']], m, m2, m1)
            return out
        if t == 'CHOICE':
            mem2 = {m['name']: m for m, _a in members_of(r2)}
            for m, _a in members_of(r1):
                if m['name'] == v[0]:
                    return (v[0], self.project(v[1], mem2[v[0]], m, m2, m1))
            return (None, None)
        if t == 'ENUMERATED':
            names = [n for n, _num, _e in enum_items(r1)[0]]
            return v if v in names else None
        if t in ('SEQUENCE OF', 'SET OF'):
            return [self.project(x, r2['element'], r1['element'], m2, m1) for x in v]
        return v


class ProjEquiv(Equiv):
    def _eq(self, o, d, td, module, conds, path):
        if o is None and self.spec.resolve(td, module)[0]['type'] == 'ENUMERATED':
            if d is not None:
                raise Mismatch('%s: unknown enumeration item decoded as %r' % (path, d))
            return
        if isinstance(o, tuple) and o == (None, None):
            if d != (None, None):
                raise Mismatch('%s: unknown alternative decoded as %r' % (path, d))
            return
        return super()._eq(o, d, td, module, conds, path)


def jobs_for(tier):
    jobs = []
    codecs = ['ber', 'der', 'per', 'uper', 'oer']
    for p in PAIRS:
        if '-long-' in p and tier == 'quick' and int(p.rsplit('-', 1)[1]) not in QUICK_LONG:
            continue
        for codec in codecs:
            if p.endswith('-520') and (codec not in ('per', 'uper') or (tier == 'quick' and 'choice' in p)):
                continue      # > 4096 bits: the PER/UPER encoder spills its accumulator (big-int buffers)
            for direction in ('v2-under-v1', 'v1-under-v2'):
                jobs.append(dict(id='%s/%s/%s' % (p, codec, direction), pair=p, codec=codec, direction=direction,
                                 tier=tier, numeric_enums=False))
    return jobs


def make_harness(job):
    t1, t2 = (M(x) for x in PAIRS[job['pair']])
    p1, p2 = asn1tools.parse_string(t1), asn1tools.parse_string(t2)
    s1 = asn1tools.compile_string(t1, job['codec'])
    s2 = asn1tools.compile_string(t2, job['codec'])
    pyfront.patch_lookup_dicts(s1)
    pyfront.patch_lookup_dicts(s2)
    cands = C.Candidates(s1, s2)
    b = Bounds(int_abs=1 << 9, n_len=2, depth=4, str_len=1) if job['tier'] == 'quick' else \
        Bounds(int_abs=1 << 17, n_len=2, depth=5, str_len=2)
    forward = job['direction'] == 'v2-under-v1'
    pw, sw, pr, sr = (p2, s2, p1, s1) if forward else (p1, s1, p2, s2)     # writer / reader
    genw = Gen(pw, b)
    genr = Gen(pr, b)
    tdw, tdr = pw['T']['types']['A'], pr['T']['types']['A']
    eq = ProjEquiv(genr, 0)
    proj = Proj(p2, p1)

    def harness(ctx):
        cands.attach(ctx)
        with shimmed(C.CODEC_MODS):
            v = genw.value(ctx, tdw, 'T')
            ctx.describe = lambda m: {'value': jsonable(concretize(v, m))}
            ctw, ctr = sw.types['A'], sr.types['A']
            try:
                ctw.check_types(v)
                ctw.check_constraints(v)
                enc = ctw.encode(v)
            except C.LIB_ERRORS:
                ctx.note('outside-domain')
                return
            except Exception as e:
                ctx.note('writer-encode-raises(C01 territory)')
                return
            m = ctx.eng.get_model()
            cv = concretize(v, m)
            want = enc.concrete(m) if isinstance(enc, SymBytes) else bytes(enc)
            with unshimmed():
                got = bytes(ctw.encode(cv))
            if got != want:
                raise HarnessError('xval mismatch %r: symbolic %s concrete %s' % (cv, want.hex(), got.hex()))
            ctx.res.xval += 1
            ctx.sample({'job': job['id'], 'value': jsonable(cv), 'encoded': got.hex()})
            try:
                dec = ctr.decode(enc)
            except Exception as e:
                ctx.violation('other-version-cannot-decode', '%s: %s' % (type(e).__name__, str(e)[:100]))
                return
            expect = proj.project(v, tdw, tdr) if forward else v
            try:
                cond = eq.equiv(expect, dec, tdr, 'T')
            except Mismatch as e:
                ctx.violation('projection-differs', str(e)[:150])
                return
            ctx.prove('decoded-equals-projection', cond)
            ctx.note('interoperable')
    return harness


def replay(v):
    job = v['job']
    t1, t2 = (M(x) for x in PAIRS[job['pair']])
    s1 = asn1tools.compile_string(t1, job['codec'])
    s2 = asn1tools.compile_string(t2, job['codec'])
    p1, p2 = asn1tools.parse_string(t1), asn1tools.parse_string(t2)
    value = unjson(v['witness']['inputs']['value'])
    forward = job['direction'] == 'v2-under-v1'
    sw, sr, pr = (s2, s1, p1) if forward else (s1, s2, p2)
    enc = sw.encode('A', value)
    try:
        dec = sr.decode('A', enc)
    except Exception as e:
        return True, '%s value %r -> %s; the other version raises %s: %s' % (
            'V2' if forward else 'V1', value, enc.hex(), type(e).__name__, e)
    expect = Proj(p2, p1).project(value, p2['T']['types']['A'], p1['T']['types']['A']) if forward else value
    eng = Engine()
    Engine.cur = eng
    try:
        try:
            cond = ProjEquiv(Gen(pr, Bounds()), 0).equiv(expect, dec, pr['T']['types']['A'], 'T')
            same = z3.is_true(z3.simplify(cond))
        except Mismatch as e:
            return True, 'value %r -> %s -> %r, expected %r (%s)' % (value, enc.hex(), dec, expect, e)
    finally:
        Engine.cur = None
    return (not same), 'value %r -> %s -> %r, expected %r' % (value, enc.hex(), dec, expect)


def main(argv=None):
    a = runner.std_args(argv)
    if a.replay:
        return runner.cli_replay(PROP, 'checks.C07', replay, a.replay)
    jobs = jobs_for(a.tier)
    if a.only:
        jobs = [j for j in jobs if a.only in j['id']]
    return runner.run_check(
        PROP, 'checks.C07', jobs, a.tier, a.seed, replay=replay, nproc=a.nproc,
        functions=C.functions_of(C.ber, C.der, C.per, C.uper, C.oer),
        bounds=dict(pairs=list(PAIRS), values='lists <= 2, |int| <= 2^9/2^17, additions version-closed'),
        assumptions=['(V1, V2) pairs are a fixed family covering: added component, added group + trailing addition, '
                     'additions next to OPTIONAL/DEFAULT root members, SET, CHOICE alternatives, ENUMERATED items, '
                     'an addition nested in an addition, an extended type inside SEQUENCE OF, extensible INTEGER'],
        stubs=['builtin shims as in C01'],
        outside=['jer/xer (the JSON/XML parsers are C code)', 'more than one extension step between the versions'])


if __name__ == '__main__':
    sys.exit(main())
