"""C16 -- every strict prefix of a valid encoding is rejected with the library's DecodeError."""
import sys
import os
sys.path.insert(0, os.path.dirname(os.path.dirname(os.path.abspath(__file__))))
import json

from lib import codec as C
from lib.codec import asn1tools
from lib import runner
from lib.common import Compiled, bounds_for
from lib.symvalue import concretize, jsonable, unjson
import corpus
from pyfront import shimmed, unshimmed, SymBytes
from symcore import HarnessError

PROP = 'C16'


def jobs_for(tier):
    jobs = []
    if tier == 'quick':
        tpls = corpus.select(feats={'basic', 'ext', 'manyadd'}, exclude={'real', 'spill'}) + \
            corpus.select(ids={'combo-oer-enum', 'combo-uper6', 'combo-choice-seq', 'seq-opt'})
    else:
        tpls = [t for t in corpus.TEMPLATES if 'spill' not in t['feats']] + corpus.generated(exclude={'real'})
    seen = set()
    for t in tpls:
        if t['id'] in seen:
            continue
        seen.add(t['id'])
        for codec in C.BINARY_CODECS:
            jobs.append(dict(id='%s/%s' % (t['id'], codec), template=t['id'], codec=codec,
                             numeric_enums=False, tier=corpus.job_tier(t, tier)))
    # BER: strict prefixes of OTHER valid serialisations (long-form / padded / indefinite lengths,
    # constructed strings) built by the independent X.690 model
    for i in ['octets', 'seq-basic', 'seq-opt', 'ia5', 'choice-ext', 'seqof', 'bits', 'tag-explicit'] + \
            (['set-basic', 'combo-str-seq', 'seq-ext', 'utf8'] if tier == 'thorough' else []):
        jobs.append(dict(id='variant/%s/ber' % i, template=i, codec='ber', numeric_enums=False, tier=tier,
                         variant=True))
    return jobs


def make_harness(job):
    cj = Compiled(job, bounds_for(job['tier'], corpus.BY_ID[job['template']],
                                  **({'int_abs': 1 << 17, 'n_len': 1} if job['tier'] == 'quick' else {'n_len': 2})))

    variant = job.get('variant')
    if variant:
        from models import x690
        model = x690.DerModel(cj.parsed)

    def harness(ctx):
        cj.cands.attach(ctx)
        with shimmed(C.CODEC_MODS):
            v = cj.value(ctx)
            state = {}
            ctx.describe = lambda m: {'value': jsonable(concretize(v, m)), 'cut': state.get('k'),
                                      'message': state['enc'].concrete(m).hex() if 'enc' in state else None}
            if not cj.accepted(v):
                ctx.note('outside-domain')
                return
            try:
                if variant:
                    rw = x690.Rewriter(lambda name, n: ctx.choose(name, n), max_rewrites=1)
                    enc = SymBytes(rw.emit(model.tree(v, cj.name, cj.module)))
                    state['enc'] = enc
                else:
                    enc = cj.ct.encode(v)
            except Exception:
                ctx.note('encode-raises(C01 territory)')
                return
            n = len(enc)
            if n == 0:
                ctx.note('empty-encoding(no strict prefix)')
                return
            m = ctx.eng.get_model()
            cv = concretize(v, m)
            want = enc.concrete(m) if isinstance(enc, SymBytes) else bytes(enc)
            got = want
            if not variant:
                with unshimmed():
                    got = bytes(cj.ct.encode(cv))
                if got != want:
                    raise HarnessError('xval mismatch %r: symbolic %s concrete %s' % (cv, want.hex(), got.hex()))
            ctx.res.xval += 1
            k = ctx.choose('cut', n)            # prefix length 0..n-1
            state['k'] = k
            ctx.sample({'job': job['id'], 'value': jsonable(cv), 'encoded': got.hex(), 'prefix_len': k})
            try:
                dec = cj.ct.decode(enc[:k])
            except asn1tools.DecodeError:
                ctx.note('rejected-with-DecodeError')
                ctx.res.proved += 1
                return
            except Exception as e:
                ctx.violation('prefix-foreign-exception', '%s: %s' % (type(e).__name__, str(e)[:120]))
                return
            ctx.violation('prefix-decodes-to-a-value', repr(dec)[:120])
    return harness


def replay(v):
    job = v['job']
    tpl = corpus.BY_ID[job['template']]
    spec = asn1tools.compile_string(tpl['text'], job['codec'])
    inp = v['witness'].get('inputs')
    value, k = unjson(inp['value']), inp['cut']
    enc = bytes(spec.encode(tpl['type'], value))
    if inp.get('message'):
        enc = bytes.fromhex(inp['message'])
    try:
        dec = spec.decode(tpl['type'], enc[:k])
    except asn1tools.DecodeError as e:
        return False, 'DecodeError as required: %s' % e
    except Exception as e:
        return True, 'value %r -> %s; decode(%s) raised %s: %s' % (value, enc.hex(), enc[:k].hex(),
                                                                    type(e).__name__, e)
    return True, 'value %r -> %s; strict prefix %s decodes to %r' % (value, enc.hex(), enc[:k].hex(), dec)


def main(argv=None):
    a = runner.std_args(argv)
    if a.replay:
        return runner.cli_replay(PROP, 'checks.C16', replay, a.replay)
    jobs = jobs_for(a.tier)
    if a.only:
        jobs = [j for j in jobs if a.only in j['id']]
    return runner.run_check(
        PROP, 'checks.C16', jobs, a.tier, a.seed, replay=replay, nproc=a.nproc,
        functions=C.functions_of(*C.CODEC_MODS),
        bounds=dict(bounds_for(a.tier).as_dict(), templates=len({j['template'] for j in jobs}),
                    prefix='every strict prefix length 0..len-1 of every encoding (a fork per length)'),
        assumptions=['values are those accepted by the library\'s own check_types/check_constraints'],
        stubs=['int/bytes/bytearray/str/hex/bin/ord/chr + binascii/struct shims; literal-method and '
               '`in` routing by the import hook'],
        outside=['time types', 'REAL', 'values longer than the list/string bounds'])


if __name__ == '__main__':
    sys.exit(main())
