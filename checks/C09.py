"""C09 -- the generated UPER C code is equivalent to the Python UPER codec and memory-safe.

Translation validation of what the CURRENT generator emits: every template is generated,
compiled with ``gcc -std=c99 -Wall -Wextra`` and symbolically executed by cfront (csym).
Queries per template (one job each):
  E/D  symbolic valid struct -> C encode (buffer exactly as large as needed) == Python UPER
       encode of the mapped value run under pyfront; C decode of those bytes recovers every
       meaningful field, presence flag, length and selector
  S    destination size symbolic in 0..len-1: negative return value, no access beyond size
  F    arbitrary input bytes (length 0..N): no undefined-behaviour obligation falsifiable; if the
       decoder accepts, encode(decoded) succeeds and decodes to the same struct
  R    templates outside the documented subset: the generator raises its Error; if it accepts,
       E/D/S/F must hold for what it generated ("reject, not mis-translate")
Every counterexample is replayed on the gcc-built generated code under ASan+UBSan and on the
unshimmed Python codec before it is reported.  (The machinery is shared with C10.)
"""
import sys
import os
sys.path.insert(0, os.path.dirname(os.path.dirname(os.path.abspath(__file__))))
import json
import z3

from lib import codec as C
from lib.codec import asn1tools
from lib import runner, cgen
from lib.cgen import Mapper, MappingError
from lib.common import Compiled
from lib.symvalue import Bounds, concretize, jsonable
import cfront
from cfront import Ptr, ival, U64, UB
from pyfront import shimmed, unshimmed, SymBytes
from symcore import HarnessError

PROP = 'C09'
CODEC = 'uper'
NS = 't'


def M(body, name='T', imports=''):
    return '%s DEFINITIONS AUTOMATIC TAGS ::= BEGIN\n%s%s\nEND\n' % (name, imports, body)


# The documented C subset (README "generate C source"): BOOLEAN, INTEGER (<= 64 bit, bounded), NULL,
# OCTET STRING (bounded), BIT STRING (fixed, <= 64), ENUMERATED, SEQUENCE (OPTIONAL/DEFAULT),
# SEQUENCE OF (bounded), CHOICE, references across modules, empty extension markers.
# Ranges are chosen around powers of two: hi-lo+1 in {2^k-1, 2^k, 2^k+1}.
TEMPLATES = [
    dict(id='basic', quick=True, text=M(
        'A ::= SEQUENCE { a BOOLEAN, b INTEGER (0..254), c INTEGER (-128..127), d NULL, '
        'e INTEGER (0..256), f INTEGER (1..8), g INTEGER (-2..4) }')),
    dict(id='ints-wide', quick=False, text=M(
        'A ::= SEQUENCE { a INTEGER (0..65535), b INTEGER (10000..10512), c INTEGER (-32768..32767), '
        'd INTEGER (0..4294967295), e INTEGER (-2147483648..2147483647), '
        'f INTEGER (0..18446744073709551615), g INTEGER (-9223372036854775808..9223372036854775807), '
        'h INTEGER (5..5), i INTEGER (-1..0), j INTEGER (0..4294967296) }')),
    dict(id='octets', quick=True, nbytes=5, text=M(
        'A ::= SEQUENCE { c OCTET STRING (SIZE(1..3)), a OCTET STRING (SIZE(2)), b OCTET STRING (SIZE(0..3)), '
        'd OCTET STRING (SIZE(0..4)) }')),
    dict(id='bits', quick=True, text=M(
        'A ::= SEQUENCE { a BIT STRING (SIZE(4)), b BIT STRING { x(0), y(11) } (SIZE(12)), '
        'c BIT STRING (SIZE(8)), d BIT STRING (SIZE(24)), e BIT STRING (SIZE(64)), f BIT STRING (SIZE(1)) }')),
    dict(id='bits-33-56', quick=True, text=M(
        'A ::= SEQUENCE { a BIT STRING (SIZE(33)), b BIT STRING (SIZE(40)), c BIT STRING (SIZE(56)), '
        'd BIT STRING (SIZE(57)), e BIT STRING (SIZE(32)) }')),
    dict(id='enum', quick=True, text=M(
        'A ::= SEQUENCE { a ENUMERATED { x, y, z }, b ENUMERATED { p(0), q(4), r(512) }, '
        'c ENUMERATED { one }, d ENUMERATED { k, l, m, n }, e ENUMERATED { u(5), v(2), w(9) }, '
        'f ENUMERATED { below(-1), nominal(0), above(2) }, g ENUMERATED { lo(-200), mid(3), hi(100) } }')),
    dict(id='seq-opt', quick=True, text=M(
        'A ::= SEQUENCE { a BOOLEAN OPTIONAL, b INTEGER (-2..4) DEFAULT 3, c ENUMERATED { x, y, z } DEFAULT y, '
        'd OCTET STRING (SIZE(0..2)) DEFAULT \'0102\'H, e BOOLEAN DEFAULT TRUE, '
        'f SEQUENCE { g INTEGER (0..6) OPTIONAL } OPTIONAL }')),
    dict(id='seqof', quick=True, text=M(
        'A ::= SEQUENCE { a SEQUENCE (SIZE(0..3)) OF INTEGER (-5..5), b SEQUENCE (SIZE(2)) OF BOOLEAN, '
        'c SEQUENCE (SIZE(1..2)) OF SEQUENCE (SIZE(1)) OF INTEGER (0..7), d SEQUENCE (SIZE(1..4)) OF NULL, '
        'e SEQUENCE (SIZE(0..4)) OF OCTET STRING (SIZE(1)) }')),
    dict(id='choice', quick=True, text=M(
        'A ::= CHOICE { p INTEGER (0..7), q BOOLEAN, r NULL, s SEQUENCE { t OCTET STRING (SIZE(1..2)) }, '
        'u CHOICE { v BOOLEAN, w INTEGER (0..2) } }')),
    dict(id='refs', quick=False, text=M(
        'A ::= SEQUENCE { a RefInt, b RefSeq, c RefEnum DEFAULT b, d RefOct, e RefBool, f Local }\n'
        'Local ::= SEQUENCE (SIZE(1..2)) OF RefChoice',
        imports='IMPORTS RefInt, RefSeq, RefEnum, RefOct, RefBool, RefChoice FROM U;\n') + M(
        'RefInt ::= INTEGER (0..300)\nRefSeq ::= SEQUENCE { x BOOLEAN, y RefInt OPTIONAL }\n'
        'RefEnum ::= ENUMERATED { a, b, c }\nRefOct ::= OCTET STRING (SIZE(0..2))\nRefBool ::= BOOLEAN\n'
        'RefChoice ::= CHOICE { i RefInt, e RefEnum }', name='U')),
    dict(id='ext-empty', quick=False, text=M(
        'A ::= SEQUENCE { a BOOLEAN, b SEQUENCE { c INTEGER (0..7), ... }, ... }')),
    dict(id='combo', quick=False, text=M(
        'A ::= SEQUENCE { a INTEGER (0..300), b BOOLEAN OPTIONAL, c OCTET STRING (SIZE(1..4)), '
        'd ENUMERATED { x, y, z } DEFAULT y, e SEQUENCE (SIZE(0..3)) OF INTEGER (-5..5), '
        'f CHOICE { p INTEGER (0..7), q BOOLEAN } }')),
    dict(id='nested', quick=False, text=M(
        'A ::= SEQUENCE (SIZE(1..2)) OF SEQUENCE { a CHOICE { b SEQUENCE (SIZE(0..2)) OF INTEGER (0..1), '
        'c BOOLEAN }, d SEQUENCE { e ENUMERATED { i, j(4), k(512) } DEFAULT j, f OCTET STRING (SIZE(1..2)) } }')),
    dict(id='names', quick=False, text=M(
        'My-Type ::= SEQUENCE { a-b INTEGER (0..3), c-d-e BOOLEAN OPTIONAL, f-g ENUMERATED { h-i, j-k } }',
        name='My-Mod'), module='My-Mod', type='My-Type'),
    dict(id='top-scalars', quick=False, multi=True, text=M(
        'A ::= INTEGER (-1..510)\nB ::= BOOLEAN\nC ::= ENUMERATED { a, b(3) }\nD ::= OCTET STRING (SIZE(1..2))\n'
        'E ::= BIT STRING (SIZE(2))\nF ::= NULL\nG ::= SEQUENCE (SIZE(0..2)) OF B')),
]

# Generated family restricted to the documented C subset: every supported leaf variant in every
# supported structural position (see corpus/gen.py for the idea).  id: g/<container>/<leaf>.
C_LEAVES = [
    ('bool', 'BOOLEAN', 'TRUE'), ('null', 'NULL', None), ('int-0-7', 'INTEGER (0..7)', '3'),
    ('int-m5-300', 'INTEGER (-5..300)', '256'), ('int-0-255', 'INTEGER (0..255)', '128'),
    ('int-0-256', 'INTEGER (0..256)', '256'), ('int-m128-127', 'INTEGER (-128..127)', '-128'),
    ('int-m129-127', 'INTEGER (-129..127)', '-129'), ('int-0-65536', 'INTEGER (0..65536)', '65536'),
    ('int-u32', 'INTEGER (0..4294967295)', '65536'), ('int-1-u64', 'INTEGER (1..18446744073709551615)', '1'),
    ('enum', 'ENUMERATED { a, b, c }', 'b'), ('enum-neg', 'ENUMERATED { below(-1), nominal(0), above(2) }', 'below'),
    ('enum-wide-neg', 'ENUMERATED { lo(-200), mid(3), hi(100) }', 'lo'),
    ('enum-gaps', 'ENUMERATED { u(5), v(2), w(9), x(128), y(40000) }', 'x'),
    ('bits-5', 'BIT STRING (SIZE(5))', None), ('bits-9', 'BIT STRING (SIZE(9))', None),
    ('bits-64', 'BIT STRING (SIZE(64))', None),
    ('octets-2', 'OCTET STRING (SIZE(2))', "'0102'H"), ('octets-1-3', 'OCTET STRING (SIZE(1..3))', "'AA'H"),
    ('octets-3-7', 'OCTET STRING (SIZE(3..7))', None),
    ('seq', 'SEQUENCE { p INTEGER (0..7), q BOOLEAN OPTIONAL }', None),
    ('choice', 'CHOICE { p INTEGER (0..7), q NULL }', None),
    ('seqof', 'SEQUENCE (SIZE(1..3)) OF INTEGER (0..7)', None),
]
C_CONTAINERS = [
    ('member', 'A ::= SEQUENCE { x %(t)s, z BOOLEAN }'),
    ('optional', 'A ::= SEQUENCE { x %(t)s OPTIONAL, z BOOLEAN }'),
    ('default', 'A ::= SEQUENCE { x %(t)s DEFAULT %(d)s, z BOOLEAN }'),
    ('choice', 'A ::= CHOICE { z BOOLEAN, x %(t)s }'),
    ('seqof', 'A ::= SEQUENCE { l SEQUENCE (SIZE(0..2)) OF %(t)s, z BOOLEAN }'),
    ('ref', 'A ::= SEQUENCE { x R, y R OPTIONAL }\nR ::= %(t)s'),
    ('addition', 'A ::= SEQUENCE { z BOOLEAN, ..., x %(t)s, w BOOLEAN OPTIONAL }'),     # OER generator only
]
C_QUICK = {('default', 'enum-neg'), ('optional', 'int-m129-127'), ('member', 'bits-9'), ('seqof', 'octets-1-3'),
           ('choice', 'enum-wide-neg'), ('ref', 'octets-3-7'), ('member', 'int-1-u64'), ('seqof', 'enum-gaps'),
           ('addition', 'octets-1-3'), ('addition', 'enum-wide-neg'), ('member', 'bits-64'), ('optional', 'seqof')}


def generated_templates(codec):
    out = []
    for cid, ctext in C_CONTAINERS:
        if cid == 'addition' and codec != 'oer':
            continue
        for lid, ltext, dflt in C_LEAVES:
            if cid == 'default' and dflt is None:
                continue
            if cid == 'seqof' and lid == 'seqof':
                continue
            if cid == 'addition' and lid.startswith('bits'):
                continue      # BIT STRING additions are outside the OER generator's subset
            out.append(dict(id='g/%s/%s' % (cid, lid), quick=(cid, lid) in C_QUICK, nbytes_cap=4,
                            text=M(ctext % dict(t=ltext, d=dflt))))
    return out


HAND = TEMPLATES
TEMPLATES = HAND + generated_templates('uper')

# Outside the documented subset: the generator has to raise asn1tools.Error.  If it accepts a
# template the generated code is checked like any other (E/D/S/F) -- "reject, not mis-translate".
REJECT = [
    dict(id='int-unbounded', text=M('A ::= SEQUENCE { a INTEGER }')),
    dict(id='int-semi', text=M('A ::= SEQUENCE { a INTEGER (0..MAX) }')),
    dict(id='int-65bit', text=M('A ::= SEQUENCE { a INTEGER (0..18446744073709551616) }')),
    dict(id='int-ext', text=M('A ::= SEQUENCE { a INTEGER (0..7, ...) }')),
    dict(id='octets-unbounded', text=M('A ::= SEQUENCE { a OCTET STRING }')),
    dict(id='octets-semi', text=M('A ::= SEQUENCE { a OCTET STRING (SIZE(1..MAX)) }')),
    dict(id='octets-ext', text=M('A ::= SEQUENCE { a OCTET STRING (SIZE(1..2, ...)) }')),
    dict(id='bits-variable', text=M('A ::= SEQUENCE { a BIT STRING (SIZE(1..4)) }')),
    dict(id='bits-65', text=M('A ::= SEQUENCE { a BIT STRING (SIZE(65)) }')),
    dict(id='seqof-unbounded', text=M('A ::= SEQUENCE { a SEQUENCE OF BOOLEAN }')),
    dict(id='seqof-ext', text=M('A ::= SEQUENCE { a SEQUENCE (SIZE(0..2, ...)) OF BOOLEAN }')),
    dict(id='real', text=M('A ::= SEQUENCE { a REAL, b BOOLEAN }')),
    dict(id='ia5string', text=M('A ::= SEQUENCE { a IA5String (SIZE(1..2)) }')),
    dict(id='oid', text=M('A ::= SEQUENCE { a OBJECT IDENTIFIER }')),
    dict(id='set', text=M('A ::= SET { a BOOLEAN, b INTEGER (0..7) }')),
    dict(id='setof', text=M('A ::= SEQUENCE { a SET (SIZE(0..2)) OF BOOLEAN }')),
    dict(id='recursive', text=M('A ::= SEQUENCE { a BOOLEAN, b A OPTIONAL }')),
    dict(id='enum-ext', text=M('A ::= SEQUENCE { a ENUMERATED { x, y, ... } }')),
    dict(id='choice-ext', text=M('A ::= SEQUENCE { a CHOICE { x BOOLEAN, y INTEGER (0..7), ... } }')),
    dict(id='seq-additions', x=True, text=M('A ::= SEQUENCE { a BOOLEAN, ..., b INTEGER (0..7), c BOOLEAN OPTIONAL }')),
    dict(id='seq-addition-group', text=M('A ::= SEQUENCE { a BOOLEAN, ..., [[ b INTEGER (0..7), c BOOLEAN ]] }')),
    dict(id='utctime', text=M('A ::= SEQUENCE { a UTCTime }')),
]
QUICK_REJECT = {'int-unbounded', 'octets-unbounded', 'bits-variable', 'real', 'seqof-unbounded', 'int-65bit',
                'choice-ext', 'enum-ext'}


def template(job, templates=None, reject=None):
    for t in (templates or TEMPLATES) + (reject or REJECT):
        if t['id'] == job['template']:
            return t
    raise KeyError(job['template'])


def jobs_for(tier, codec=CODEC, templates=None, reject=None, quick_reject=None):
    jobs = []
    nbytes = 4 if tier == 'quick' else 6
    for t in (templates if templates is not None else TEMPLATES):
        if tier == 'quick' and not t.get('quick'):
            continue
        types = t.get('types') or ([t.get('type', 'A')] if not t.get('multi') else
                                   sorted(asn1tools.parse_string(t['text'])[t.get('module', 'T')]['types']))
        for ty in types:
            for q in t.get('queries', ('E', 'S', 'F')):
                jobs.append(dict(id='%s/%s%s/%s' % (codec, t['id'], ('.' + ty) if len(types) > 1 else '', q),
                                 template=t['id'], type=ty, query=q, tier=tier, codec=codec, expect='accept',
                                 nbytes=min(max(nbytes, t.get('nbytes', 0)), t.get('nbytes_cap', 99)),
                                 pad=t.get('pad', 0), numeric_enums=False))
    for t in (reject if reject is not None else REJECT):
        if tier == 'quick' and t['id'] not in (quick_reject or QUICK_REJECT):
            continue
        for q in ('E', 'F') + (('X',) if (t.get('x') and codec == 'uper') else ()):
            jobs.append(dict(id='%s/reject-%s/%s' % (codec, t['id'], q), template=t['id'], type='A', query=q,
                             tier=tier, codec=codec, expect='reject', nbytes=min(nbytes, 4), numeric_enums=False))
    return jobs


# ---------------------------------------------------------------------------
class Setup:
    """everything of a job that does not depend on the path"""

    def __init__(self, job, tpl):
        self.job, self.tpl = job, tpl
        self.module = tpl.get('module', 'T')
        self.type = job['type']
        self.error = None          # ('rejected' | 'foreign' | 'compile' | 'mapping', text)
        self.unit = None
        try:
            self.unit = cgen.Unit(tpl['text'], job['codec'], NS)
        except cgen.GeneratorError as e:
            self.error = (e.kind, e.text)
            return
        u = self.unit
        self.prog = u.prog
        self.td = u.parsed[self.module]['types'][self.type]
        try:
            self.cname = u.cname(self.module, self.type)
            self.ct = u.prog.structs[self.cname + '_t']
        except MappingError as e:
            self.error = ('mapping', str(e))
            return
        self.native = u.native
        self.cj = None
        if job['query'] in ('E', 'X'):
            pj = dict(job, template=tpl['id'])
            self.cj = Compiled(pj, Bounds(), text=tpl['text'],
                               tpl=dict(id=tpl['id'], text=tpl['text'], type=self.type, module=self.module))

    def mapper(self, ctx):
        return Mapper(self.unit, ctx)


def _ub_violation(ctx, phase, e, prog):
    ctx.violation('%s-ub-%s' % (phase, e.kind), '%s%s' % (e, _uninit_note(prog)))


def _missing(mp):
    if not mp.missing:
        return None
    return 'fields possibly never written by the decoder: ' + ', '.join(mp.missing[:6])


def _uninit_note(prog):
    if not prog.uninit:
        return ''
    return ' [after reads of never-written objects: %s]' % ', '.join(sorted({w for _k, _c, w in prog.uninit})[:4])


_SETUPS = {}


def make_harness(job, templates=None, reject=None):
    tpl = template(job, templates, reject)
    st = _SETUPS.get(job['id'])
    if st is None:
        if len(_SETUPS) >= 6:
            _SETUPS.pop(next(iter(_SETUPS)))
        st = _SETUPS[job['id']] = Setup(job, tpl)
    q = job['query']

    def gate(ctx):
        """outcome of the generator itself; True when there is generated code to analyse"""
        ctx.describe = lambda m: {'template': tpl['id'], 'text': tpl['text']}
        if st.error is None:
            if job['expect'] == 'reject':
                ctx.note('accepted-outside-documented-subset(generated code analysed)')
            return True
        kind, text = st.error
        if kind == 'rejected':
            if job['expect'] == 'reject':
                ctx.note('rejected-with-Error')
                ctx.res.proved += 1
            else:
                ctx.violation('subset-template-rejected', text[:300])
        elif kind == 'foreign':
            ctx.violation('generator-foreign-exception', text[:300])
        elif kind == 'compile':
            ctx.violation('generated-c-does-not-compile', text[-600:])
        else:
            ctx.violation('header-does-not-represent-the-type', text[:300])
        return False

    def harness_E(ctx):
        if not gate(ctx):
            return
        prog, cj = st.prog, st.cj
        prog.reset()
        cj.cands.attach(ctx)
        mp = st.mapper(ctx)
        src = prog.alloc(st.ct, 's')
        state = {}
        ctx.describe = lambda m: dict(struct=cgen.describe(src, m), image=cgen.image(src, m).hex(), **state)
        try:
            mp.fill(src, st.td, st.module, 's', additions=job['codec'] == 'oer')
            with shimmed(C.CODEC_MODS):
                v = mp.to_python(src, st.td, st.module)
                try:
                    enc = cj.ct.encode(v)
                except asn1tools.EncodeError as e:
                    ctx.violation('python-rejects-valid-value', str(e)[:200])
                    return
        except MappingError as e:
            ctx.violation('header-does-not-represent-the-type', str(e)[:300])
            return
        n = len(enc)
        state['size'] = n
        # --- cross-validation of the symbolic Python encoding against the unshimmed library
        m = ctx.eng.get_model()
        cv = concretize(v, m)
        want = enc.concrete(m) if isinstance(enc, SymBytes) else bytes(enc)
        with unshimmed():
            try:
                got = bytes(cj.spec.encode(st.type, cv))
            except Exception as e:
                raise HarnessError('xval: library rejects %r: %r' % (cv, e))
        if got != want:
            raise HarnessError('xval (pyfront) mismatch %r: symbolic %s concrete %s' % (cv, want.hex(), got.hex()))
        ctx.sample({'job': job['id'], 'value': jsonable(cv), 'encoded': got.hex()})
        # --- C encode into a buffer exactly as large as needed
        buf = prog.buffer(n, name='dst')
        try:
            r = prog.call(st.cname + '_encode', [Ptr(buf, 0), ival(U64, n), Ptr(src)])
        except UB as e:
            _ub_violation(ctx, 'encode', e, prog)
            return
        cells = [c.val for c in buf.e]
        # --- cross-validation of the interpreter against the gcc-built code on this path's model
        m = ctx.eng.get_model()
        rn, nbytes_, intact = st.native.encode(st.cname, cgen.image(src, m), n)
        ri = m.eval(r.e, model_completion=True).as_signed_long()
        bi = bytes(m.eval(c, model_completion=True).as_long() for c in cells[:max(ri, 0)] if c is not None)
        if rn != ri or (ri >= 0 and bi != nbytes_ and not prog.depends_on_undef(*[c for c in cells if c is not None])):
            raise HarnessError('xval (cfront) mismatch on %s: interpreter %d %s, compiled code %d %s'
                               % (cgen.describe(src, m), ri, bi.hex(), rn, nbytes_.hex()))
        ctx.res.xval += 1
        if not ctx.prove('encode-length-equals-python', r.e == n, info='python length %d' % n):
            return
        if any(c is None for c in cells):
            ctx.violation('encode-leaves-output-byte-unwritten', 'byte %d of %d' % ([c is None for c in cells].index(True), n))
            return
        und = prog.depends_on_undef(*cells)
        if und:
            ctx.note('result-depends-on-never-written-object')
            ctx.violation('encode-output-depends-on-unwritten-object', '%s%s' % (sorted(und), _uninit_note(prog)),
                          candidate=True)
            return
        same = z3.And([a == b for a, b in zip(cells, enc.c)]) if n else z3.BoolVal(True)
        if not ctx.prove('encode-bytes-equal-python', same):
            return
        # --- D: C decode of those bytes
        dst = prog.alloc(st.ct, 'd')
        try:
            r2 = prog.call(st.cname + '_decode', [Ptr(dst), Ptr(buf, 0), ival(U64, n)])
        except UB as e:
            _ub_violation(ctx, 'decode', e, prog)
            return
        m = ctx.eng.get_model()
        data = bytes(m.eval(c, model_completion=True).as_long() for c in cells)
        rn2, raw = st.native.decode(st.cname, data, st.ct.size())
        if rn2 != m.eval(r2.e, model_completion=True).as_signed_long():
            raise HarnessError('xval (cfront) decode return %d vs compiled %d on %s' % (
                m.eval(r2.e, model_completion=True).as_signed_long(), rn2, data.hex()))
        bad = cgen.written_mismatch(dst, raw, m) if not prog.undef_names else None
        if bad:
            raise HarnessError('xval (cfront) decode of %s: %s' % (data.hex(), bad))
        ctx.res.xval += 1
        if not ctx.prove('decode-consumes-all', r2.e == n):
            return
        cond = mp.compare(src, dst, st.td, st.module)
        und = prog.depends_on_undef(cond)
        if und:
            ctx.note('result-depends-on-never-written-object')
            ctx.violation('decode-result-depends-on-unwritten-object', '%s%s' % (sorted(und), _uninit_note(prog)),
                          candidate=True)
            return
        if ctx.prove('decode-recovers-struct', cond, info=_missing(mp)):
            ctx.note('encode-decode-proved')

    def harness_S(ctx):
        if not gate(ctx):
            return
        prog = st.prog
        prog.reset()
        mp = st.mapper(ctx)
        src = prog.alloc(st.ct, 's')
        state = {}
        ctx.describe = lambda m: dict(struct=cgen.describe(src, m), image=cgen.image(src, m).hex(),
                                      size=m.eval(state['size'], model_completion=True).as_long()
                                      if 'size' in state else None)
        try:
            mp.fill(src, st.td, st.module, 's', additions=job['codec'] == 'oer')
        except MappingError as e:
            ctx.violation('header-does-not-represent-the-type', str(e)[:300])
            return
        cap = job.get('cap', 64)
        big = prog.buffer(cap, name='dst')
        try:
            r = prog.call(st.cname + '_encode', [Ptr(big, 0), ival(U64, cap), Ptr(src)])
        except UB as e:
            _ub_violation(ctx, 'encode', e, prog)
            return
        n = ctx.eng.concretize(r.e, signed=True)
        if n < 0:
            ctx.violation('encode-fails-with-ample-buffer', 'returns %d with %d bytes' % (n, cap))
            return
        if n == 0:
            ctx.note('empty-encoding(no smaller buffer)')
            ctx.res.proved += 1
            return
        size = ctx.bv('size', 64)
        state['size'] = size
        ctx.eng.assume(z3.ULT(size, n))
        buf = prog.buffer(n, limit=size, name='dst')
        try:
            r = prog.call(st.cname + '_encode', [Ptr(buf, 0), cfront.Val(U64, size), Ptr(src)])
        except UB as e:
            _ub_violation(ctx, 'small-buffer', e, prog)
            return
        if ctx.prove('small-buffer-negative-return', r.e < 0, info='needed %d' % n):
            ctx.note('small-buffer-proved')

    def harness_F(ctx):
        if not gate(ctx):
            return
        prog = st.prog
        prog.reset()
        mp = st.mapper(ctx)
        k = ctx.choose('len', job['nbytes'] + 1)
        data = ctx.bytes('in', k)
        pad = job.get('pad', 0) if k == job['nbytes'] else 0
        if pad:
            # a long hostile message: symbolic head (length determinants, flags) + concrete filler,
            # so that a length octet the head claims can actually be consumed
            data = data + bytes(pad)
            k += pad
        ctx.describe = lambda m: dict(input=data.concrete(m).hex())
        src = prog.buffer(k, name='src')
        for c, b in zip(src.e, data.c):
            c.val = b
        dst = prog.alloc(st.ct, 'd')
        prog.zero(dst)           # as the project's own fuzzer harness: memset(&decoded, 0, sizeof(decoded))
        try:
            r = prog.call(st.cname + '_decode', [Ptr(dst), Ptr(src, 0), ival(U64, k)])
        except UB as e:
            _ub_violation(ctx, 'decode', e, prog)
            return
        # cross-validation of the interpreter on this path's model
        m = ctx.eng.get_model()
        din = data.concrete(m)
        rn, raw = st.native.decode(st.cname, din, st.ct.size())
        ri = m.eval(r.e, model_completion=True).as_signed_long()
        if rn != ri and not prog.depends_on_undef(r.e):
            raise HarnessError('xval (cfront) decode(%s): interpreter %d, compiled code %d' % (din.hex(), ri, rn))
        if not prog.undef_names:
            bad = cgen.written_mismatch(dst, raw, m)
            if bad:
                raise HarnessError('xval (cfront) decode(%s): %s' % (din.hex(), bad))
        ctx.res.xval += 1
        ctx.sample({'job': job['id'], 'input': din.hex(), 'return': rn})
        und = prog.depends_on_undef(r.e)
        if und:
            ctx.note('result-depends-on-never-written-object')
            ctx.violation('decode-return-depends-on-unwritten-object', _uninit_note(prog), candidate=True)
            return
        if ctx.eng.branch(r.e < 0):
            ctx.note('input-rejected')
            if prog.uninit:
                ctx.note('rejecting-path-reads-never-written-object(indeterminate value, recorded)')
            ctx.res.proved += 1
            return
        if prog.uninit:
            # indeterminate value of an unsigned char object whose address is taken: not UB; the
            # properties below decide whether it matters (a result depending on it is reported)
            ctx.note('accepting-path-reads-never-written-local(recorded; result checked for dependence)')
        try:
            ok = mp.valid(dst, st.td, st.module)
        except MappingError as e:
            ctx.violation('header-does-not-represent-the-type', str(e)[:300])
            return
        if ctx.eng.check_model(z3.Not(ok)) is not None:
            ctx.note('accepted-value-may-violate-a-constraint(as the Python decoder: no range check)')
        out = prog.buffer(k, name='dst')
        try:
            r2 = prog.call(st.cname + '_encode', [Ptr(out, 0), ival(U64, k), Ptr(dst)])
        except UB as e:
            _ub_violation(ctx, 'reencode', e, prog)
            return
        if not ctx.prove('reencode-succeeds', r2.e >= 0):
            return
        n2 = ctx.eng.concretize(r2.e, signed=True)
        dst2 = prog.alloc(st.ct, 'd2')
        prog.zero(dst2)
        try:
            r3 = prog.call(st.cname + '_decode', [Ptr(dst2), Ptr(out, 0), ival(U64, n2)])
        except UB as e:
            _ub_violation(ctx, 'redecode', e, prog)
            return
        if not ctx.prove('redecode-succeeds', r3.e == n2):
            return
        cond = mp.compare(dst, dst2, st.td, st.module)
        und = prog.depends_on_undef(cond, r2.e, r3.e)
        if und:
            ctx.note('result-depends-on-never-written-object')
            ctx.violation('roundtrip-depends-on-unwritten-object', '%s%s' % (sorted(und), _uninit_note(prog)),
                          candidate=True)
            return
        if ctx.prove('redecode-same-struct', cond, info=_missing(mp)):
            ctx.note('accepted-roundtrip-proved')

    def harness_X(ctx):
        """UPER only: a struct with an extension addition present is refused (documented limitation),
        and so is an encoding whose extension bit is set"""
        if not gate(ctx):
            return
        prog, cj = st.prog, st.cj
        prog.reset()
        cj.cands.attach(ctx)
        mp = st.mapper(ctx)
        src = prog.alloc(st.ct, 's')
        ctx.describe = lambda m: dict(struct=cgen.describe(src, m), image=cgen.image(src, m).hex(), size=64)
        mp.fill(src, st.td, st.module, 's', additions=True)
        if not mp.additions_present:
            ctx.note('no-addition-present(covered by E)')
            ctx.res.proved += 1
            return
        with shimmed(C.CODEC_MODS):
            enc = cj.ct.encode(mp.to_python(src, st.td, st.module))
        buf = prog.buffer(64, name='dst')
        try:
            r = prog.call(st.cname + '_encode', [Ptr(buf, 0), ival(U64, 64), Ptr(src)])
        except UB as e:
            _ub_violation(ctx, 'encode', e, prog)
            return
        if not ctx.prove('uper-encoder-refuses-additions', r.e < 0):
            return
        n = len(enc)
        inp = prog.buffer(n, name='src')
        for c, b in zip(inp.e, enc.c):
            c.val = b
        dst = prog.alloc(st.ct, 'd')
        try:
            r2 = prog.call(st.cname + '_decode', [Ptr(dst), Ptr(inp, 0), ival(U64, n)])
        except UB as e:
            _ub_violation(ctx, 'decode', e, prog)
            return
        if ctx.prove('uper-decoder-refuses-extended-encoding', r2.e < 0):
            ctx.note('additions-refused')

    return {'E': harness_E, 'S': harness_S, 'F': harness_F, 'X': harness_X}[q]


# ---------------------------------------------------------------------------
# replay: generated C + driver under ASan/UBSan, Python codec unshimmed
# ---------------------------------------------------------------------------
def _short(x, n=260):
    s = repr(x)
    return s if len(s) <= n else s[:n] + '...(%d chars)' % len(s)


def _concrete_ub(job, templates, reject, v):
    """re-run the harness with every variable pinned to the witness; returns the UB text or None"""
    from symcore import run_path
    from lib.runner import Ctx
    vals = v['witness']['vars']
    h = make_harness(job, templates, reject)

    class PinCtx(Ctx):
        def bytes(self, name, n):
            b = super().bytes(name, n)
            for i, c in enumerate(b.c):
                self.eng.assume(c == vals['%s[%d]' % (name, i)])
            return b

        def choose(self, name, n):
            if n <= 1 or name not in vals:
                return super().choose(name, n)
            self.shape[name] = vals[name]
            return vals[name]
    try:
        res, _eng = run_path(h, [], job.get('W', 192), ctx_factory=lambda e, r: PinCtx(e, r, job, []))
    except Exception as e:
        return None
    for x in res.violations:
        if '-ub-' in x['label']:
            return '%s: %s' % (x['label'], x['info'])
    return None


def replay(v, templates=None, reject=None):
    ok, detail = _replay(v, templates, reject)
    return ok, detail if len(detail) < 1500 else detail[:1500] + '...'


def _replay(v, templates=None, reject=None):
    job = v['job']
    tpl = template(job, templates, reject)
    label = v['label']
    inp = v['witness'].get('inputs') or {}
    try:
        st = Setup(dict(job, query='-'), tpl)
    except Exception as e:
        return False, 'setup raised %r' % (e,)
    if st.error is not None:
        kind, text = st.error
        want = {'subset-template-rejected': 'rejected', 'generator-foreign-exception': 'foreign',
                'generated-c-does-not-compile': 'compile', 'header-does-not-represent-the-type': 'mapping'}
        if want.get(label) == kind:
            return True, 'template %s: %s' % (tpl['id'], text[-400:])
        return False, 'generator outcome now %s: %s' % (kind, text[:200])
    u = st.unit
    mp = Mapper(u)
    mp.concrete = True
    if label == 'header-does-not-represent-the-type':
        from symcore import Engine
        from lib.runner import Ctx
        from symcore import PathResult
        eng = Engine()
        Engine.cur = eng
        try:
            Mapper(u, Ctx(eng, PathResult(), job, [])).fill(u.prog.alloc(st.ct, 's'), st.td, st.module)
        except MappingError as e:
            return True, 'template %s accepted by the generator, but: %s' % (tpl['id'], e)
        except Exception as e:
            return False, 'fill raised %r' % (e,)
        finally:
            Engine.cur = None
        return False, 'mapping now succeeds'
    if 'input' in inp:          # F
        r = cgen.sanitized_run(u.header, u.source, NS, st.cname, ['D', inp['input'] or '""'])
        if r['rc'] is None:
            return False, r['err']
        if r['rc'] != 0:
            return True, 'decode(%s) under ASan/UBSan: %s' % (inp['input'], r['err'][-700:])
        if label.startswith('decode-ub'):
            # the sanitizer build is silent: undefined behaviour that stays inside an object (a write
            # past an array member of the struct) is invisible to ASan/UBSan.  Confirmed instead by
            # interpreting the generated C on the concrete input (every value pinned to the witness).
            ub = _concrete_ub(job, templates, reject, v)
            if ub:
                return True, ('decode(%s): %s -- undefined behaviour inside the destination struct, not visible to '
                              'ASan/UBSan (compiled code returns %s); confirmed by concrete interpretation of the '
                              'generated C' % (inp['input'], ub, r['out'].get('ret')))
        o = r['out']
        if int(o.get('ret', -1)) < 0:
            return False, 'compiled decoder rejects %s (%s)' % (inp['input'], o.get('ret'))
        if int(o.get('ret2', -1)) < 0:
            return True, 'decode(%s) accepted (%s) but encode of the result returns %s' % (inp['input'], o['ret'], o.get('ret2'))
        if int(o.get('ret3', -1)) != int(o['ret2']):
            return True, 'decode(%s) -> encode %s -> decode returns %s' % (inp['input'], o.get('bytes'), o.get('ret3'))
        a, b = u.prog.alloc(st.ct, 'd'), u.prog.alloc(st.ct, 'd2')
        mp.load(a, st.td, st.module, bytes.fromhex(o['struct']))
        try:
            inside = z3.is_true(z3.simplify(mp.valid(a, st.td, st.module)))
        except Exception:
            inside = True
        if not inside and label.startswith('decode-ub'):
            # e.g. a length member larger than the array it counts: the write past the member is
            # inside the struct object, which no sanitizer reports
            return True, 'decode(%s) returns %s (accepted) but the struct holds a value outside the type: %s' % (
                inp['input'], o['ret'], cgen.describe(a, None))
        mp.load(b, st.td, st.module, bytes.fromhex(o['struct2']))
        cond = z3.simplify(mp.compare(a, b, st.td, st.module))
        if not z3.is_true(cond):
            return True, 'decode(%s) = %s; re-encoded %s decodes to %s' % (
                inp['input'], cgen.describe(a, None), o.get('bytes'), cgen.describe(b, None))
        return False, 'compiled code round-trips %s' % inp['input']
    if 'image' not in inp:
        return False, 'witness has no inputs'
    raw = bytes.fromhex(inp['image'])
    src = u.prog.alloc(st.ct, 's')
    mp.load(src, st.td, st.module, raw)
    try:
        value = mp.to_python(src, st.td, st.module)
        spec = asn1tools.compile_string(tpl['text'], job['codec'])
        py = bytes(spec.encode(st.type, value))
    except Exception as e:
        return False, 'python side: %r on %s' % (e, cgen.describe(src, None))
    size = inp.get('size')
    if label.startswith('small-buffer'):
        r = cgen.sanitized_run(u.header, u.source, NS, st.cname, ['E', size, inp['image']])
        if r['rc'] is None:
            return False, r['err']
        if r['rc'] != 0:
            return True, 'encode of %r into %d bytes (needs %d) under ASan/UBSan: %s' % (_short(value), size, len(py), r['err'][-700:])
        if int(r['out'].get('ret', -1)) >= 0:
            return True, 'encode of %r into %d bytes (needs %d) returns %s' % (_short(value), size, len(py), r['out']['ret'])
        return False, 'compiled code returns %s for size %d' % (r['out'].get('ret'), size)
    r = cgen.sanitized_run(u.header, u.source, NS, st.cname, ['E', len(py), inp['image']])
    if r['rc'] is None:
        return False, r['err']
    if r['rc'] != 0:
        return True, 'encode/decode of %s under ASan/UBSan: %s' % (_short(value), r['err'][-700:])
    o = r['out']
    if int(o.get('ret', -1)) != len(py) or o.get('bytes', '') != py.hex():
        return True, 'value %s: C encode returns %s bytes %s, Python %s gives %s' % (
            _short(value), o.get('ret'), _short(o.get('bytes')), job['codec'], _short(py.hex()))
    if int(o.get('ret2', -1)) != len(py):
        return True, 'value %s -> %s: C decode returns %s' % (_short(value), _short(py.hex()), o.get('ret2'))
    dst = u.prog.alloc(st.ct, 'd')
    mp.load(dst, st.td, st.module, bytes.fromhex(o['struct']))
    mp.missing = []
    cond = z3.simplify(mp.compare(src, dst, st.td, st.module))
    if not z3.is_true(cond):
        return True, 'value %s -> %s: C decode gives %s, expected %s' % (
            _short(value), _short(py.hex()), _short(cgen.describe(dst, None)), _short(cgen.describe(src, None)))
    return False, 'compiled code and Python agree on %r (%s)' % (value, py.hex())


def _texts(job, templates=None, reject=None):
    return [template(job, templates, reject)['text']]


def main(argv=None, prop=PROP, modname='checks.C09', codec=CODEC, jobs_fn=None, replay_fn=None, extra_outside=(),
         texts_fn=None):
    a = runner.std_args(argv)
    replay_fn = replay_fn or replay
    if a.replay:
        return runner.cli_replay(prop, modname, replay_fn, a.replay)
    jobs = (jobs_fn or jobs_for)(a.tier)
    if a.only:
        jobs = [j for j in jobs if a.only in j['id']]
    # generator + gcc runs once per template, in parallel, before the workers fork
    items = {}
    for j in jobs:
        for t in (texts_fn or _texts)(j):
            items.setdefault((t, codec, NS), j['template'])
    cgen.prebuild(list(items), a.nproc or 16)
    gen = {'generated_and_compiled': 0, 'rejected_by_generator': 0, 'other': 0}
    warnings = {}
    for key, tid in items.items():
        b = cgen._BUNDLES.get(key) or {}
        err = b.get('error')
        gen['generated_and_compiled' if err is None else ('rejected_by_generator' if err[0] == 'rejected' else 'other')] += 1
        if b.get('warnings'):
            warnings[tid] = b['warnings'][:5]
    return runner.run_check(
        prop, modname, jobs, a.tier, a.seed, level='translation_validation', replay=replay_fn, nproc=a.nproc,
        extra_coverage=dict(programs=gen['generated_and_compiled'], generator_outcomes=gen,
                            gcc='gcc -std=c99 -Wall -Wextra -c (errors fatal)', gcc_warnings=warnings or 'none'),
        functions=['asn1tools.source.c.%s.* / %s_functions (as emitted: every generated *_encode/_decode and '
                   'helper, interpreted from the pycparser AST)' % (codec, codec),
                   'asn1tools.codecs.%s.* (oracle, run under pyfront)' % codec],
        bounds=dict(templates=len({j['template'] for j in jobs if j['expect'] == 'accept'}),
                    reject_templates=len({j['template'] for j in jobs if j['expect'] == 'reject'}),
                    arrays='<= 4 elements', octet_strings='<= 4 octets', nesting='<= 3',
                    arbitrary_input_bytes='0..%d' % (jobs[0]['nbytes'] if jobs else 0),
                    buffer_sizes='every size 0..len-1 (one symbolic 64-bit size)'),
        assumptions=['struct fields hold values inside the ASN.1 constraints (flags 0/1, lengths in SIZE, '
                     'selectors and ENUMERATED values among the enumerators, unused BIT STRING bits zero)',
                     'LP64, little endian, gcc enum representation (unsigned int unless an enumerator is negative)',
                     'REAL binary32: signalling NaNs excluded (not representable as a Python float)'],
        stubs=['pyfront shims for the Python oracle (as C01)', 'cfront: memcpy/memset/memcmp modelled byte-wise; '
               'float/double are opaque bit patterns', 'RawFloat: struct.pack of a REAL member returns its IEEE bits'],
        outside=['specifications larger than the bounds', 'the optional fuzzer main', 'the Rust generator',
                 'aliasing between the caller\'s buffer and struct', 'reads of never-written objects on rejecting '
                 'decoder paths (indeterminate unsigned char values, recorded, not UB)'] + list(extra_outside))


if __name__ == '__main__':
    sys.exit(main())
