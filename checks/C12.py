"""C12 -- ill-typed / out-of-constraint components are rejected with the exact dotted path."""
import sys
import os
sys.path.insert(0, os.path.dirname(os.path.dirname(os.path.abspath(__file__))))
import copy
import json
import z3

from lib import codec as C
from lib.codec import asn1tools
from lib import runner
from lib.common import Compiled, bounds_for
from lib.symvalue import (concretize, jsonable, unjson, Bounds, members_of, members_split, int_range,
                          size_range, STRING_TYPES, enum_items)
import corpus
from pyfront import shimmed, unshimmed, SymBytes, SymInt, SymStr
from symcore import HarnessError, Engine, Inconclusive

PROP = 'C12'
ALL_CODECS = ['ber', 'der', 'per', 'uper', 'oer', 'jer', 'xer', 'gser']
IDS_QUICK = ['c12-paths', 'c12-choice-ext', 'shared-range', 'shared-size', 'seq-opt', 'choice-ext', 'c11-nested', 'combo-uper6', 'seq-ext-group', 'combo-ref',
             'enum', 'int-0-7', 'seqof-size', 'set-basic']
IDS_MORE = ['combo-choice-seq', 'combo-depth3', 'combo-ext-nest', 'combo-set-choice', 'combo-str-seq', 'c11-ref',
            'c11-strings', 'combo-recursive', 'combo-rec-choice', 'tag-choice', 'combo-import']

FOREIGN = {
    'INTEGER': [1.5, None, b'x'], 'BOOLEAN': [1, 'TRUE'], 'NULL': [0], 'ENUMERATED': [3, None],
    'OCTET STRING': ['ab', 7], 'BIT STRING': [b'\x00', (b'\x00',), ('a', 1)], 'REAL': ['1.0'],
    'SEQUENCE': [[], 'x'], 'SET': [[], 3], 'SEQUENCE OF': [{}, 'x'], 'SET OF': [{}, 1], 'CHOICE': [5, ('a',), (1, 2)],
    'OBJECT IDENTIFIER': [1, b'1.2'],
}
for _t in STRING_TYPES:
    FOREIGN[_t] = [b'x', 5]


class Pos:
    def __init__(self, names, rtd, rmod, get, put, delete=None):
        self.names, self.rtd, self.rmod, self.get, self.put, self.delete = names, rtd, rmod, get, put, delete


def positions(spec, v, td, module, names, get, put, out, in_addition=False):
    rtd, rmod, _c = spec.resolve(td, module)
    t = rtd['type']
    out.append((Pos(names, rtd, rmod, get, put), in_addition))
    if t in ('SEQUENCE', 'SET'):
        for m, is_add in members_of(rtd):
            n = m['name']
            if n in v:
                positions(spec, v[n], m, rmod, names + [n],
                          (lambda d=v, k=n: d[k]), (lambda x, d=v, k=n: d.__setitem__(k, x)), out,
                          in_addition or is_add)
    elif t == 'CHOICE':
        for m, is_add in members_of(rtd):
            if m['name'] == v[0]:
                def putc(x, g=get, p=put):
                    p((g()[0], x))
                # (an alternative after the extension marker is not an "addition" whose errors
                # encode_additions() could swallow: only SEQUENCE/SET additions count)
                positions(spec, v[1], m, rmod, names + [m['name']], (lambda g=get: g()[1]), putc, out,
                          in_addition)
    elif t in ('SEQUENCE OF', 'SET OF'):
        for i in range(len(v)):
            positions(spec, v[i], rtd['element'], rmod, names,
                      (lambda d=v, k=i: d[k]), (lambda x, d=v, k=i: d.__setitem__(k, x)), out, in_addition)


def corruptions(ctx, cj, v):
    """list of (kind, label, apply(), expected_names, in_addition)"""
    spec = cj.gen.spec
    holder = {'v': v}
    plist = []
    positions(spec, v, cj.td, cj.module, [], lambda: holder['v'], lambda x: holder.__setitem__('v', x), plist)
    out = []
    for pos, in_add in plist:
        t = pos.rtd['type']
        for k, obj in enumerate(FOREIGN.get(t, [])):
            if t == 'ENUMERATED' and cj.numeric_enums:
                continue
            out.append(('type', '%s:=%r' % ('.'.join(pos.names) or '<top>', obj),
                        (lambda p=pos, o=obj: p.put(o)), pos.names, in_add))
        if t == 'ENUMERATED' and not cj.numeric_enums:
            out.append(('enum', '.'.join(pos.names), (lambda p=pos: p.put('no-such-item')), pos.names, in_add))
        if t == 'CHOICE':
            out.append(('choice', '.'.join(pos.names), (lambda p=pos: p.put(('no-such-alternative', 0))),
                        pos.names, in_add))
        if t in ('SEQUENCE', 'SET'):
            root, adds, _e = members_split(pos.rtd)
            for m in root:
                if not (m.get('optional') or 'default' in m) and 'name' in m:
                    def rm(p=pos, n=m['name']):
                        d = dict(p.get())
                        d.pop(n, None)
                        p.put(d)
                    out.append(('missing', '.'.join(pos.names + [m['name']]), rm, pos.names, in_add))
        if t == 'INTEGER':
            lo, hi, ext = int_range(spec, pos.rtd, pos.rmod)
            if not ext and hi is not None:
                out.append(('constraint', '.'.join(pos.names) + '>hi',
                            (lambda p=pos, h=hi: p.put(ctx.int('bad.%s' % '.'.join(p.names), h + 1, h + (1 << 20)))),
                            pos.names, in_add))
            if not ext and lo is not None:
                out.append(('constraint', '.'.join(pos.names) + '<lo',
                            (lambda p=pos, l=lo: p.put(ctx.int('bad.%s' % '.'.join(p.names), l - (1 << 20), l - 1))),
                            pos.names, in_add))
        if t in ('SEQUENCE OF', 'SET OF', 'OCTET STRING') or t in STRING_TYPES:
            lo, hi, ext = size_range(spec, pos.rtd, pos.rmod)
            if 'size' in pos.rtd and not ext and hi is not None and hi + 1 <= 5 and (
                    t not in ('SEQUENCE OF', 'SET OF') or len(pos.get()) > 0):
                def longer(p=pos, h=hi, tt=t):
                    cur = p.get()
                    if tt == 'OCTET STRING':
                        p.put(ctx.bytes('bad.%s' % '.'.join(p.names), h + 1))
                    elif tt in STRING_TYPES:
                        p.put('a' * (h + 1) if tt != 'NumericString' else '1' * (h + 1))
                    else:
                        if not cur:
                            raise Inconclusive('no element to repeat')
                        p.put([copy.deepcopy(cur[0]) for _ in range(h + 1)])
                out.append(('constraint', '.'.join(pos.names) + '#>hi', longer, pos.names, in_add))
    return out, holder


def c12_bounds(tier):
    if tier == 'quick':
        return Bounds(int_abs=1 << 9, n_len=1, depth=4, str_len=1)
    return Bounds(int_abs=1 << 17, n_len=2, depth=5, str_len=2)


def jobs_for(tier):
    jobs = []
    ids = IDS_QUICK + (IDS_MORE if tier == 'thorough' else [])
    for i in ids:
        for codec in ALL_CODECS:
            kinds = 'all' if codec in ('ber', 'uper') or tier == 'thorough' else 'encoder'
            jobs.append(dict(id='%s/%s' % (i, codec), template=i, codec=codec, tier=tier, numeric_enums=False,
                             kinds=kinds))
    return jobs


def make_harness(job):
    cj = Compiled(job, c12_bounds(job['tier']))
    mods = C.CODEC_MODS + C.TEXT_MODS
    encoder_kinds = ('enum', 'missing')

    def harness(ctx):
        cj.cands.attach(ctx)
        with shimmed(mods):
            v = cj.value(ctx)
            state = {}
            ctx.describe = lambda m: {'value': jsonable(concretize(state.get('bad', v), m)),
                                      'corruption': state.get('label')}
            try:
                cj.ct.check_types(v)
            except asn1tools.EncodeError as e:
                ctx.violation('well-typed-value-rejected-by-type-check', str(e)[:120])
                return
            except Exception as e:
                ctx.violation('type-check-foreign-exception', repr(e)[:120])
                return
            ctx.res.proved += 1
            if not cj.accepted(v):
                ctx.note('outside-domain')
                return
            options, holder = corruptions(ctx, cj, copy.deepcopy(v) if False else _clone(v))
            if job['kinds'] == 'encoder':
                options = [o for o in options if o[0] in encoder_kinds]
            if not options:
                ctx.note('no-applicable-corruption')
                return
            k = ctx.choose('corruption', len(options))
            kind, label, apply, names, in_add = options[k]
            ctx.shape['kind'] = kind
            ctx.shape['in_addition'] = in_add
            state['label'] = '%s %s' % (kind, label)
            apply()
            bad = holder['v']
            state['bad'] = bad
            expected = '.'.join([cj.name] + names)

            def run(value):
                try:
                    cj.spec.encode(cj.name, value, check_types=True, check_constraints=True)
                except (asn1tools.EncodeError, asn1tools.ConstraintsError) as e:
                    return ('liberror', str(e))
                except Inconclusive:
                    raise
                except Exception as e:
                    return ('foreign', '%s: %s' % (type(e).__name__, str(e)[:80]))
                return ('bytes', '')
            kind_out, text = run(bad)
            # cross-validation on the path's model with the unshimmed library
            m = ctx.eng.get_model()
            cbad = concretize(bad, m)
            with unshimmed():
                ckind, ctext = run(cbad)
            if ckind != kind_out or (ckind == 'liberror' and ctext.split(':')[0] != text.split(':')[0]):
                raise HarnessError('xval mismatch on %r: symbolic %s %r, concrete %s %r'
                                   % (cbad, kind_out, text[:60], ckind, ctext[:60]))
            ctx.res.xval += 1
            if kind_out == 'liberror':
                if text.startswith(expected + ':'):
                    ctx.res.proved += 1
                    ctx.note('rejected-with-exact-path')
                    ctx.sample({'job': job['id'], 'corruption': state['label'], 'error': ctext[:100]})
                else:
                    ctx.violation('wrong-error-path', '%s -> expected prefix %r, got %r' % (
                        state['label'], expected + ':', text[:80]))
            elif kind_out == 'foreign':
                ctx.violation('foreign-exception', '%s -> %s' % (state['label'], text))
            else:
                ctx.violation('corrupt-value-encoded', '%s -> bytes' % state['label'])
    return harness


def _clone(v):
    """copy of the container structure; proxies are shared (immutable use)"""
    if isinstance(v, dict):
        return {k: _clone(x) for k, x in v.items()}
    if isinstance(v, list):
        return [_clone(x) for x in v]
    if isinstance(v, tuple):
        return tuple(_clone(x) for x in v)
    return v


def replay(v):
    job = v['job']
    tpl = corpus.BY_ID[job['template']]
    spec = asn1tools.compile_string(tpl['text'], job['codec'])
    inp = v['witness']['inputs']
    bad = unjson(inp['value'])
    try:
        spec.encode(tpl['type'], bad, check_types=True, check_constraints=True)
    except (asn1tools.EncodeError, asn1tools.ConstraintsError) as e:
        if v['label'] == 'wrong-error-path':
            m = v['info'].split('expected prefix ')[1].split(',')[0].strip("'\"")
            if not str(e).startswith(m):
                return True, '%s: %r encodes with error %r, expected path prefix %r' % (inp['corruption'], bad, str(e)[:100], m)
        if v['label'] == 'well-typed-value-rejected-by-type-check':
            return True, 'well-typed %r rejected: %s' % (bad, e)
        return False, 'rejected properly: %s' % e
    except Exception as e:
        return True, '%s: encode(%r) raised %s: %s' % (inp['corruption'], bad, type(e).__name__, str(e)[:80])
    if v['label'] in ('well-typed-value-rejected-by-type-check',):
        return False, 'accepted'
    return True, '%s: encode(%r) returned bytes' % (inp['corruption'], bad)


def main(argv=None):
    a = runner.std_args(argv)
    if a.replay:
        return runner.cli_replay(PROP, 'checks.C12', replay, a.replay)
    jobs = jobs_for(a.tier)
    if a.only:
        jobs = [j for j in jobs if a.only in j['id']]
    return runner.run_check(
        PROP, 'checks.C12', jobs, a.tier, a.seed, replay=replay, nproc=a.nproc,
        functions=C.functions_of(C.type_checker, C.constraints_checker) +
        ['<codec>.*.encode / encode_member / encode_additions error-location logic (ber, der, per, uper, oer, jer, xer, gser)',
         'codecs.ErrorWithLocation.add_location/__str__'],
        bounds=dict(c12_bounds(a.tier).as_dict(), templates=len({j['template'] for j in jobs}),
                    corruption='every component position of every value shape x every applicable kind '
                               '(wrong Python type from a fixed list, unknown CHOICE/ENUMERATED name, missing '
                               'mandatory member, symbolic out-of-range integer, over-long SIZE)'),
        assumptions=['expected path = type name + member/alternative names down to the component; list '
                     'elements contribute no segment; a missing member is reported at the enclosing SEQUENCE/SET'],
        stubs=['builtin shims as in C01 (also in jer, xer, gser)'],
        outside=['message text after the path', 'time types, ANY'])


if __name__ == '__main__':
    sys.exit(main())
