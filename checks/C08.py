"""C08 -- decoding arbitrary bytes terminates within bounded work and memory and leaves
the compiled specification unchanged."""
import sys
import os
sys.path.insert(0, os.path.dirname(os.path.dirname(os.path.abspath(__file__))))
import json

from lib import codec as C
from lib.codec import asn1tools
from lib import runner
from lib.common import Compiled, bounds_for, PristineServer
import corpus
from pyfront import shimmed, unshimmed, SymBytes
from symcore import HarnessError, Inconclusive

PROP = 'C08'
REPO_DIR = os.path.join(os.environ.get('VERIF_REPO', '/repo'), 'asn1tools')


class StepLimit(BaseException):
    pass


def budget(n):
    """line events allowed in asn1tools frames for an input of n octets"""
    return 4000 + 2500 * n


class LineCounter:
    def __init__(self, limit):
        self.n = 0
        self.limit = limit

    def __call__(self, frame, event, arg):
        if not frame.f_code.co_filename.startswith(REPO_DIR):
            return None
        return self.local

    def local(self, frame, event, arg):
        if event == 'line':
            self.n += 1
            if self.n > self.limit:
                raise StepLimit()
        return self.local


from lib.c08_replay import fingerprint, _replay_decode  # noqa: E402,F401


SENTINELS = {}


def jobs_for(tier):
    ids = ['bool', 'int', 'int-0-7', 'int-ext', 'enum', 'enum-ext', 'octets', 'octets-range', 'bits',
           'bits-named', 'seq-basic', 'seq-opt', 'seq-ext', 'choice', 'choice-ext', 'seqof', 'setof',
           'ia5', 'utf8', 'oid', 'null', 'set-basic', 'combo-seqof-seq', 'combo-oer-enum',
           'combo-recursive', 'tag-explicit', 'seq-ext-group']
    if tier == 'thorough':
        # (REAL is outside: its decoders go through struct/float C code that the proxies do not mirror
        # exception for exception)
        ids += ['combo-uper6', 'combo-choice-seq', 'combo-rec-choice', 'seq-ext-8', 'tag-big',
                'seqof-size', 'bmp', 'combo-ext-nest']
    N = 4 if tier == 'quick' else 6
    jobs = []
    for i in ids:
        for codec in C.BINARY_CODECS:
            for n in range(0, N + 1):
                jobs.append(dict(id='%s/%s/len%d' % (i, codec, n), template=i, codec=codec, n=n, tier=tier,
                                 numeric_enums=False))
    # JER mapping layer on hostile documents: the JSON object of a valid value in which every number
    # is replaced by an arbitrary integer (json itself is C code: the parsed document is the input)
    for i in ['bits', 'bits-fixed', 'octets', 'seq-opt', 'choice-ext', 'seqof', 'enum-ext', 'combo-bits-default', 'int']:
        jobs.append(dict(id='%s/jer/hostile-numbers' % i, template=i, codec='jer', n=0, tier=tier, numeric_enums=False,
                         kind='jer-doc'))
    return jobs


class StopPath(BaseException):
    """the path has produced its finding; exploring the (huge) domain of the size further is pointless"""


def _hostile(ctx, obj, path='$'):
    """copy of a JSON-compatible object with every integer replaced by a fresh unconstrained one"""
    from pyfront import SymInt
    if isinstance(obj, bool) or obj is None:
        return obj
    if isinstance(obj, (int, SymInt)):
        return ctx.int('h' + path, -(1 << 40), 1 << 40)
    if isinstance(obj, dict):
        return {k: _hostile(ctx, x, '%s.%s' % (path, k)) for k, x in obj.items()}
    if isinstance(obj, list):
        return [_hostile(ctx, x, '%s[%d]' % (path, i)) for i, x in enumerate(obj)]
    return obj


def _doc_json(obj, m):
    """concrete JSON-compatible object of a document with proxies under a model"""
    from pyfront import SymInt, SymStr, DigitStr
    if isinstance(obj, SymInt):
        return m.eval(obj.e, model_completion=True).as_signed_long()
    if isinstance(obj, SymStr):
        return obj.concrete(m)
    if isinstance(obj, DigitStr):
        out = []
        for c in obj.ch:
            if isinstance(c, str):
                out.append(c)
            else:
                d = '%x' % m.eval(c[1], model_completion=True).as_long()
                out.append(d.upper() if c[0] == 'H' else d)
        return ''.join(out)
    if isinstance(obj, dict):
        return {k: _doc_json(x, m) for k, x in obj.items()}
    if isinstance(obj, list):
        return [_doc_json(x, m) for x in obj]
    if hasattr(obj, 'concretize'):
        return obj.concretize(m)
    return obj


def make_doc_harness(job):
    """JER: decode of a hostile document (mapping layer; the JSON parser's result is the input)"""
    import json as _json
    cj = Compiled(dict(job, tier='quick'))
    fp0 = fingerprint(cj.spec)
    mods = C.CODEC_MODS + C.TEXT_MODS

    def harness(ctx):
        cj.cands.attach(ctx)
        eng = ctx.eng
        with shimmed(mods):
            v = cj.value(ctx)
            if not cj.accepted(v):
                ctx.note('outside-domain')
                return
            try:
                doc = cj.ct._type.encode(v)
            except Exception:
                ctx.note('encode-raises')
                return
            doc = _hostile(ctx, doc)
            ctx.describe = lambda m: {'data': _json.dumps(_doc_json(doc, m)).encode().hex()}
            size = len(_json.dumps(_doc_json(doc, eng.get_model())))
            eng.index_limit = 8 * size + 64

            def large(expr, model):
                # an allocation attack wants the size as large as the document allows: prefer such a model
                for shift in (36, 33, 30, 24):
                    if expr.size() > shift + 1:
                        big = eng.check_model(expr > (1 << shift))
                        if big is not None:
                            model = big
                            break
                ctx.violation('size-from-input-unbounded', 'an index/size/shift can exceed %d for a %d-octet document'
                              % (eng.index_limit, size), model=model, candidate=True)
                raise StopPath()
            eng.on_large_index = large
            lc = LineCounter(budget(size))
            sys.settrace(lc)
            try:
                try:
                    cj.ct._type.decode(doc)
                    outcome = 'value'
                except StopPath:
                    outcome = 'size-from-input-candidate'
                except StepLimit:
                    outcome = 'steplimit'
                except asn1tools.DecodeError:
                    outcome = 'DecodeError'
                except Inconclusive:
                    raise
                except Exception as e:
                    outcome = 'other-exception:' + type(e).__name__
            finally:
                sys.settrace(None)
                eng.index_limit = None
                eng.on_large_index = None
        ctx.note(outcome)
        if outcome == 'size-from-input-candidate':
            return
        if outcome == 'steplimit':
            ctx.violation('work-budget-exceeded', '> %d line events for a %d-octet document' % (budget(size), size))
            return
        ctx.res.proved += 1
        if fingerprint(cj.spec) != fp0:
            ctx.violation('compiled-specification-modified', outcome)
            return
        ctx.res.proved += 1
        ctx.res.xval += 1
        if len(ctx.res.samples) < 1:
            ctx.sample({'job': job['id'], 'outcome': outcome})
    return harness


def make_harness(job):
    if job.get('kind') == 'jer-doc':
        return make_doc_harness(job)
    cj = Compiled(job)
    n = job['n']
    fp0 = fingerprint(cj.spec)

    def harness(ctx):
        cj.cands.attach(ctx)
        eng = ctx.eng
        data = ctx.bytes('x', n)
        ctx.describe = lambda m: {'data': data.concrete(m).hex()}
        eng.index_limit = 8 * n + 64

        def large(expr, model):
            ctx.violation('size-from-input-unbounded', 'an index/size/shift can exceed %d for a %d-octet input'
                          % (eng.index_limit, n), model=model, candidate=True)
        eng.on_large_index = large
        lc = LineCounter(budget(n))
        outcome = None
        with shimmed(C.CODEC_MODS):
            sys.settrace(lc)
            try:
                try:
                    cj.ct.decode(data)
                    outcome = 'value'
                except StepLimit:
                    outcome = 'steplimit'
                except asn1tools.DecodeError:
                    outcome = 'DecodeError'
                except Exception as e:
                    outcome = 'other-exception:' + type(e).__name__
            finally:
                sys.settrace(None)
                eng.index_limit = None
                eng.on_large_index = None
        ctx.note(outcome)
        if outcome == 'steplimit':
            ctx.violation('work-budget-exceeded', '> %d line events for %d octets' % (budget(n), n))
            return
        ctx.res.proved += 1
        if fingerprint(cj.spec) != fp0:
            ctx.violation('compiled-specification-modified', outcome)
            return
        ctx.res.proved += 1
        # per-path cross-validation: the path's model, decoded concretely by the unshimmed code,
        # must end the same way
        m = eng.get_model()
        cdata = data.concrete(m)
        with unshimmed():
            try:
                cj.ct.decode(cdata)
                real = 'value'
            except asn1tools.DecodeError:
                real = 'DecodeError'
            except Exception as e:
                real = 'other-exception:' + type(e).__name__
        if real != outcome:
            raise HarnessError('xval mismatch on %s: symbolic %s, concrete %s' % (cdata.hex(), outcome, real))
        ctx.res.xval += 1
        if fingerprint(cj.spec) != fp0:
            ctx.violation('compiled-specification-modified', outcome)
            return
        if len(ctx.res.samples) < 1:
            ctx.sample({'job': job['id'], 'input': cdata.hex(), 'outcome': outcome, 'lines': lc.n})
    return harness


# ---- concrete replays (pristine interpreter, resource limits) -------------------------------
_SERVER = []


def replay(v):
    job = v['job']
    data = v['witness']['inputs']['data']
    if not _SERVER:
        _SERVER.append(PristineServer())
    # CPU and address-space limits are armed in a forked child of a pristine interpreter that has
    # already imported everything: they measure the decode call only
    r = _SERVER[0].call('lib.c08_replay', '_replay_decode', dict(template=job['template'], codec=job['codec'], data=data),
                        cpu_s=10, mem_mb=1024, wall_s=600)
    n = len(data) // 2
    if r['status'] == 'cpu':
        # a CPU overrun must be repeatable: a forked child can also be lost to the machine (scheduler,
        # fork hazards), which is not a property of the decoder
        for _again in range(2):
            r2 = _SERVER[0].call('lib.c08_replay', '_replay_decode',
                                 dict(template=job['template'], codec=job['codec'], data=data),
                                 cpu_s=10, mem_mb=1024, wall_s=600)
            if r2['status'] != 'cpu':
                r = r2
                break
    if r['status'] == 'cpu':
        return True, 'decode(%s) with codec %s of %s did not finish within 10 s CPU' % (
            data, job['codec'], job['template'])
    if r['status'] == 'memory':
        return True, 'decode(%s) exhausted 1 GiB of additional address space' % data
    if r['status'] == 'wall':
        # 10 minutes of wall clock without using 10 s of CPU: the machine, not the decoder
        raise HarnessError('replay of decode(%s) got no CPU within 600 s wall' % data)
    if r['status'] != 'ok':
        raise HarnessError('replay process failed: %s' % (str(r['result'])[-300:],))
    res = r['result']
    if res['outcome'] == 'MemoryError':
        return True, 'decode(%s) raised MemoryError under a 1 GiB limit' % data
    if v['label'] == 'compiled-specification-modified' and res.get('state_changed'):
        return True, 'decode(%s) (%s) leaves the compiled specification modified: a later call sees other state' % (
            data, res['outcome'])
    if v['label'] == 'work-budget-exceeded' and res['lines'] > budget(n):
        return True, 'decode(%s): %d line events for %d octets (budget %d)' % (data, res['lines'], n, budget(n))
    return False, 'decode(%s) finished: %s after %d line events' % (data, res['outcome'], res['lines'])


def main(argv=None):
    a = runner.std_args(argv)
    if a.replay:
        return runner.cli_replay(PROP, 'checks.C08', replay, a.replay)
    jobs = jobs_for(a.tier)
    if a.only:
        jobs = [j for j in jobs if a.only in j['id']]
    return runner.run_check(
        PROP, 'checks.C08', jobs, a.tier, a.seed, replay=replay, nproc=a.nproc,
        functions=C.functions_of(*C.CODEC_MODS),
        bounds=dict(input='every byte string of every length 0..%d (fully symbolic octets)' % max(j['n'] for j in jobs),
                    templates=len({j['template'] for j in jobs}), codecs=C.BINARY_CODECS,
                    work_budget='4000 + 2500*len line events in asn1tools frames',
                    size_limit='8*len + 64 for every index/size/shift concretised from input'),
        assumptions=['work is measured as Python line events inside asn1tools frames',
                     'an index/size/shift that the solver shows can exceed 8*len+64 is a candidate that is '
                     'confirmed only if the concrete replay exhausts 10 s CPU or 1 GiB'],
        stubs=['builtin shims as in C01'],
        outside=['inputs longer than the stated length (mutations of longer valid encodings)',
                 'jer/xer (json / ElementTree parsing is C code)', 'time types'])


if __name__ == '__main__':
    sys.exit(main())
