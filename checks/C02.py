"""C02 -- JER / XER round-trip every value and emit well-formed documents.

The asn1tools mapping layers (jer.*.encode/decode: value <-> JSON-compatible object;
xer.*.encode/encode_of/decode/decode_of and indent_xml: value <-> ElementTree) and the real
CompiledType.encode/decode wrappers run on symbolic values.  The C-implemented serialisers
(json.dumps/loads, ElementTree.tostring/fromstring) are replaced, during the symbolic run only, by
their documented contracts (models/textenv.py): what they accept, what makes the output not a
JSON text / not well-formed XML, and what the parser returns (tuples as lists; empty text as None;
CR LF and CR as LF).  z3 proves on every path that decode(encode(v)) is the abstract value v.
Each path's witness is then pushed through the REAL public pipeline for every indent in
{None, 0, 1, 4}: Specification.encode -> an independent reader (strict RFC 8259 validator /
xml.dom.minidom) -> Specification.decode, which validates the environment models and is a
violation of its own when it fails.

XER REAL (kernel jobs): the value is given by its shortest decimal text -- the contract of
repr(float) -- with symbolic digits; the real Real.encode / Real.decode string manipulation runs on
it and z3 proves that the decimal value written equals the decimal value of the input (float()
is correctly rounded, so equal decimal value means the same double).
"""
import sys
import os
sys.path.insert(0, os.path.dirname(os.path.dirname(os.path.abspath(__file__))))
import json
import math
import z3

from lib import codec as C
from lib.codec import asn1tools
from lib import runner
from lib.symvalue import Gen, Equiv, Bounds, Mismatch, concretize, jsonable, unjson
import corpus
import pyfront
from pyfront import shimmed, unshimmed, SymStr, SymBytes, SymInt
from symcore import Inconclusive, HarnessError, Engine
from models import textenv

PROP = 'C02'
MODS = C.CODEC_MODS + C.TEXT_MODS
ALL_INDENTS = (None, 0, 1, 4)
XER_INDENTS = {'quick': (None, 1), 'thorough': ALL_INDENTS}

import xml.etree.ElementTree as _RealET
import json as _real_json
XML_STUB = textenv.make_xml_stub(_RealET)

EXTRA = []


def _T(id, body, **kw):
    EXTRA.append(dict(id=id, text='T DEFINITIONS AUTOMATIC TAGS ::= BEGIN\n%s\nEND\n' % body, type='A', module='T',
                      feats=set(kw.get('feats', ())), tie=None, quick={}))


# list-element forms of XER (encode_of/decode_of), strings with markup characters, empty values
_T('t-of-choice', 'A ::= SEQUENCE OF CHOICE { b BOOLEAN, e ENUMERATED { x, y }, n NULL, s UTF8String, i INTEGER }')
_T('t-of-bool', 'A ::= SEQUENCE OF BOOLEAN')
_T('t-of-enum', 'A ::= SET OF ENUMERATED { red, green, ..., blue }')
_T('t-of-null', 'A ::= SEQUENCE OF NULL')
_T('t-of-of', 'A ::= SEQUENCE OF SEQUENCE OF CHOICE { a BOOLEAN, b INTEGER (0..7) }')
_T('t-of-str', 'A ::= SEQUENCE OF IA5String')
_T('t-seq-strs', 'A ::= SEQUENCE { a UTF8String, b IA5String OPTIONAL, c OCTET STRING, d BIT STRING }')
_T('t-null-opt', 'A ::= SEQUENCE { id INTEGER (0..7), flag NULL OPTIONAL, count INTEGER (0..7) }')
_T('t-null-default', 'A ::= SEQUENCE { a BOOLEAN, d NULL DEFAULT NULL }')
_T('t-rec-choice', 'A ::= CHOICE { lit INTEGER (0..7), sum SEQUENCE OF A, neg A }')
_T('t-rec-seq', 'A ::= SEQUENCE { v BOOLEAN, kids SEQUENCE OF A OPTIONAL }')
_T('t-real-seq', 'A ::= SEQUENCE { r REAL, l SEQUENCE OF REAL }')
_T('t-bits-fixed-seq', 'A ::= SEQUENCE { f BIT STRING (SIZE (12)), v BIT STRING (SIZE (0..9)), n BIT STRING { a(0), b(5) } }')
_T('t-choice-ext', 'A ::= SEQUENCE { c CHOICE { a BOOLEAN, ..., b OCTET STRING }, e ENUMERATED { p, ..., q } }')
BY_ID = dict(corpus.BY_ID)
for _t in EXTRA:
    BY_ID[_t['id']] = _t

QUICK_IDS = ['bool', 'null', 'int', 'enum', 'enum-ext', 'octets', 'bits', 'bits-fixed', 'bits-named', 'seq-basic', 'seq-opt',
             'seq-ext-group', 'set-basic', 'choice', 'choice-ext', 'seqof', 'setof', 'ia5', 'utf8', 'bmp', 'oid', 'real',
             'combo-uper6', 'combo-str-seq', 'combo-rec-choice', 'combo-bits-default', 'combo-recursive',
             'c13-enum-default'] + [t['id'] for t in EXTRA]


def bounds_for(tier):
    if tier == 'quick':
        return Bounds(int_abs=1 << 17, n_len=2, depth=4, str_len=2, oid_arcs=3, complete_additions=True)
    return Bounds(int_abs=1 << 70, n_len=3, depth=5, str_len=3, oid_arcs=4, complete_additions=True)


def jobs_for(tier):
    jobs = []
    if tier == 'quick':
        tpls = [BY_ID[i] for i in QUICK_IDS]
    else:
        tpls = [t for t in corpus.TEMPLATES if not (t['feats'] & {'heavy', 'spill'})] + EXTRA + corpus.generated()
    if tier == 'quick':
        tpls = tpls + corpus.generated(quick=True)
    for t in tpls:
        nes = (False, True) if ('enum' in t['feats'] or t['id'] in ('t-of-enum', 't-of-choice', 'seq-opt')) else (False,)
        for ne in nes:
            jobs.append(dict(id='%s/jer%s' % (t['id'], '/numeric' if ne else ''), template=t['id'], codec='jer',
                             indent=None, numeric_enums=ne, tier=corpus.job_tier(t, tier), W=256, kind='roundtrip'))
            for ind in XER_INDENTS[tier]:
                jobs.append(dict(id='%s/xer/indent=%s%s' % (t['id'], ind, '/numeric' if ne else ''), template=t['id'],
                                 codec='xer', indent=ind, numeric_enums=ne, tier=corpus.job_tier(t, tier), W=256, kind='roundtrip'))
    return jobs


def xml_domain(ctx, v):
    """XER: strings are restricted to XML 1.0 Char (the property's own restriction)"""
    if isinstance(v, SymStr):
        for c in v.cp:
            if not isinstance(c, str):
                ctx.eng.assume(textenv.xml_char_cond(c))
    elif isinstance(v, dict):
        for x in v.values():
            xml_domain(ctx, x)
    elif isinstance(v, (list, tuple)):
        for x in v:
            xml_domain(ctx, x)


class Stubbed:
    """json / ElementTree of the text codec modules replaced by the environment models"""

    def __enter__(self):
        self.old = (C.jer.json, C.xer.ElementTree)
        C.jer.json = textenv.JsonStub
        C.xer.ElementTree = XML_STUB

    def __exit__(self, *a):
        C.jer.json, C.xer.ElementTree = self.old


class Real_:
    """the real serialisers (cross-validation and replay)"""

    def __enter__(self):
        self.old = (C.jer.json, C.xer.ElementTree)
        C.jer.json = _real_json
        C.xer.ElementTree = _RealET

    def __exit__(self, *a):
        C.jer.json, C.xer.ElementTree = self.old


def independent_read(codec, data):
    """None when the document is a valid JSON text / well-formed XML, else the reason"""
    try:
        text = data.decode('utf-8')
    except UnicodeDecodeError as e:
        return 'not UTF-8: %s' % e
    if codec == 'jer':
        try:
            textenv.json_validate(text)
        except ValueError as e:
            return 'not a JSON text: %s' % e
        return None
    import xml.dom.minidom
    try:
        xml.dom.minidom.parseString(data)
    except Exception as e:
        return 'not well-formed XML: %s' % e
    return None


def concrete_run(spec, tpl, codec, cv, indents):
    """real public API on a concrete value (phase 1: no engine needed).
    Returns (failure or None, [(indent, encoded, decoded)])"""
    out = []
    for ind in indents:
        try:
            enc = spec.encode(tpl['type'], cv, indent=ind)
        except Exception as e:
            return 'indent=%r: encode raised %s: %s' % (ind, type(e).__name__, str(e)[:120]), out
        bad = independent_read(codec, enc)
        if bad:
            return 'indent=%r: %r is %s' % (ind, enc[:120], bad), out
        try:
            dec = spec.decode(tpl['type'], enc)
        except Exception as e:
            return 'indent=%r: decode(%r) raised %s: %s' % (ind, enc[:120], type(e).__name__, str(e)[:120]), out
        out.append((ind, enc, dec))
    return None, out


def concrete_compare(cv, runs, eq, td, tpl):
    """phase 2: every decoded value is the abstract value cv"""
    for ind, enc, dec in runs:
        try:
            same = z3.is_true(z3.simplify(eq.equiv(cv, dec, td, tpl['module'])))
        except Mismatch as e:
            return 'indent=%r: %r -> %r -> %r (%s)' % (ind, cv, enc[:120], dec, e)
        if not same:
            return 'indent=%r: %r -> %r -> %r' % (ind, cv, enc[:120], dec)
    return None


def make_harness(job):
    if job['kind'] != 'roundtrip':
        from checks import C02_real
        return C02_real.make_harness(job)
    tpl = BY_ID[job['template']]
    codec = job['codec']
    parsed = asn1tools.parse_string(tpl['text'])
    spec = asn1tools.compile_string(tpl['text'], codec, numeric_enums=job['numeric_enums'])
    ct = spec.types[tpl['type']]
    gen = Gen(parsed, bounds_for(job['tier']), job['numeric_enums'], tie=tpl.get('tie'))
    eq = Equiv(gen, job['W'])
    pyfront.patch_lookup_dicts(spec)
    cands = C.Candidates(spec)
    td = parsed[tpl['module']]['types'][tpl['type']]

    def harness(ctx):
        cands.attach(ctx)
        with shimmed(MODS), Stubbed():
            v = gen.value(ctx, td, tpl['module'])
            if codec == 'xer':
                xml_domain(ctx, v)
            ctx.describe = lambda m: jsonable(concretize(v, m))
            try:
                ct.check_types(v)
                ct.check_constraints(v)
            except C.LIB_ERRORS:
                ctx.note('outside-domain(rejected by the library checks)')
                return
            state = 'ok'
            dec = None
            try:
                enc = ct.encode(v, indent=job['indent'])
            except textenv.NotWellFormed as e:
                state = ('document-not-well-formed', str(e)[:200])
            except asn1tools.EncodeError as e:
                state = ('encoder-rejects-valid-value', str(e)[:160])
            except Inconclusive:
                raise
            except Exception as e:
                state = ('encode-foreign-exception', repr(e)[:200])
            if state == 'ok':
                try:
                    dec = ct.decode(enc)
                except Inconclusive:
                    raise
                except textenv.NotWellFormed as e:
                    state = ('document-not-well-formed', str(e)[:200])
                except Exception as e:
                    state = ('decode-of-own-encoding-raises', repr(e)[:200])
            cond = None
            if state == 'ok':
                try:
                    cond = eq.equiv(v, dec, td, tpl['module'])
                except Mismatch as e:
                    state = ('roundtrip-shape', str(e))
            # --- the path's witness through the REAL pipeline, all indents (validates the models)
            m = ctx.eng.get_model()
            cv = concretize(v, m)
            with unshimmed(), Real_():
                fail, runs = concrete_run(spec, tpl, codec, cv, ALL_INDENTS)
            if fail is None:
                fail = concrete_compare(cv, runs, eq, td, tpl)
            ctx.res.xval += 1
            if state != 'ok':
                if fail is None:
                    # the symbolic run says this path fails; its first model passes concretely: the
                    # failing values are a sub-region of the path (e.g. one character being CR)
                    pass
                ctx.violation(state[0], state[1])
                return
            ok = ctx.prove('roundtrip', cond)
            if fail is not None and ok:
                # the real pipeline fails where the models predict success: a real violation that the
                # environment model does not explain -- reported (it is replayed like any other)
                ctx.violation('real-pipeline-fails', fail[:300])
                return
            if ok:
                ctx.sample({'job': job['id'], 'value': jsonable(cv)})
                ctx.note('roundtrip-proved')
    return harness


def replay(v):
    job = v['job']
    if job['kind'] != 'roundtrip':
        from checks import C02_real
        return C02_real.replay(v)
    tpl = BY_ID[job['template']]
    spec = asn1tools.compile_string(tpl['text'], job['codec'], numeric_enums=job['numeric_enums'])
    parsed = asn1tools.parse_string(tpl['text'])
    gen = Gen(parsed, bounds_for(job['tier']), job['numeric_enums'])
    eq = Equiv(gen, job['W'])
    td = parsed[tpl['module']]['types'][tpl['type']]
    cv = unjson(v['witness'].get('inputs'))
    eng = Engine(W=job['W'])
    Engine.cur = eng
    try:
        try:
            spec.encode(tpl['type'], cv, check_constraints=True, indent=None)
        except (asn1tools.ConstraintsError,) as e:
            return False, 'library rejects the value: %s' % e
        except Exception:
            pass
        fail, runs = concrete_run(spec, tpl, job['codec'], cv, ALL_INDENTS)
        if fail is None:
            fail = concrete_compare(cv, runs, eq, td, tpl)
    finally:
        Engine.cur = None
    if fail:
        return True, '%s %s: %s' % (job['codec'], tpl['id'], fail)
    return False, 'round-trip ok on the real library: %r' % (cv,)


def main(argv=None):
    a = runner.std_args(argv)
    if a.replay:
        return runner.cli_replay(PROP, 'checks.C02', replay, a.replay)
    jobs = jobs_for(a.tier)
    try:
        from checks import C02_real
        jobs += C02_real.jobs_for(a.tier)
    except ImportError:
        pass
    if a.only:
        jobs = [j for j in jobs if a.only in j['id']]
    b = bounds_for(a.tier)
    return runner.run_check(
        PROP, 'checks.C02', jobs, a.tier, a.seed, replay=replay, nproc=a.nproc,
        functions=['asn1tools.codecs.jer.*.encode / decode (value <-> JSON-compatible object), jer.CompiledType.encode/decode',
                   'asn1tools.codecs.xer.*.encode / encode_of / decode / decode_of, xer.indent_xml, xer.CompiledType.encode/decode',
                   'asn1tools.codecs.xer.Real.encode/decode on symbolic decimal text (kernel jobs)',
                   'asn1tools.codecs.type_checker.*, constraints_checker.*', 'asn1tools.codecs.format_bytes'],
        bounds=dict(b.as_dict(), templates=len({j.get('template') for j in jobs}),
                    xer_indents_symbolic=list(XER_INDENTS[a.tier]), indents_real_pipeline=list(ALL_INDENTS),
                    strings='every character a solver variable over the type repertoire (XER: intersected with XML 1.0 Char)'),
        assumptions=['json.dumps/loads and ElementTree.tostring/fromstring behave as modelled in models/textenv.py '
                     '(documented contracts); validated on every path by running the real pipeline on the witness',
                     'XER strings restricted to XML 1.0 Char (stated by the property)',
                     'REAL in the round-trip jobs: fixed list of values; XER REAL digits: kernel jobs on symbolic decimal text '
                     'under the contract of repr(float)/float(str)'],
        stubs=['jer.json -> models.textenv.JsonStub, xer.ElementTree.tostring/fromstring -> models.textenv XML model '
               '(symbolic run only)', 'builtin shims as in C01 also in jer, xer'],
        outside=['time types, ANY, EXTERNAL', 'internals of json / expat / ElementTree', 'JER REAL digits (json float repr)',
                 'strings/lists longer than the bounds'])


if __name__ == '__main__':
    sys.exit(main())
