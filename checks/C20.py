"""C20 -- GSER output is well-formed value notation that determines the value.

The real gser encoder runs on symbolic values; the text it builds is a genuine ``str`` in which
every symbolic character / digit / decimal number is a placeholder (pyfront text layer).  An
independent RFC 3641 reader (models/rfc3641.py), type-directed by the parsed dictionary, reads
the (character | variable) sequence back, forking on every test of a symbolic item; z3 proves
that the value read equals the value encoded.  Because the reader is a function of the text
alone, "two different values never produce the same text" follows on every path where the
read-back is proved; a second, direct harness asks the solver for two different values of a
template whose texts coincide position by position.
"""
import sys
import os
sys.path.insert(0, os.path.dirname(os.path.dirname(os.path.abspath(__file__))))
import json
import z3

from lib import codec as C
from lib.codec import asn1tools
from lib import runner
from lib.symvalue import Gen, Equiv, Bounds, Mismatch, concretize, jsonable, unjson, members_of
import corpus
import pyfront
from pyfront import shimmed, unshimmed, text_items, SymStr, SymBytes, SymInt, to_z3bool
from symcore import Inconclusive, HarnessError, Engine
from models import rfc3641

PROP = 'C20'
MODS = C.CODEC_MODS + C.TEXT_MODS
INDENTS = {'quick': (None, 2), 'thorough': (None, 0, 2, 4)}

EXTRA = []


def _T(id, body, **kw):
    EXTRA.append(dict(id=id, text='T DEFINITIONS AUTOMATIC TAGS ::= BEGIN\n%s\nEND\n' % body, type='A', module='T',
                      feats=set(kw.get('feats', ())), tie=None, quick={}))


# templates aimed at the textual forms: strings next to further members (a quote inside one
# string must not be able to imitate the following component), strings inside lists and CHOICEs,
# degenerate values
_T('g-two-strings', 'A ::= SEQUENCE { a UTF8String, b UTF8String OPTIONAL, c IA5String OPTIONAL }')
_T('g-strings-of', 'A ::= SEQUENCE OF UTF8String')
_T('g-choice-str', 'A ::= CHOICE { s UTF8String, t SEQUENCE { u PrintableString, v BOOLEAN }, '
   'l SEQUENCE OF CHOICE { x IA5String, y NULL } }')
_T('g-set-mixed', 'A ::= SET { a BIT STRING, b OCTET STRING, c VisibleString DEFAULT "x", d INTEGER OPTIONAL }')
_T('g-nested-lists', 'A ::= SEQUENCE OF SEQUENCE OF INTEGER')
_T('g-enum-choice', 'A ::= SEQUENCE OF CHOICE { e ENUMERATED { true, false, null }, b BOOLEAN, n NULL, '
   'o OBJECT IDENTIFIER }')
_T('g-bmp-seq', 'A ::= SEQUENCE { a BMPString, b NumericString, c UniversalString OPTIONAL }')
_T('g-real-seq', 'A ::= SEQUENCE { r REAL, s UTF8String }')
_T('g-pair-strings', 'A ::= SEQUENCE { a UTF8String, b UTF8String OPTIONAL }')
_T('g-pair-mixed', 'A ::= SET { a BIT STRING, b OCTET STRING, c VisibleString DEFAULT "x", d BOOLEAN OPTIONAL }')
_T('g-empty', 'A ::= SEQUENCE { a SEQUENCE {} , b SEQUENCE OF NULL, c SET OF BOOLEAN }')
BY_ID = dict(corpus.BY_ID)
for _t in EXTRA:
    BY_ID[_t['id']] = _t

QUICK_IDS = ['bool', 'null', 'int', 'enum', 'enum-ext', 'octets', 'octets-range', 'bits', 'bits-fixed', 'bits-named',
             'seq-basic', 'seq-opt', 'seq-ext-group', 'set-basic', 'choice', 'choice-ext', 'seqof', 'setof',
             'ia5', 'utf8', 'printable', 'bmp', 'oid', 'real', 'combo-uper6', 'combo-str-seq', 'combo-rec-choice',
             'combo-bits-default'] + [t['id'] for t in EXTRA]


def bounds_for(tier):
    if tier == 'quick':
        return Bounds(int_abs=1 << 17, n_len=2, depth=4, str_len=2, oid_arcs=3, complete_additions=True)
    return Bounds(int_abs=1 << 64, n_len=3, depth=5, str_len=3, oid_arcs=4, complete_additions=True)


PAIR_IDS = {'quick': ['g-pair-strings', 'g-strings-of', 'combo-str-seq'],
            'thorough': ['g-pair-strings', 'g-strings-of', 'combo-str-seq', 'g-choice-str', 'g-pair-mixed', 'g-bmp-seq']}


def jobs_for(tier):
    jobs = []
    if tier == 'quick':
        tpls = [BY_ID[i] for i in QUICK_IDS]
    else:
        tpls = [t for t in corpus.TEMPLATES if not (t['feats'] & {'heavy', 'spill'})] + EXTRA + corpus.generated()
    if tier == 'quick':
        tpls = tpls + corpus.generated(quick=True)
    for t in tpls:
        for ind in INDENTS[tier]:
            for ne in ((False, True) if ('enum' in t['feats'] and tier == 'thorough') else (False,)):
                jobs.append(dict(id='%s/indent=%s%s' % (t['id'], ind, '/numeric' if ne else ''), template=t['id'],
                                 indent=ind, numeric_enums=ne, tier=corpus.job_tier(t, tier), W=256, kind='readback'))
    from checks import C02_real
    for layout in ('fixed', 'exp'):
        for ind in INDENTS[tier][:2]:
            jobs.append(dict(id='kernel/gser-real/%s/indent=%s' % (layout, ind), kind='gser-real', layout=layout, part=0,
                             parts=1, tier=tier, W=384, template='real', indent=ind, numeric_enums=False))
    for i in PAIR_IDS[tier]:
        for ind in ((None,) if tier == 'quick' else (None, 2)):
            jobs.append(dict(id='pair/%s/indent=%s' % (i, ind), template=i, indent=ind, numeric_enums=False,
                             tier=tier, W=256, kind='pair'))
    return jobs


class Compiled:
    def __init__(self, job):
        tpl = BY_ID[job['template']]
        self.tpl = tpl
        self.parsed = asn1tools.parse_string(tpl['text'])
        self.spec = asn1tools.compile_string(tpl['text'], 'gser', numeric_enums=job['numeric_enums'])
        self.ct = self.spec.types[tpl['type']]
        b = bounds_for(job['tier'])
        if job['kind'] == 'pair':
            b.n_len, b.str_len, b.int_abs = min(b.n_len, 2), min(b.str_len, 2), 1 << 10
        self.gen = Gen(self.parsed, b, job['numeric_enums'], tie=tpl.get('tie'))
        self.eq = Equiv(self.gen, job['W'])
        self.td = self.parsed[tpl['module']]['types'][tpl['type']]
        pyfront.patch_lookup_dicts(self.spec)
        self.cands = C.Candidates(self.spec)
        self.bounds = b


def encode_text(cj, job, ctx, v, tag=''):
    """real encoder on a symbolic value -> item list, or None after recording an outcome"""
    try:
        cj.ct.check_types(v)
        cj.ct.check_constraints(v)
    except C.LIB_ERRORS:
        ctx.note('outside-domain(rejected by the library checks)')
        return None
    try:
        enc = cj.spec.encode(cj.tpl['type'], v, indent=job['indent'])
    except asn1tools.EncodeError as e:
        ctx.violation('encoder-rejects-valid-value' + tag, str(e)[:160])
        return None
    except Exception as e:
        ctx.violation('encode-foreign-exception' + tag, repr(e)[:200])
        return None
    if isinstance(enc, SymBytes):
        raise Inconclusive('gser returned symbolic bytes (text was not built from formatted str)')
    if not isinstance(enc, (bytes, bytearray)):
        ctx.violation('encode-result-not-bytes' + tag, type(enc).__name__)
        return None
    try:
        text = bytes(enc).decode('utf-8')
    except UnicodeDecodeError as e:
        ctx.violation('output-not-utf8' + tag, str(e))
        return None
    return text_items(text)


def xval(cj, job, ctx, v, items):
    """the symbolic text under the path's model == what the unshimmed library writes"""
    m = ctx.eng.get_model()
    cv = concretize(v, m)
    want = rfc3641.render(items, m)
    with unshimmed():
        try:
            got = cj.spec.encode(cj.tpl['type'], cv, indent=job['indent']).decode('utf-8')
        except Exception as e:
            raise HarnessError('xval: concrete encode raised %r for %r' % (e, cv))
    if got != want:
        raise HarnessError('xval mismatch for %r: symbolic %r, concrete %r' % (cv, want, got))
    ctx.res.xval += 1
    return cv, got


def make_harness(job):
    cj = Compiled(job)
    tpl = cj.tpl
    if job['kind'] == 'pair':
        return make_pair_harness(job, cj)
    if job['kind'] == 'gser-real':
        return make_real_harness(job, cj)

    def harness(ctx):
        cj.cands.attach(ctx)
        with shimmed(MODS):
            v = cj.gen.value(ctx, cj.td, tpl['module'])
            ctx.describe = lambda m: jsonable(concretize(v, m))
            items = encode_text(cj, job, ctx, v)
            if items is None:
                return
            cv, got = xval(cj, job, ctx, v, items)
            ctx.sample({'job': job['id'], 'value': jsonable(cv), 'text': got})
            rd = rfc3641.Reader(items, cj.gen.spec, job['numeric_enums'], cj.eq.default_value)
            try:
                back = rd.assignment(tpl['type'], cj.td, tpl['module'])
            except rfc3641.ParseError as e:
                ctx.violation('text-not-well-formed', str(e)[:200])
                return
            try:
                cond = cj.eq.equiv(v, back, cj.td, tpl['module'])
            except Mismatch as e:
                ctx.violation('read-back-shape', str(e))
                return
            if ctx.prove('read-back-equals-value', cond):
                ctx.note('read-back-proved')
    return harness


def normalize(cj, v, td, module):
    """value with every absent DEFAULT component filled in (abstract-value view, both sides of a
    comparison of two encoder inputs)"""
    spec = cj.gen.spec
    rtd, rmod, _ = spec.resolve(td, module)
    t = rtd['type']
    if t in ('SEQUENCE', 'SET'):
        out = {}
        for m, _a in members_of(rtd):
            n = m['name']
            if n in v:
                out[n] = normalize(cj, v[n], m, rmod)
            elif 'default' in m:
                mt, mm, _ = spec.resolve(m, rmod)
                out[n] = cj.eq.default_value(m, mt, mm)
        return out
    if t == 'CHOICE':
        for m, _a in members_of(rtd):
            if m['name'] == v[0]:
                return (v[0], normalize(cj, v[1], m, rmod))
        return v
    if t in ('SEQUENCE OF', 'SET OF'):
        return [normalize(cj, x, rtd['element'], rmod) for x in v]
    return v


def same_value(cj, a, b, td, module):
    """z3 condition: two encoder inputs are the same abstract value"""
    try:
        return cj.eq.equiv(normalize(cj, a, td, module), normalize(cj, b, td, module), td, module)
    except Mismatch:
        return z3.BoolVal(False)


def expand_tokens(ctx, items):
    """replace every decimal token of a small symbolic integer by its digit characters (the sign
    and the number of digits are solver decisions), so that two texts can be aligned"""
    out = []
    for it in items:
        if isinstance(it, str) or it[0] != 'int':
            out.append(it)
            continue
        v = it[1]
        if not isinstance(v, SymInt):
            out.extend(str(v))
            continue
        if max(abs(v.lo), abs(v.hi)) > 10 ** 6:
            raise Inconclusive('decimal token of a wide integer in the pair harness')
        neg = v.lo < 0 and (v.hi < 0 or ctx.eng.branch(v.e < 0))
        if neg:
            out.append('-')
        w = v.e.size() + 1
        mag = z3.SignExt(1, v.e)
        mag = -mag if neg else mag
        top = max(abs(v.lo), abs(v.hi))
        nd = 1
        while nd < len(str(top)) and not ctx.eng.branch(z3.ULT(mag, 10 ** nd)):
            nd += 1
        for k in reversed(range(nd)):
            d = z3.URem(z3.UDiv(mag, z3.BitVecVal(10 ** k, w)), z3.BitVecVal(10, w))
            d = z3.Extract(20, 0, d) if w > 21 else z3.ZeroExt(21 - w, d)
            out.append(('chr', d + 0x30))
    return out


def _has_token(items):
    return any(not isinstance(x, str) and x[0] == 'int' for x in items)


def make_real_harness(job, cj):
    """GSER REAL with symbolic decimal digits (contract of repr(float): pyfront/dec.py)"""
    from checks.C02_real import shapes, Installed
    from pyfront import dec as D
    fixed, exp = shapes(job['tier'])
    table = fixed if job['layout'] == 'fixed' else exp
    tpl = cj.tpl

    def harness(ctx):
        with shimmed(MODS), Installed(C.gser, float=D.float_shim, math=D.math_shim):
            k = ctx.choose('shape', len(table))
            negative = ctx.flag('negative')
            if job['layout'] == 'fixed':
                ni, nf = table[k]
                v = D.make_real(ctx, 'r', 'fixed', ni, nf, negative=negative)
            else:
                nf, ne, eneg = table[k]
                v = D.make_real(ctx, 'r', 'exp', 1, nf, ne=ne, negative=negative, exp_negative=eneg)
            if negative:
                # RFC 3641 has no notation for minus zero: outside "representable in the syntax"
                ctx.eng.assume(z3.Not(v.is_zero()))
            ctx.describe = lambda m: {'float': repr(v.concretize(m))}
            try:
                enc = cj.ct.encode(v, indent=job['indent'])
            except Inconclusive:
                raise
            except Exception as e:
                ctx.violation('encode-foreign-exception', repr(e)[:200])
                return
            items = text_items(bytes(enc).decode('utf-8'))
            m = ctx.eng.get_model()
            cv = v.concretize(m)
            want = rfc3641.render(items, m)
            with unshimmed():
                got = cj.spec.encode(tpl['type'], cv, indent=job['indent']).decode('utf-8')
            # the symbolic digit strings over-approximate repr(): a model need not be the shortest
            # text of its double, so the two texts are compared by the value they denote
            def val(t):
                t = t.split('::=')[1].strip()
                return float(t.replace('E', 'e')) if t != '0' else 0.0
            if got.split('::=')[0] != want.split('::=')[0] or val(got) != val(want) or val(got) != cv:
                raise HarnessError('xval mismatch for %r: symbolic %r, concrete %r' % (cv, want, got))
            ctx.res.xval += 1
            rd = rfc3641.Reader(items, cj.gen.spec)
            try:
                back = rd.assignment(tpl['type'], cj.td, tpl['module'])
            except rfc3641.ParseError as e:
                ctx.violation('text-not-well-formed', str(e)[:200])
                return
            if isinstance(back, float):
                if back != 0.0:
                    raise HarnessError('reader returned a concrete float for symbolic text')
                back = D.SymDec(False, [0], 0)      # the text "0"
            if ctx.prove('read-back-equals-value', D.same_double(v.decimal(), back)):
                ctx.sample({'job': job['id'], 'value': repr(cv), 'text': got})
                ctx.note('real-read-back-proved')
    return harness


def _items_equal(a, b):
    """z3 condition: two item sequences are the same text, or None when they cannot be (concrete
    mismatch / different length).  Items are compared position-wise; a decimal token is compared
    with a decimal token (decimal rendering is injective); token against anything else is
    outside the comparison (inconclusive)."""
    if len(a) != len(b):
        if _has_token(a) or _has_token(b):
            raise Inconclusive('texts with decimal tokens of unknown length cannot be aligned')
        return None
    conds = []
    for x, y in zip(a, b):
        xs, ys = isinstance(x, str), isinstance(y, str)
        if xs and ys:
            if x != y:
                return None
            continue
        if (not xs and x[0] == 'int') or (not ys and y[0] == 'int'):
            if not xs and not ys and x[0] == 'int' and y[0] == 'int':
                r = (x[1] == y[1])
                conds.append(to_z3bool(r))
                continue
            raise Inconclusive('decimal token aligned with other text')
        conds.append(_char_eq(x, y))
    return z3.And(conds) if conds else z3.BoolVal(True)


def _char_expr(it):
    """code point (BV21) of a single-character item"""
    if isinstance(it, str):
        return z3.BitVecVal(ord(it), 21)
    if it[0] == 'chr':
        return it[1]
    if it[0] == 'bit':
        return z3.ZeroExt(20, it[1]) + 0x30
    if it[0] == 'hex':
        e = z3.ZeroExt(17, it[1])
        return z3.If(z3.ULT(e, 10), e + 0x30, e + ((0x41 if it[2] else 0x61) - 10))
    raise Inconclusive('item %r' % (it[0],))


def _char_eq(x, y):
    return _char_expr(x) == _char_expr(y)


class _Sub:
    """prefixing view of a runner context: the second value's variables get their own names"""

    def __init__(self, ctx, prefix):
        self._c, self._p = ctx, prefix
        self.eng = ctx.eng
        self.res = ctx.res
        self.shape = ctx.shape

    def int(self, name, lo, hi):
        return self._c.int(self._p + name, lo, hi)

    def bv(self, name, bits):
        return self._c.bv(self._p + name, bits)

    def bytes(self, name, n):
        return self._c.bytes(self._p + name, n)

    def choose(self, name, n):
        return self._c.choose(self._p + name, n)

    def flag(self, name):
        return self._c.flag(self._p + name)

    def assume(self, c):
        return self._c.assume(c)

    def note(self, *a):
        return self._c.note(*a)


def make_pair_harness(job, cj):
    tpl = cj.tpl

    def harness(ctx):
        cj.cands.attach(ctx)
        with shimmed(MODS):
            v1 = cj.gen.value(ctx, cj.td, tpl['module'])
            v2 = cj.gen.value(_Sub(ctx, '2:'), cj.td, tpl['module'])
            ctx.describe = lambda m: {'v1': jsonable(concretize(v1, m)), 'v2': jsonable(concretize(v2, m))}
            i1 = encode_text(cj, job, ctx, v1)
            if i1 is None:
                return
            i2 = encode_text(cj, job, ctx, v2, tag='(2)')
            if i2 is None:
                return
            xval(cj, job, ctx, v1, i1)
            i1, i2 = expand_tokens(ctx, i1), expand_tokens(ctx, i2)
            same_text = _items_equal(i1, i2)
            if same_text is None:
                ctx.note('texts-differ-structurally')
                ctx.res.proved += 1
                return
            sv = same_value(cj, v1, v2, cj.td, tpl['module'])
            if ctx.prove('equal-text-implies-equal-value', z3.Implies(same_text, sv)):
                ctx.note('injective-on-path')
    return harness


# ---------------------------------------------------------------------------------------------
def replay(v):
    """public API on the unshimmed library + the same reader on the concrete text"""
    job = v['job']
    tpl = BY_ID[job['template']]
    spec = asn1tools.compile_string(tpl['text'], 'gser', numeric_enums=job['numeric_enums'])
    parsed = asn1tools.parse_string(tpl['text'])
    gen = Gen(parsed, bounds_for(job['tier']), job['numeric_enums'])
    eq = Equiv(gen, job['W'])
    td = parsed[tpl['module']]['types'][tpl['type']]
    inp = unjson(v['witness'].get('inputs'))
    if job['kind'] == 'gser-real':
        inp = float(v['witness']['inputs']['float'])
    eng = Engine(W=job['W'])
    Engine.cur = eng
    try:
        if job['kind'] == 'pair':
            a, b = inp['v1'], inp['v2']
            try:
                ta = spec.encode(tpl['type'], a, indent=job['indent'])
                tb = spec.encode(tpl['type'], b, indent=job['indent'])
            except Exception as e:
                return True, 'encode raised %r' % (e,)
            same = z3.is_true(z3.simplify(same_value(_CJ(gen, eq), a, b, td, tpl['module'])))
            if ta == tb and not same:
                return True, 'values %r and %r both encode to %r' % (a, b, ta.decode('utf-8'))
            return False, 'texts differ or values equal: %r / %r' % (ta, tb)
        try:
            enc = spec.encode(tpl['type'], inp, indent=job['indent'])
        except Exception as e:
            if v['label'].startswith(('encoder-rejects', 'encode-foreign')):
                return True, 'encode(%r, indent=%r) raised %s: %s' % (inp, job['indent'], type(e).__name__, str(e)[:120])
            return False, 'encode raised %r' % (e,)
        try:
            text = enc.decode('utf-8')
        except UnicodeDecodeError as e:
            return True, 'output is not UTF-8: %s' % e
        rd = rfc3641.Reader(list(text), gen.spec, job['numeric_enums'], eq.default_value)
        try:
            back = rd.assignment(tpl['type'], td, tpl['module'])
        except rfc3641.ParseError as e:
            return True, 'value %r -> %r: not readable as RFC 3641 text: %s' % (inp, text, e)
        try:
            same = z3.is_true(z3.simplify(eq.equiv(inp, _plain(back), td, tpl['module'])))
        except Mismatch as e:
            return True, 'value %r -> %r reads back differently (%s)' % (inp, text, e)
        if not same:
            return True, 'value %r -> %r reads back as %r' % (inp, text, _plain(back))
        return False, 'reads back correctly: %r' % text
    finally:
        Engine.cur = None


class _CJ:
    def __init__(self, gen, eq):
        self.gen, self.eq = gen, eq


def _plain(v):
    """reader result on concrete text -> plain python value"""
    if isinstance(v, SymStr):
        return ''.join(c if isinstance(c, str) else chr(z3.simplify(c).as_long()) for c in v.cp)
    if isinstance(v, SymBytes):
        return bytes(z3.simplify(c).as_long() for c in v.c)
    if isinstance(v, dict):
        return {k: _plain(x) for k, x in v.items()}
    if isinstance(v, list):
        return [_plain(x) for x in v]
    if isinstance(v, tuple):
        return tuple(_plain(x) for x in v)
    if hasattr(v, 'arcs'):
        return '.'.join(str(a) for a in v.arcs)
    return v


def main(argv=None):
    a = runner.std_args(argv)
    if a.replay:
        return runner.cli_replay(PROP, 'checks.C20', replay, a.replay)
    jobs = jobs_for(a.tier)
    if a.only:
        jobs = [j for j in jobs if a.only in j['id']]
    b = bounds_for(a.tier)
    return runner.run_check(
        PROP, 'checks.C20', jobs, a.tier, a.seed, replay=replay, nproc=a.nproc,
        functions=['asn1tools.codecs.gser.*.encode (all per-type textual forms, MembersType/ArrayType/Choice layout)',
                   'asn1tools.codecs.gser.CompiledType.encode ("name Type ::= value" wrapper, indentation)',
                   'asn1tools.compiler.Specification.encode', 'asn1tools.codecs.type_checker.*',
                   'asn1tools.codecs.format_bytes'],
        bounds=dict(b.as_dict(), templates=len({j['template'] for j in jobs}), indents=list(INDENTS[a.tier]),
                    strings='every character a solver variable over the whole repertoire of the string type '
                            '(so ", {, }, comma, space, line feed and non-ASCII are included)',
                    pair_harness='two symbolic values of one template, texts compared item by item'),
        assumptions=['the reader accepts SPACE/LINE FEED wherever RFC 3641 has sp/msp, around ":" and before "," '
                     '(lexical white-space; the indented layout is not in the RFC ABNF at all)',
                     'RFC 3641 ABNF recalled from memory (text not available offline)',
                     'REAL values are the fixed list of lib.symvalue.Gen._real (repr text is C code): enumerated, not symbolic'],
        stubs=['builtin shims as in C01 also in gser', 'formatted text = genuine str with placeholder characters '
               '(pyfront text layer); inspecting str methods on such text are modelled or make the path inconclusive'],
        outside=['time types, ANY, EXTERNAL', 'REAL beyond the listed values', 'strings/lists longer than the bounds'])


if __name__ == '__main__':
    sys.exit(main())
