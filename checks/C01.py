"""C01 -- binary codecs round-trip every value (ber, der, per, uper, oer)."""
import sys
import os
sys.path.insert(0, os.path.dirname(os.path.dirname(os.path.abspath(__file__))))
import z3

from lib import codec as C
from lib.codec import asn1tools
from lib import runner, symvalue
from lib.symvalue import Gen, Equiv, Bounds, Mismatch, concretize, jsonable, unjson
import corpus
import pyfront
from pyfront import SymBytes, shimmed, unshimmed
from symcore import Inconclusive, HarnessError

PROP = 'C01'
CANONICAL = ('der', 'per', 'uper', 'oer')


def bounds_for(tier, tpl=None):
    if tier == 'quick':
        b = Bounds(int_abs=1 << 17, n_len=2, depth=4, str_len=2, oid_arcs=3)
        for k, v in ((tpl or {}).get('quick') or {}).items():
            setattr(b, k, v)
        return b
    return Bounds(int_abs=1 << 40, n_len=3, depth=5, str_len=3, oid_arcs=4)


def jobs_for(tier):
    jobs = []
    if tier == 'quick':
        tpls = corpus.select(feats={'basic', 'ext', 'combo', 'manyadd'}, exclude={'real', 'spill'}) + \
            corpus.generated(quick=True, exclude={'real'})
    else:
        # REAL is outside (binary REAL coding goes through float/struct C code that the proxies do not model)
        tpls = [t for t in corpus.TEMPLATES if 'real' not in t['feats']] + corpus.generated(exclude={'real'})
    for t in tpls:
        for codec in C.BINARY_CODECS:
            if 'spill' in t['feats'] and codec not in ('per', 'uper'):
                continue      # > 4096 bits: about the PER/UPER accumulator spill
            for ne in ((False, True) if ('enum' in t['feats'] and tier == 'thorough') else (False,)):
                W = 256 if tier == 'quick' else 384
                jobs.append(dict(id='%s/%s%s' % (t['id'], codec, '/numeric' if ne else ''),
                                 template=t['id'], codec=codec, numeric_enums=ne, tier=corpus.job_tier(t, tier), W=W))
    for k in ('per-encoder', 'uper-encoder', 'oer-encoder', 'oer-length'):
        jobs.append(dict(id='kernel/' + k, kernel=k, tier=tier, codec=k.split('-')[0], numeric_enums=False, W=256))
    return jobs


def make_kernel_harness(job):
    from lib import kernels
    k = job['kernel']
    mods = {'per': C.per, 'uper': C.uper, 'oer': C.oer}

    def harness(ctx):
        with shimmed(C.CODEC_MODS):
            ctx.describe = lambda m: {'state': {n: m.eval(v, model_completion=True).as_long()
                                                for n, v in ctx.eng.vars.items()}}
            try:
                if k in ('per-encoder', 'uper-encoder'):
                    trace, cond, err = kernels.per_encoder_step(ctx, mods[k.split('-')[0]], k == 'per-encoder')
                elif k == 'oer-encoder':
                    trace, cond, err = kernels.oer_encoder_step(ctx, C.oer)
                elif k == 'oer-length':
                    cond, left = kernels.length_determinant_roundtrip(ctx, C.oer, 'oer')
                    trace, err = ['append_length_determinant;read_length_determinant'], None
                    if left != 0:
                        err = '%r bits left after reading the length determinant back' % (left,)
                else:
                    raise HarnessError('unknown kernel %s' % k)
            except Exception as e:
                ctx.violation('kernel-raises', '%s: %s' % (type(e).__name__, str(e)[:100]))
                return
            ctx.sample({'job': job['id'], 'ops': trace})
            if err:
                ctx.violation('kernel-bit-accounting', '%s after %s' % (err, trace))
                return
            ctx.prove('kernel-output-equals-bit-model', cond, info=' ; '.join(trace))
            ctx.note('kernel-proved')
    return harness


def make_harness(job):
    if job.get('kernel'):
        return make_kernel_harness(job)
    tpl = corpus.BY_ID[job['template']]
    codec = job['codec']
    parsed = asn1tools.parse_string(tpl['text'])
    spec = asn1tools.compile_string(tpl['text'], codec, numeric_enums=job['numeric_enums'])
    ct = spec.types[tpl['type']]
    gen = Gen(parsed, bounds_for(job['tier'], tpl), job['numeric_enums'], tie=tpl.get('tie'))
    eq = Equiv(gen, job['W'])
    pyfront.patch_lookup_dicts(spec)
    cands = C.Candidates(spec)
    td = parsed[tpl['module']]['types'][tpl['type']]

    def harness(ctx):
        cands.attach(ctx)
        with shimmed(C.CODEC_MODS):
            v = gen.value(ctx, td, tpl['module'])
            ctx.describe = lambda m: jsonable(concretize(v, m))
            try:
                ct.check_types(v)
                ct.check_constraints(v)
            except C.LIB_ERRORS:
                ctx.note('outside-domain(rejected by the library checks)')
                return
            try:
                enc = ct.encode(v)
            except asn1tools.EncodeError:
                ctx.note('encoder-rejects(EncodeError)')
                return
            except Exception as e:
                ctx.violation('encode-foreign-exception', repr(e)[:200])
                return
            # --- per-path cross-validation of the symbolic encoding against the real library
            m = ctx.eng.get_model()
            cv = concretize(v, m)
            want = enc.concrete(m) if isinstance(enc, SymBytes) else bytes(enc)
            with unshimmed():
                try:
                    got = bytes(ct.encode(cv))
                except Exception as e:
                    raise HarnessError('xval: concrete encode raised %r for %r' % (e, cv))
            if got != want:
                raise HarnessError('xval mismatch %r: symbolic %s concrete %s' % (cv, want.hex(), got.hex()))
            ctx.res.xval += 1
            ctx.sample({'job': job['id'], 'value': jsonable(cv), 'encoded': got.hex()})
            try:
                dec = ct.decode(enc)
            except Exception as e:
                ctx.violation('decode-of-own-encoding-raises', repr(e)[:200])
                return
            try:
                cond = eq.equiv(v, dec, td, tpl['module'])
            except Mismatch as e:
                ctx.violation('roundtrip-shape', str(e))
                return
            ok = ctx.prove('roundtrip', cond)
            if not ok:
                return
            try:
                ct.check_types(dec)
                ct.check_constraints(dec)
            except Exception as e:
                ctx.violation('decoded-value-rejected', repr(e)[:200])
                return
            if codec in CANONICAL:
                try:
                    enc2 = ct.encode(dec)
                except Exception as e:
                    ctx.violation('reencode-raises', repr(e)[:200])
                    return
                if len(enc2) != len(enc):
                    ctx.violation('reencode-length', '%d != %d' % (len(enc2), len(enc)))
                    return
                ctx.prove('reencode-identical', enc2 == enc)
            ctx.note('roundtrip-proved')
    return harness


def replay_kernel(v):
    """re-run a kernel witness concretely: same harness, every variable pinned to the model"""
    from symcore import Engine, run_path
    from lib.runner import Ctx
    job = v['job']
    vals = v['witness']['vars']
    h = make_kernel_harness(job)

    class PinCtx(Ctx):
        def _pin(self, name, var):
            self.eng.assume(var == vals[name])

        def bv(self, name, bits):
            x = super().bv(name, bits)
            self._pin(name, x)
            return x

        def bytes(self, name, n):
            b = super().bytes(name, n)
            for i, c in enumerate(b.c):
                self._pin('%s[%d]' % (name, i), c)
            return b

        def choose(self, name, n):
            if n <= 1:
                return super().choose(name, n)
            self.shape[name] = vals[name]
            return vals[name]

        def int(self, name, lo, hi):
            x = super().int(name, lo, hi)
            if isinstance(x, int):
                return x
            self._pin(name, x.e)
            return x
    res, eng = run_path(h, [], 256, ctx_factory=lambda e, r: PinCtx(e, r, job, []))
    if res.violations:
        return True, '%s: %s with state %s' % (res.violations[0]['label'], res.violations[0]['info'], vals)
    return False, 'kernel ok on the concrete state %s' % (vals,)


def replay(v):
    """re-run the witness on the real, unshimmed library through the public API"""
    job = v['job']
    if job.get('kernel'):
        return replay_kernel(v)
    tpl = corpus.BY_ID[job['template']]
    spec = asn1tools.compile_string(tpl['text'], job['codec'], numeric_enums=job['numeric_enums'])
    value = unjson(v['witness'].get('inputs'))
    name = tpl['type']
    try:
        enc = spec.encode(name, value, check_constraints=True)
    except asn1tools.EncodeError as e:
        return False, 'library rejects the value: %s' % e
    except asn1tools.ConstraintsError as e:
        return False, 'library rejects the value: %s' % e
    except Exception as e:
        return True, 'encode raised %r for %r' % (e, value)
    try:
        dec = spec.decode(name, enc)
    except Exception as e:
        return True, 'decode(%s) raised %r (value %r)' % (enc.hex(), e, value)
    parsed = asn1tools.parse_string(tpl['text'])
    gen = Gen(parsed, bounds_for(job['tier'], tpl), job['numeric_enums'])
    from symcore import Engine
    eng = Engine(W=job['W'])
    Engine.cur = eng
    try:
        td = parsed[tpl['module']]['types'][name]
        try:
            cond = Equiv(gen, job['W']).equiv(value, dec, td, tpl['module'])
            same = z3.is_true(z3.simplify(cond))
        except Mismatch as e:
            return True, 'value %r -> %s -> %r (%s)' % (value, enc.hex(), dec, e)
        if not same:
            return True, 'value %r -> %s -> %r' % (value, enc.hex(), dec)
        if job['codec'] in CANONICAL:
            try:
                enc2 = spec.encode(name, dec, check_constraints=True)
            except Exception as e:
                return True, 'decoded value %r rejected on re-encode: %r' % (dec, e)
            if bytes(enc2) != bytes(enc):
                return True, 're-encode differs: %s vs %s' % (enc.hex(), enc2.hex())
    finally:
        Engine.cur = None
    return False, 'round-trip ok on the real library: %r' % (value,)


def main(argv=None):
    a = runner.std_args(argv)
    if a.replay:
        return runner.cli_replay(PROP, 'checks.C01', replay, a.replay)
    jobs = jobs_for(a.tier)
    if a.only:
        jobs = [j for j in jobs if a.only in j['id']]
    b = bounds_for(a.tier)
    return runner.run_check(
        PROP, 'checks.C01', jobs, a.tier, a.seed, replay=replay, nproc=a.nproc,
        functions=C.functions_of(*C.CODEC_MODS),
        bounds=dict(b.as_dict(), templates=len({j['template'] for j in jobs if 'template' in j}), W=jobs[0]['W'] if jobs else 0),
        assumptions=['values are those accepted by the library\'s own check_types/check_constraints',
                     'BIT STRING values carry the minimal number of octets for their bit count'],
        stubs=['int/bytes/bytearray/str/hex/bin/ord/chr + binascii/struct shims injected into '
               'asn1tools.codecs.{ber,der,per,uper,oer,compiler,type_checker,constraints_checker}',
               'error-message formatting of symbolic values returns a placeholder'],
        outside=['time types', 'REAL beyond a fixed list of special/ordinary doubles',
                 'values whose encoding exceeds W bits (PER/OER big-int buffer)',
                 'lists/strings longer than n_len/str_len'])


if __name__ == '__main__':
    sys.exit(main())
