"""Import hook that loads the asn1tools modules from /repo's *current source* with one
semantics-preserving AST rewrite: a method call on a string/bytes *literal*
(``b''.join(xs)``, ``'.'.join(xs)``, ``'{}E{}'.format(a, b)``) is routed through
``__sym_lit__(literal, 'method', *args)``, and ``x in y`` / ``x not in y`` through
``__sym_in__(x, y)`` (same reason: ``str.__contains__`` rejects a proxy operand), and a
call of an *inspecting* str method (``upper``, ``strip``, ``replace``, ``find`` ...) on a computed
receiver through ``__sym_meth__(recv, 'method', *args)``, which performs exactly the original
call unless the receiver is a genuine ``str`` carrying placeholder characters of formatted
symbolic text (then: modelled, or the path is inconclusive -- never silently native).  CPython executes such calls in C and only
accepts genuine ``str``/``bytes`` arguments; the router falls back to exactly the
original call unless an argument is a symbolic proxy.  Nothing else is changed, and
with VERIF_PRISTINE=1 the hook is not installed at all (used by replays).
"""
import ast
import importlib.abc
import importlib.machinery
import importlib.util
import os
import sys

REPO = os.environ.get('VERIF_REPO', '/repo')
PREFIXES = ('asn1tools.codecs', 'asn1tools.parser', 'asn1tools.compiler', 'asn1tools.source')


_INSPECTING = frozenset((
    'upper lower strip lstrip rstrip replace split rsplit find rfind index rindex count '
    'startswith endswith partition rpartition splitlines translate title capitalize swapcase casefold isdigit '
    'isalpha isalnum isspace isupper islower isnumeric isdecimal isidentifier isprintable isascii zfill center '
    'ljust rjust expandtabs removeprefix removesuffix').split())


class _Rewrite(ast.NodeTransformer):
    def __init__(self):
        self.count = 0

    def visit_Call(self, node):
        self.generic_visit(node)
        f = node.func
        if (isinstance(f, ast.Attribute) and isinstance(f.value, ast.Constant)
                and isinstance(f.value.value, (str, bytes)) and not node.keywords
                and not any(isinstance(a, ast.Starred) for a in node.args)):
            self.count += 1
            new = ast.Call(func=ast.Name(id='__sym_lit__', ctx=ast.Load()),
                           args=[f.value, ast.Constant(value=f.attr)] + node.args, keywords=[])
            return ast.copy_location(new, node)
        if (isinstance(f, ast.Attribute) and f.attr in _INSPECTING and not node.keywords
                and not any(isinstance(a, ast.Starred) for a in node.args)):
            # an inspecting str method on a computed receiver: identical call unless the receiver is
            # a genuine str that carries placeholder characters (formatted symbolic text)
            self.count += 1
            new = ast.Call(func=ast.Name(id='__sym_meth__', ctx=ast.Load()),
                           args=[f.value, ast.Constant(value=f.attr)] + node.args, keywords=[])
            return ast.copy_location(new, node)
        return node

    def visit_Compare(self, node):
        self.generic_visit(node)
        if len(node.ops) == 1 and isinstance(node.ops[0], (ast.In, ast.NotIn)):
            self.count += 1
            call = ast.Call(func=ast.Name(id='__sym_in__', ctx=ast.Load()),
                            args=[node.left, node.comparators[0]], keywords=[])
            if isinstance(node.ops[0], ast.NotIn):
                call = ast.UnaryOp(op=ast.Not(), operand=call)
            return ast.copy_location(call, node)
        return node


def sym_in(item, container):
    if type(container) in (str, bytes, bytearray) and type(item) not in (str, bytes, int):
        from pyfront import native_contains
        return native_contains(item, container)
    if type(container) is str and type(item) is str:
        import pyfront
        if pyfront.Engine.cur is not None and (pyfront.has_placeholder(container) or pyfront.has_placeholder(item)):
            raise pyfront.Inconclusive("'in' inspects formatted text that carries symbolic content")
    return item in container


def sym_meth(recv, method, *args):
    if type(recv) is str:
        from pyfront import text_method
        return text_method(recv, method, args)
    return getattr(recv, method)(*args)


def sym_lit(recv, method, *args):
    from pyfront import literal_method
    return literal_method(recv, method, args)


class _Loader(importlib.abc.Loader):
    def __init__(self, path, is_pkg):
        self.path = path
        self.is_pkg = is_pkg

    def create_module(self, spec):
        return None

    def exec_module(self, module):
        with open(self.path, 'rb') as f:
            src = f.read()
        tree = ast.parse(src, self.path)
        rw = _Rewrite()
        tree = rw.visit(tree)
        ast.fix_missing_locations(tree)
        code = compile(tree, self.path, 'exec')
        module.__dict__['__sym_lit__'] = sym_lit
        module.__dict__['__sym_in__'] = sym_in
        module.__dict__['__sym_meth__'] = sym_meth
        module.__dict__['__sym_rewrites__'] = rw.count
        exec(code, module.__dict__)


class _Finder(importlib.abc.MetaPathFinder):
    def find_spec(self, fullname, path, target=None):
        if not any(fullname == p or fullname.startswith(p + '.') for p in PREFIXES):
            return None
        rel = fullname.replace('.', '/')
        pkg = os.path.join(REPO, rel, '__init__.py')
        mod = os.path.join(REPO, rel + '.py')
        if os.path.isfile(pkg):
            spec = importlib.machinery.ModuleSpec(fullname, _Loader(pkg, True), origin=pkg, is_package=True)
            spec.submodule_search_locations = [os.path.dirname(pkg)]
            return spec
        if os.path.isfile(mod):
            return importlib.machinery.ModuleSpec(fullname, _Loader(mod, False), origin=mod)
        return None


def install():
    if os.environ.get('VERIF_PRISTINE'):
        return False
    if any(isinstance(f, _Finder) for f in sys.meta_path):
        return True
    if any(m == 'asn1tools' or m.startswith('asn1tools.') for m in sys.modules):
        raise RuntimeError('asn1tools imported before the instrumentation hook')
    sys.meta_path.insert(0, _Finder())
    return True
