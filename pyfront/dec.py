"""Finite doubles given by their shortest decimal text (the contract of ``repr(float)``) with
symbolic digits, and the decimal value denoted by a piece of formatted text.

Contract used (CPython, David Gay's algorithm; stated as an assumption of every check that uses
this module):  for a finite double d, ``repr(d)`` / ``str(d)`` / ``'{}'.format(d)`` is the
shortest decimal text that ``float()`` maps back to d, in one of two layouts:

    fixed     [-] D+ . D+            1e-4 <= |d| < 1e16, or d == 0    ('0.0', '-0.0', '1234.5')
    exponent  [-] D [. D+] e(+|-)DD[D]   otherwise ('1e+22', '1.5e-07', '5e-324');  leading digit != 0

    integer part without superfluous leading zeros, fraction without trailing zeros except a
    single '0'; and ``float(text)`` is the correctly rounded value of the decimal number written,
    so two texts with the same decimal value (and sign) give the same double.

``SymReal`` is such a double: a sign, symbolic digit characters and an exponent.  The analysed
code sees it through ``repr``/``format`` (a SymStr), comparisons with 0 and the infinities, and
``float()`` (identity).  ``parse_decimal`` turns text produced by the analysed code back into a
decimal value; ``same_double`` is the z3 condition that two decimal values are equal.
"""
import z3

from symcore import E, Inconclusive
from pyfront import (SymStr, SymInt, SymBool, SymFloatBase, text_items, to_z3bool, fit, need)

W = 320     # bit width of the exact integer comparison (<= 38 digits scaled by <= 10^40)


class SymDec:
    """sign * int(digits) * 10**exp10; digits: list of BV4-valued z3 exprs (any width) or ints"""

    def __init__(self, negative, digits, exp10):
        self.negative = negative      # python bool
        self.digits = digits          # most significant first; items: int 0..9 or z3 BV (value 0..9)
        self.exp10 = exp10            # int or SymInt

    def magnitude(self):
        acc = z3.BitVecVal(0, W)
        for d in self.digits:
            if isinstance(d, int):
                dv = z3.BitVecVal(d, W)
            else:
                dv = z3.ZeroExt(W - d.size(), d)
            acc = acc * 10 + dv
        return acc


def _dexpr(d):
    return z3.BitVecVal(d, 4) if isinstance(d, int) else (d if d.size() == 4 else z3.Extract(3, 0, d))


def same_double(a, b, max_shift=400):
    """z3 Bool: decimal values a and b denote the same double (same sign, same decimal value;
    zero equals zero only with the same sign: -0.0 and 0.0 are different doubles).
    Both values are digit strings times a power of ten, so after appending the exponent
    difference as zeros and left-padding with zeros, equality of the numbers is equality of the
    digit strings -- no arithmetic needed."""
    if a.negative != b.negative:
        return z3.BoolVal(False)
    da, db = [_dexpr(d) for d in a.digits], [_dexpr(d) for d in b.digits]
    delta = a.exp10 - b.exp10
    if isinstance(delta, SymInt):
        delta = E().concretize(delta.e, signed=True)
    zero = z3.And([d == 0 for d in da + db])
    if abs(delta) > max_shift:
        return zero
    z = z3.BitVecVal(0, 4)
    if delta >= 0:
        da = da + [z] * delta
    else:
        db = db + [z] * (-delta)
    n = max(len(da), len(db))
    da = [z] * (n - len(da)) + da
    db = [z] * (n - len(db)) + db
    return z3.Or(zero, z3.And([x == y for x, y in zip(da, db)]))


class SymReal(SymFloatBase):
    """finite double with symbolic decimal digits.  layout: 'fixed' or 'exp'"""

    def __init__(self, negative, int_digits, frac_digits, exp=None, exp_text=None):
        self.negative = negative
        self.int_digits = int_digits      # list of BV21 code points ('0'..'9')
        self.frac_digits = frac_digits    # list (may be empty only in the exponent layout)
        self.exp = exp                    # None (fixed) or python int
        self.exp_text = exp_text          # e.g. '+22', '-07'

    def text(self):
        cps = (['-'] if self.negative else []) + list(self.int_digits)
        if self.frac_digits:
            cps += ['.'] + list(self.frac_digits)
        if self.exp is not None:
            cps += ['e'] + list(self.exp_text)
        return SymStr(cps)

    def decimal(self):
        ds = [c - 0x30 for c in self.int_digits + self.frac_digits]
        ds = [z3.Extract(3, 0, d) for d in ds]
        return SymDec(self.negative, ds, (self.exp or 0) - len(self.frac_digits))

    def is_zero(self):
        return z3.And([c == 0x30 for c in self.int_digits + self.frac_digits])

    # ---- what the analysed code may do with a float -------------------------------------------
    def __float__(self):
        raise Inconclusive('native float() of a symbolic real')

    def __repr__(self):
        raise Inconclusive('native repr of a symbolic real (use the repr shim)')

    def __format__(self, spec):
        if spec not in ('', 's', 'r'):
            raise Inconclusive('format spec %r on a symbolic real' % spec)
        return format(self.text(), '')

    def __str__(self):
        return str(self.text())

    def as_symstr(self):
        return self.text()

    def _cmp0(self, other, op):
        if isinstance(other, (int, float)) and not isinstance(other, bool):
            o = float(other)
            if o != o:
                return op == 'ne'
            if o in (float('inf'), float('-inf')):
                below = (o > 0)       # every finite value is below +inf and above -inf
                return {'eq': False, 'ne': True, 'lt': below, 'le': below, 'gt': not below, 'ge': not below}[op]
            if o == 0.0:
                z = self.is_zero()
                neg, pos = z3.BoolVal(self.negative), z3.BoolVal(not self.negative)
                cond = {'eq': z, 'ne': z3.Not(z), 'lt': z3.And(z3.Not(z), neg), 'le': z3.Or(z, neg),
                        'gt': z3.And(z3.Not(z), pos), 'ge': z3.Or(z, pos)}[op]
                return SymBool(cond)
        raise Inconclusive('comparison of a symbolic real with %r' % (other,))

    def __eq__(self, o):
        if o is self:
            return True
        return self._cmp0(o, 'eq')

    def __ne__(self, o):
        if o is self:
            return False          # finite: never NaN
        return self._cmp0(o, 'ne')

    def __lt__(self, o):
        return self._cmp0(o, 'lt')

    def __le__(self, o):
        return self._cmp0(o, 'le')

    def __gt__(self, o):
        return self._cmp0(o, 'gt')

    def __ge__(self, o):
        return self._cmp0(o, 'ge')

    def __hash__(self):
        return 0x5ea1

    def __abs__(self):
        raise Inconclusive('floating-point arithmetic on a symbolic real (abs)')

    def _arith(self, *a):
        raise Inconclusive('floating-point arithmetic on a symbolic real')

    __add__ = __radd__ = __sub__ = __rsub__ = __mul__ = __rmul__ = __truediv__ = __rtruediv__ = _arith
    __floordiv__ = __mod__ = __pow__ = __neg__ = _arith

    def concretize(self, model):
        return float(self.text().concrete(model))


def make_real(ctx, name, layout, ni, nf, ne=2, negative=False, exp_negative=False):
    """a SymReal of the given shape whose digits are solver variables constrained to the
    repr(float) contract of the layout"""
    def digit(n):
        c = ctx.bv(n, SymStr.CPW)
        ctx.eng.assume(z3.And(z3.UGE(c, 0x30), z3.ULE(c, 0x39)))
        return c
    ints = [digit('%s.i%d' % (name, k)) for k in range(ni)]
    fracs = [digit('%s.f%d' % (name, k)) for k in range(nf)]
    if layout == 'fixed':
        if nf < 1:
            raise ValueError('fixed layout has a fraction')
        if ni > 1:
            ctx.eng.assume(ints[0] != 0x30)                   # no superfluous leading zero
        if nf > 1:
            ctx.eng.assume(fracs[-1] != 0x30)                 # no trailing zero
        # fixed layout is used for 1e-4 <= |d| < 1e16 and for zero
        if ni == 1 and nf >= 5:
            # 0.0000x would be written in the exponent layout
            ctx.eng.assume(z3.Or(ints[0] != 0x30, z3.Or([f != 0x30 for f in fracs[:4]])))
        return SymReal(negative, ints, fracs)
    if ni != 1:
        raise ValueError('exponent layout has one integer digit')
    ctx.eng.assume(ints[0] != 0x30)
    if nf >= 1:
        ctx.eng.assume(fracs[-1] != 0x30)
    e = ctx.int('%s.exp' % name, 10 ** (ne - 1) if ne > 2 else 0, 10 ** ne - 1)
    # |exponent| >= 16 (positive) or >= 5 (negative) in repr; 2 digits minimum
    if exp_negative:
        ctx.assume(e >= 5)
    else:
        ctx.assume(e >= 16)
    ctx.assume(e <= 330)
    if isinstance(e, SymInt):
        digs = []
        ee = fit(e.e, 16)
        for k in reversed(range(ne)):
            d = z3.URem(z3.UDiv(ee, z3.BitVecVal(10 ** k, 16)), z3.BitVecVal(10, 16))
            digs.append(z3.ZeroExt(5, d) + 0x30)
    else:
        digs = list(('%0' + str(ne) + 'd') % e)
    exp_text = ['-' if exp_negative else '+'] + digs
    r = SymReal(negative, ints, fracs, exp=(-e if exp_negative else e), exp_text=exp_text)
    return r


def parse_decimal(x):
    """decimal value of text built by the analysed code: [sign] digits [. digits] [(e|E) [sign] digits]
    over concrete characters, symbolic characters and decimal tokens; ValueError as float() would"""
    if isinstance(x, SymReal):
        return x.decimal()
    if isinstance(x, SymStr):
        items = [c if isinstance(c, str) else ('chr', c) for c in x.cp]
    elif isinstance(x, str):
        items = text_items(x)
    else:
        raise Inconclusive('decimal text of a %s' % type(x).__name__)
    eng = E()

    def isch(it, chars):
        if it is None:
            return False
        if isinstance(it, str):
            return it in chars
        if it[0] == 'chr':
            return eng.branch(z3.Or([it[1] == ord(c) for c in chars]))
        return False

    def isdigit(it):
        if it is None:
            return False
        if isinstance(it, str):
            return it in '0123456789'
        if it[0] == 'chr':
            return eng.branch(z3.And(z3.UGE(it[1], 0x30), z3.ULE(it[1], 0x39)))
        return False

    def dval(it):
        return int(it) if isinstance(it, str) else z3.Extract(3, 0, it[1] - 0x30)
    pos = 0

    def peek():
        return items[pos] if pos < len(items) else None
    # leading / trailing white-space is accepted by float(); the encoders never write any
    negative = False
    if isch(peek(), '+-'):
        negative = isch(peek(), '-')
        pos += 1
    digits = []
    nfrac = 0
    nint = 0
    while isdigit(peek()):
        digits.append(dval(peek()))
        pos += 1
        nint += 1
    if isch(peek(), '.'):
        pos += 1
        while isdigit(peek()):
            digits.append(dval(peek()))
            pos += 1
            nfrac += 1
    if not digits:
        raise ValueError('could not convert string to float')
    exp = 0
    if isch(peek(), 'eE'):
        pos += 1
        it = peek()
        if it is not None and not isinstance(it, str) and it[0] == 'int':
            exp = it[1]
            pos += 1
        else:
            eneg = False
            if isch(peek(), '+-'):
                eneg = isch(peek(), '-')
                pos += 1
            ed = []
            while isdigit(peek()):
                ed.append(peek())
                pos += 1
            if not ed:
                raise ValueError('could not convert string to float')
            cps = [c if isinstance(c, str) else c[1] for c in ed]
            exp = eng.registry_int(SymStr(cps), 10)
            exp = -exp if eneg else exp
    if pos != len(items):
        raise ValueError('could not convert string to float')
    return SymDec(negative, digits, exp - nfrac)


class ParsedReal(SymFloatBase):
    """result of float(text): a decimal value (compared by the harness)"""

    def __init__(self, dec):
        self.dec = dec

    def decimal(self):
        return self.dec


def float_shim(x=0.0):
    if isinstance(x, SymReal):
        return x
    if isinstance(x, ParsedReal):
        return x
    if isinstance(x, SymStr) or (isinstance(x, str) and _has_symbolic(x)):
        return ParsedReal(parse_decimal(x))
    if isinstance(x, SymInt):
        raise Inconclusive('float() of a symbolic int')
    return float(x)


float_shim.__name__ = 'float'


def _has_symbolic(s):
    from pyfront import has_placeholder
    return has_placeholder(s)


def repr_shim(x):
    if isinstance(x, SymReal):
        return x.text()
    return repr(x)


class math_shim:
    """math module as seen by the text codecs: isnan/isinf on symbolic reals"""
    import math as _m

    @staticmethod
    def isnan(x):
        if isinstance(x, (SymReal, ParsedReal)):
            return False
        return math_shim._m.isnan(x)

    @staticmethod
    def isinf(x):
        if isinstance(x, (SymReal, ParsedReal)):
            return False
        return math_shim._m.isinf(x)

    def __getattr__(self, name):
        return getattr(math_shim._m, name)


for _n in dir(math_shim._m):
    if not _n.startswith('_') and not hasattr(math_shim, _n):
        setattr(math_shim, _n, getattr(math_shim._m, _n))
