"""pyfront ("pysym") -- proxy objects and builtin shims that let the REAL asn1tools
functions run on symbolic ints / bytes / digit strings.

All proxies have concrete length/shape and symbolic content.  Python ints are
modelled as signed bit-vectors of the engine width W; every SymInt carries a
conservative interval [lo, hi] (plain Python ints, computed by interval
arithmetic, no solver).  An operation whose interval leaves the signed W-bit
range aborts the path as Inconclusive ("width bound exceeded") -- the analogue
of an unwinding assertion.  Intervals also decide many comparisons without a
solver call.
"""
import builtins
import binascii as _binascii
import struct as _struct
import z3

from symcore import Engine, E, Inconclusive, HarnessError

_int = builtins.int
_bytes = builtins.bytes
_bytearray = builtins.bytearray
_str = builtins.str
_hex = builtins.hex
_bin = builtins.bin
_len = builtins.len
_isinstance = builtins.isinstance
_bool = builtins.bool
_ord = builtins.ord
_chr = builtins.chr
_float = builtins.float


def _bits(n):
    return _int(n).bit_length()


# ---------------------------------------------------------------------------
# SymBool
# ---------------------------------------------------------------------------
class SymBool:
    __slots__ = ('e',)

    def __init__(self, e):
        self.e = e

    def __bool__(self):
        return E().branch(self.e)

    def __invert__(self):
        return SymBool(z3.Not(self.e))

    def _asint(self):
        return SymInt(z3.If(self.e, z3.BitVecVal(1, 2), z3.BitVecVal(0, 2)), 0, 1)

    def __and__(self, o):
        if _isinstance(o, SymBool):
            return SymBool(z3.And(self.e, o.e))
        if o is True or o is False:
            return SymBool(z3.And(self.e, z3.BoolVal(o)))
        return self._asint() & o

    __rand__ = __and__

    def __or__(self, o):
        if _isinstance(o, SymBool):
            return SymBool(z3.Or(self.e, o.e))
        if o is True or o is False:
            return SymBool(z3.Or(self.e, z3.BoolVal(o)))
        return self._asint() | o

    __ror__ = __or__

    def __mul__(self, o):
        return self._asint() * o

    __rmul__ = __mul__

    def __add__(self, o):
        return self._asint() + o

    __radd__ = __add__

    def __index__(self):
        return 1 if _bool(self) else 0

    def __eq__(self, o):
        if _isinstance(o, SymBool):
            return SymBool(self.e == o.e)
        if o is True or o is False:
            return SymBool(self.e if o else z3.Not(self.e))
        if _isinstance(o, (SymInt, _int)):
            return self._asint() == o
        return NotImplemented

    def __ne__(self, o):
        r = self.__eq__(o)
        if r is NotImplemented:
            return r
        return SymBool(z3.Not(r.e))

    def __hash__(self):
        return hash(_bool(self))

    def __repr__(self):
        return '<symbool>'

    __str__ = __repr__

    def __format__(self, spec):
        return '<symbool>'


def to_z3bool(x):
    if _isinstance(x, SymBool):
        return x.e
    if _isinstance(x, SymInt):
        return x.e != 0
    if z3.is_expr(x):
        return x
    return z3.BoolVal(_bool(x))


# ---------------------------------------------------------------------------
# SymInt -- variable width: every expression is exactly as wide as its interval needs
# ---------------------------------------------------------------------------
MAXW = 8192      # beyond this many bits a value is outside every claim (Inconclusive)


def need(lo, hi):
    """signed two's complement width that holds every value of [lo, hi]"""
    a = lo.bit_length() if lo >= 0 else (~lo).bit_length()
    b = hi.bit_length() if hi >= 0 else (~hi).bit_length()
    return max(a, b) + 1


def fit(e, w):
    """resize a signed bit-vector expression to w bits (sign-extend or truncate)"""
    n = e.size()
    if n == w:
        return e
    if n < w:
        return z3.SignExt(w - n, e)
    return z3.Extract(w - 1, 0, e)


def _lift(x):
    """python int / bool / SymBool -> SymInt (constants become pinned SymInts)"""
    if _isinstance(x, SymInt):
        return x
    if _isinstance(x, SymBool):
        return x._asint()
    if _isinstance(x, _int):       # includes bool
        x = _int(x)
        w = need(x, x)
        if w > MAXW:
            raise Inconclusive('width bound exceeded (constant of %d bits)' % w)
        return SymInt(z3.BitVecVal(x, w), x, x)
    return None


def _mk(e, lo, hi):
    """result of an operation computed modulo 2^e.size(); the true value lies in [lo, hi]"""
    if lo == hi:
        return lo            # interval pinned: plain python int
    w = need(lo, hi)
    if w > MAXW:
        raise Inconclusive('width bound exceeded (%d bits needed)' % w)
    return SymInt(fit(e, w), lo, hi)


def _ring(a, b, op, lo, hi):
    """+ - * & | ^ : correct modulo 2^w, so operands may be truncated to the result width"""
    if lo == hi:
        return lo
    w = need(lo, hi)
    if w > MAXW:
        raise Inconclusive('width bound exceeded (%d bits needed)' % w)
    return SymInt(op(fit(a.e, w), fit(b.e, w)), lo, hi)


def _wide(a, b):
    """both operands at a common width that holds each exactly"""
    w = max(a.e.size(), b.e.size())
    return fit(a.e, w), fit(b.e, w)


def _floordiv_e(a, b):
    q = a / b            # z3 signed division truncates toward zero
    r = z3.SRem(a, b)
    return z3.If(z3.And(r != 0, (r < 0) != (b < 0)), q - 1, q)


def _mod_e(a, b):
    r = z3.SRem(a, b)
    return z3.If(z3.And(r != 0, (r < 0) != (b < 0)), r + b, r)


def _or_bounds(a, b):
    if a.lo >= 0 and b.lo >= 0:
        return max(a.lo, b.lo), (1 << max(_bits(a.hi), _bits(b.hi))) - 1
    n = max(_bits(a.lo), _bits(a.hi), _bits(b.lo), _bits(b.hi))
    return -(1 << n), (1 << n) - 1


def _and_bounds(a, b):
    if a.lo >= 0 and b.lo >= 0:
        return 0, min(a.hi, b.hi)
    if a.lo >= 0:
        return 0, a.hi
    if b.lo >= 0:
        return 0, b.hi
    n = max(_bits(a.lo), _bits(a.hi), _bits(b.lo), _bits(b.hi))
    return -(1 << n), (1 << n) - 1


class SymInt:
    __slots__ = ('e', 'lo', 'hi')

    def __init__(self, e, lo, hi):
        self.e = e
        self.lo = lo
        self.hi = hi

    # arithmetic ------------------------------------------------------------
    def __add__(self, o):
        o = _lift(o)
        if o is None:
            return NotImplemented
        return _ring(self, o, lambda a, b: a + b, self.lo + o.lo, self.hi + o.hi)

    __radd__ = __add__

    def __sub__(self, o):
        o = _lift(o)
        if o is None:
            return NotImplemented
        return _ring(self, o, lambda a, b: a - b, self.lo - o.hi, self.hi - o.lo)

    def __rsub__(self, o):
        o = _lift(o)
        if o is None:
            return NotImplemented
        return _ring(o, self, lambda a, b: a - b, o.lo - self.hi, o.hi - self.lo)

    def __mul__(self, o):
        o = _lift(o)
        if o is None:
            return NotImplemented
        c = [self.lo * o.lo, self.lo * o.hi, self.hi * o.lo, self.hi * o.hi]
        return _ring(self, o, lambda a, b: a * b, min(c), max(c))

    __rmul__ = __mul__

    def __neg__(self):
        return _ring(self, self, lambda a, b: -a, -self.hi, -self.lo)

    def __pos__(self):
        return self

    def __abs__(self):
        if self.lo >= 0:
            return self
        if self.hi <= 0:
            return -self
        hi = max(-self.lo, self.hi)
        w = need(0, hi)
        e = fit(self.e, w)
        return SymInt(z3.If(e < 0, -e, e), 0, hi)

    def __invert__(self):
        return _ring(self, self, lambda a, b: ~a, -self.hi - 1, -self.lo - 1)

    def _divisor(self, o):
        o = _lift(o)
        if o is None:
            return None
        if o.lo <= 0 <= o.hi:
            if E().branch(o.e == 0):
                raise ZeroDivisionError('integer division or modulo by zero')
        return o

    def __floordiv__(self, o):
        o = self._divisor(o)
        if o is None:
            return NotImplemented
        if o.lo == o.hi and o.lo > 0:
            d = o.lo
            if d & (d - 1) == 0:
                # floor division by 2^k is an arithmetic shift (exact for negatives too)
                return self >> (d.bit_length() - 1)
            a, b = _wide(self, o)
            return _mk(_floordiv_e(a, b), self.lo // d, self.hi // d)
        m = max(abs(self.lo), abs(self.hi))
        w = max(self.e.size(), o.e.size()) + 1
        return _mk(_floordiv_e(fit(self.e, w), fit(o.e, w)), -m - 1, m)

    def __rfloordiv__(self, o):
        o = _lift(o)
        if o is None:
            return NotImplemented
        return o.__floordiv__(self)

    def __mod__(self, o):
        o = self._divisor(o)
        if o is None:
            return NotImplemented
        if o.lo == o.hi and o.lo > 0 and (o.lo & (o.lo - 1)) == 0:
            # python's x % 2^k is the k low bits of the two's complement representation
            return self & (o.lo - 1)
        w = max(self.e.size(), o.e.size()) + 1
        e = _mod_e(fit(self.e, w), fit(o.e, w))
        if o.lo > 0:
            return _mk(e, 0, o.hi - 1)
        m = max(abs(o.lo), abs(o.hi))
        return _mk(e, -m, m)

    def __rmod__(self, o):
        o = _lift(o)
        if o is None:
            return NotImplemented
        return o.__mod__(self)

    def __divmod__(self, o):
        return (self // o, self % o)

    def __rdivmod__(self, o):
        o = _lift(o)
        return (o // self, o % self)

    def __truediv__(self, o):
        raise Inconclusive('true division on symbolic int')

    __rtruediv__ = __truediv__

    def __pow__(self, o, mod=None):
        raise Inconclusive('pow on symbolic int')

    def __rpow__(self, o):
        if o == 2:
            return 1 << self
        raise Inconclusive('pow with symbolic exponent')

    # bit operations -------------------------------------------------------
    def __and__(self, o):
        o = _lift(o)
        if o is None:
            return NotImplemented
        lo, hi = _and_bounds(self, o)
        a, b = _wide(self, o)
        return _mk(a & b, lo, hi)

    __rand__ = __and__

    def __or__(self, o):
        o = _lift(o)
        if o is None:
            return NotImplemented
        lo, hi = _or_bounds(self, o)
        a, b = _wide(self, o)
        return _mk(a | b, lo, hi)

    __ror__ = __or__

    def __xor__(self, o):
        o = _lift(o)
        if o is None:
            return NotImplemented
        lo, hi = _or_bounds(self, o)
        if self.lo >= 0 and o.lo >= 0:
            lo = 0
        a, b = _wide(self, o)
        return _mk(a ^ b, lo, hi)

    __rxor__ = __xor__

    def __lshift__(self, o):
        if _isinstance(o, (SymInt, SymBool)):
            o = o.__index__()
        if o < 0:
            raise ValueError('negative shift count')
        if o == 0:
            return self
        lo, hi = self.lo << o, self.hi << o
        w = need(lo, hi)
        if w > MAXW:
            raise Inconclusive('width bound exceeded (%d bits needed)' % w)
        return SymInt(z3.Concat(self.e, z3.BitVecVal(0, o)), lo, hi) if self.e.size() + o == w \
            else _mk(z3.Concat(self.e, z3.BitVecVal(0, o)), lo, hi)

    def __rlshift__(self, o):
        n = self.__index__()
        return o << n

    def __rshift__(self, o):
        if _isinstance(o, (SymInt, SymBool)):
            o = o.__index__()
        if o < 0:
            raise ValueError('negative shift count')
        if o == 0:
            return self
        n = self.e.size()
        if o >= n:
            e = z3.Extract(n - 1, n - 1, self.e)     # only the sign remains
        else:
            e = z3.Extract(n - 1, o, self.e)
        return _mk(e, self.lo >> o, self.hi >> o)

    def __rrshift__(self, o):
        n = self.__index__()
        return o >> n

    # comparisons -------------------------------------------------------------
    def _cmp(self, o, op, dec):
        o = _lift(o)
        if o is None:
            return NotImplemented
        d = dec(self, o)
        if d is not None:
            return d
        a, b = _wide(self, o)
        return SymBool(op(a, b))

    def __lt__(self, o):
        return self._cmp(o, lambda a, b: a < b,
                         lambda a, b: True if a.hi < b.lo else (False if a.lo >= b.hi else None))

    def __le__(self, o):
        return self._cmp(o, lambda a, b: a <= b,
                         lambda a, b: True if a.hi <= b.lo else (False if a.lo > b.hi else None))

    def __gt__(self, o):
        return self._cmp(o, lambda a, b: a > b,
                         lambda a, b: True if a.lo > b.hi else (False if a.hi <= b.lo else None))

    def __ge__(self, o):
        return self._cmp(o, lambda a, b: a >= b,
                         lambda a, b: True if a.lo >= b.hi else (False if a.hi < b.lo else None))

    def __eq__(self, o):
        return self._cmp(o, lambda a, b: a == b,
                         lambda a, b: False if (a.hi < b.lo or a.lo > b.hi) else None)

    def __ne__(self, o):
        return self._cmp(o, lambda a, b: a != b,
                         lambda a, b: True if (a.hi < b.lo or a.lo > b.hi) else None)

    def __bool__(self):
        if self.lo > 0 or self.hi < 0:
            return True
        return E().branch(self.e != 0)

    def __index__(self):
        return E().concretize(self.e)

    __int__ = __index__

    def __float__(self):
        raise Inconclusive('float() of symbolic int')

    def __hash__(self):
        eng = E()
        for c in eng.hash_ints:
            if self.lo <= c <= self.hi:
                if eng.branch(self.e == c):
                    return hash(c)
        # residual: differs from every candidate constant; any hash is sound
        # because dict/set lookups confirm with __eq__ (-> branch, infeasible).
        return 0x5eed5eed

    def bit_length(self):
        a = abs(self)
        if not _isinstance(a, SymInt):
            return _int(a).bit_length()
        nmin, nmax = _bits(a.lo), _bits(a.hi)
        if nmin == nmax:
            return nmin
        w = need(nmin, nmax)
        r = z3.BitVecVal(nmin, w)
        for k in range(max(nmin, 1) - 1, nmax):
            r = z3.If(z3.Extract(k, k, a.e) == 1, z3.BitVecVal(k + 1, w), r)
        return SymInt(r, nmin, nmax)

    def to_bytes(self, length=1, byteorder='big', signed=False):
        if byteorder != 'big':
            raise Inconclusive('to_bytes little endian')
        if _isinstance(length, (SymInt, SymBool)):
            length = length.__index__()
        if signed:
            lo, hi = (-(1 << (8 * length - 1)), (1 << (8 * length - 1)) - 1) if length else (0, 0)
        else:
            lo, hi = 0, (1 << (8 * length)) - 1
        if not (lo <= self.lo and self.hi <= hi):
            w = max(self.e.size(), need(lo, hi))
            e = fit(self.e, w)
            if not E().branch(z3.And(e >= lo, e <= hi)):
                raise OverflowError('int too big to convert')
        if length == 0:
            return SymBytes([])
        e = fit(self.e, 8 * length) if self.e.size() != 8 * length else self.e
        return SymBytes([z3.Extract(8 * i + 7, 8 * i, e) for i in reversed(range(length))])

    def __format__(self, spec):
        if spec in ('', 'd') and Engine.cur is not None:
            return E().registry_token(self)      # decimal text, as str()
        return '<sym>'

    def __repr__(self):
        return '<sym>'

    def __str__(self):
        return E().registry_token(self)

    def __deepcopy__(self, memo):
        return self          # immutable, like int

    def __copy__(self):
        return self

    def __getattr__(self, name):
        raise Inconclusive('int.%s is not modelled for symbolic ints' % name)


def mkint(e, lo, hi):
    return _mk(e, lo, hi)


def unsigned(e):
    """non-negative SymInt from an unsigned bit-vector expression"""
    n = e.size()
    v = z3.simplify(e)
    if z3.is_bv_value(v):
        return v.as_long()
    return SymInt(z3.ZeroExt(1, e), 0, (1 << n) - 1)


# ---------------------------------------------------------------------------
# bytes / bytearray
# ---------------------------------------------------------------------------
def cell(x):
    """normalise to a BV8 expression (or raise like bytearray would)"""
    if _isinstance(x, SymInt):
        if not (0 <= x.lo and x.hi <= 255):
            e = fit(x.e, max(x.e.size(), 10))
            if not E().branch(z3.And(e >= 0, e < 256)):
                raise ValueError('byte must be in range(0, 256)')
        return fit(x.e, 8)
    if _isinstance(x, SymBool):
        return z3.If(x.e, z3.BitVecVal(1, 8), z3.BitVecVal(0, 8))
    if _isinstance(x, _int):
        if not 0 <= x < 256:
            raise ValueError('byte must be in range(0, 256)')
        return z3.BitVecVal(x, 8)
    if z3.is_bv(x):
        return x
    raise TypeError("'%s' object cannot be interpreted as an integer" % type(x).__name__)


def cell_to_int(c):
    if z3.is_bv_value(c):
        return c.as_long()
    c2 = z3.simplify(c)
    if z3.is_bv_value(c2):
        return c2.as_long()
    return SymInt(z3.ZeroExt(1, c), 0, 255)


def _cells_of(src):
    if _isinstance(src, SymBytes):
        return list(src.c)
    if _isinstance(src, (_bytes, _bytearray)):
        return [z3.BitVecVal(b, 8) for b in src]
    if _isinstance(src, memoryview):
        return [z3.BitVecVal(b, 8) for b in src.tobytes()]
    if _isinstance(src, (SymInt, SymBool)):
        return [z3.BitVecVal(0, 8)] * src.__index__()
    if _isinstance(src, _int):
        return [z3.BitVecVal(0, 8)] * src
    if _isinstance(src, (_str, SymStr)):
        raise TypeError('string argument without an encoding')
    return [cell(x) for x in src]


def _idx(v):
    if _isinstance(v, (SymInt, SymBool)):
        return v.__index__()
    return v


class SymBytes:
    """bytes/bytearray with symbolic cells (mutability follows use)."""
    __slots__ = ('c',)

    def __init__(self, src=None):
        self.c = [] if src is None else (src if _isinstance(src, list) else _cells_of(src))

    def __len__(self):
        return _len(self.c)

    def __iter__(self):
        return iter([cell_to_int(c) for c in self.c])

    def __bool__(self):
        return _len(self.c) > 0

    def __getitem__(self, i):
        if _isinstance(i, slice):
            s = slice(_idx(i.start), _idx(i.stop), _idx(i.step))
            return SymBytes(self.c[s])
        return cell_to_int(self.c[_idx(i)])

    def __setitem__(self, i, v):
        if _isinstance(i, slice):
            s = slice(_idx(i.start), _idx(i.stop), _idx(i.step))
            self.c[s] = _cells_of(v)
            return
        self.c[_idx(i)] = cell(v)

    def __delitem__(self, i):
        if _isinstance(i, slice):
            i = slice(_idx(i.start), _idx(i.stop), _idx(i.step))
        else:
            i = _idx(i)
        del self.c[i]

    def append(self, v):
        self.c.append(cell(v))

    def extend(self, o):
        self.c.extend(_cells_of(o))

    def reverse(self):
        self.c.reverse()

    def insert(self, i, v):
        self.c.insert(_idx(i), cell(v))

    def pop(self, i=-1):
        return cell_to_int(self.c.pop(_idx(i)))

    def copy(self):
        return SymBytes(list(self.c))

    __copy__ = copy

    def __deepcopy__(self, memo):
        return SymBytes(list(self.c))

    def __add__(self, o):
        if not _isinstance(o, (SymBytes, _bytes, _bytearray)):
            return NotImplemented
        return SymBytes(self.c + _cells_of(o))

    def __radd__(self, o):
        if not _isinstance(o, (SymBytes, _bytes, _bytearray)):
            return NotImplemented
        return SymBytes(_cells_of(o) + self.c)

    def __iadd__(self, o):
        self.c.extend(_cells_of(o))
        return self

    def __mul__(self, n):
        return SymBytes(self.c * _idx(n))

    __rmul__ = __mul__

    def _eq(self, o):
        if not _isinstance(o, (SymBytes, _bytes, _bytearray)):
            return NotImplemented
        oc = _cells_of(o)
        if _len(oc) != _len(self.c):
            return False
        if not self.c:
            return True
        e = z3.simplify(z3.And([a == b for a, b in zip(self.c, oc)]))
        if z3.is_true(e):
            return True
        if z3.is_false(e):
            return False
        return SymBool(e)

    def __eq__(self, o):
        return self._eq(o)

    def __ne__(self, o):
        r = self._eq(o)
        if r is NotImplemented:
            return r
        if _isinstance(r, SymBool):
            return SymBool(z3.Not(r.e))
        return not r

    def _lexcmp(self, o, strict_less):
        oc = _cells_of(o)
        # lexicographic a < b (or <=) as formula
        res = z3.BoolVal(_len(self.c) < _len(oc)) if strict_less else z3.BoolVal(_len(self.c) <= _len(oc))
        for a, b in reversed(list(zip(self.c, oc))):
            res = z3.If(a == b, res, z3.ULT(a, b))
        return SymBool(z3.simplify(res))

    def __lt__(self, o):
        return self._lexcmp(o, True)

    def __le__(self, o):
        return self._lexcmp(o, False)

    def __gt__(self, o):
        return SymBool(z3.Not(self._lexcmp(o, False).e))

    def __ge__(self, o):
        return SymBool(z3.Not(self._lexcmp(o, True).e))

    def __hash__(self):
        eng = E()
        n = _len(self.c)
        for cand in eng.hash_bytes:
            if _len(cand) == n:
                r = self._eq(cand)
                if r is True or (r is not False and _bool(r)):
                    return hash(_bytes(cand))
        return 0x5eed5eee

    def __contains__(self, x):
        if _isinstance(x, (_int, SymInt)):
            x = cell(x)
            return _bool(SymBool(z3.Or([c == x for c in self.c]))) if self.c else False
        raise Inconclusive('subsequence search on symbolic bytes')

    def concrete(self, model=None):
        if model is None:
            eng = E()
            return _bytes(eng.concretize(c, signed=False) for c in self.c)
        return _bytes(model.eval(c, model_completion=True).as_long() for c in self.c)

    def hex(self):
        return DigitStr.hex_of(self.c)

    def join(self, parts):
        out = []
        for i, p in enumerate(parts):
            if i:
                out.extend(self.c)
            out.extend(_cells_of(p))
        return SymBytes(out)

    def rstrip(self, chars=None):
        if chars is None or _len(chars) != 1:
            raise Inconclusive('rstrip on symbolic bytes with %r' % (chars,))
        ch = chars[0]
        n = _len(self.c)
        while n > 0 and E().branch(self.c[n - 1] == ch):
            n -= 1
        return SymBytes(self.c[:n])

    def rjust(self, width, fill=b'\x00'):
        width = _idx(width)
        pad = max(0, width - _len(self.c))
        return SymBytes(_cells_of(fill) * pad + self.c)

    def ljust(self, width, fill=b'\x00'):
        width = _idx(width)
        pad = max(0, width - _len(self.c))
        return SymBytes(self.c + _cells_of(fill) * pad)

    def zfill(self, width):
        return self.rjust(width, b'0')

    def __getattr__(self, name):
        # an operation of bytes/bytearray that the proxy does not model: never a verdict
        raise Inconclusive('bytes.%s() is not modelled for symbolic bytes' % name)

    def split(self, sep=None, maxsplit=-1):
        if maxsplit != -1:
            raise Inconclusive('bytes.split(maxsplit)')
        eng = E()

        def is_sep(c, vals):
            if z3.is_bv_value(c):
                return c.as_long() in vals
            return eng.branch(z3.Or([c == v for v in vals]))
        if sep is None:
            ws = (9, 10, 11, 12, 13, 32)
            out, cur = [], []
            for c in self.c:
                if is_sep(c, ws):
                    if cur:
                        out.append(SymBytes(cur))
                        cur = []
                else:
                    cur.append(c)
            if cur:
                out.append(SymBytes(cur))
            return out
        sepc = _cells_of(sep)
        if _len(sepc) != 1 or not z3.is_bv_value(sepc[0]):
            raise Inconclusive('bytes.split with a multi-octet/symbolic separator')
        sv = (sepc[0].as_long(),)
        out, cur = [], []
        for c in self.c:
            if is_sep(c, sv):
                out.append(SymBytes(cur))
                cur = []
            else:
                cur.append(c)
        out.append(SymBytes(cur))
        return out

    def startswith(self, p):
        p = _cells_of(p)
        if _len(p) > _len(self.c):
            return False
        if not p:
            return True
        return _bool(SymBool(z3.And([a == b for a, b in zip(self.c, p)])))

    def replace(self, a, b):
        if _len(a) == 1 and _len(b) == 1:
            ca, cb = cell(a[0]), cell(b[0])
            return SymBytes([z3.If(c == ca, cb, c) for c in self.c])
        raise Inconclusive('bytes.replace general')

    def decode(self, encoding='utf-8', errors='strict'):
        return decode_bytes(self, encoding)

    def asint(self, signed=False):
        if not self.c:
            return 0
        e = z3.Concat(*self.c) if _len(self.c) > 1 else self.c[0]
        n = e.size()
        if n + 1 > MAXW:
            raise Inconclusive('width bound exceeded (%d-bit value)' % n)
        if signed:
            return _mk(e, -(1 << (n - 1)), (1 << (n - 1)) - 1)
        return _mk(z3.ZeroExt(1, e), 0, (1 << n) - 1)

    def __repr__(self):
        return '<symbytes %d>' % _len(self.c)

    __str__ = __repr__

    def __format__(self, spec):
        return '<symbytes>'


# ---------------------------------------------------------------------------
# digit strings: results of bin(), hex(), hexlify()
# ---------------------------------------------------------------------------
class DigitStr:
    """string whose items are concrete chars or ('b', BV1) / ('h', BV4) digits"""
    __slots__ = ('ch',)

    def __init__(self, ch):
        self.ch = ch

    @staticmethod
    def hex_of(cells):
        ch = []
        for c in cells:
            ch.append(('h', z3.Extract(7, 4, c)))
            ch.append(('h', z3.Extract(3, 0, c)))
        return DigitStr(ch)

    def __len__(self):
        return _len(self.ch)

    def __bool__(self):
        return _len(self.ch) > 0

    def __getitem__(self, i):
        if _isinstance(i, slice):
            return DigitStr(self.ch[slice(_idx(i.start), _idx(i.stop), _idx(i.step))])
        return DigitStr([self.ch[_idx(i)]])

    def __iter__(self):
        return iter([DigitStr([c]) for c in self.ch])

    def __add__(self, o):
        if _isinstance(o, _str):
            return DigitStr(self.ch + list(o))
        if _isinstance(o, DigitStr):
            return DigitStr(self.ch + o.ch)
        return NotImplemented

    def __radd__(self, o):
        if _isinstance(o, _str):
            return DigitStr(list(o) + self.ch)
        return NotImplemented

    def __mul__(self, n):
        return DigitStr(self.ch * _idx(n))

    def rstrip(self, chars=None):
        if chars == 'L':
            return self
        raise Inconclusive('DigitStr.rstrip(%r)' % (chars,))

    def upper(self):
        return DigitStr([c.upper() if _isinstance(c, _str) else (('H', c[1]) if c[0] == 'h' else c)
                         for c in self.ch])

    def lower(self):
        return DigitStr([c.lower() if _isinstance(c, _str) else (('h', c[1]) if c[0] == 'H' else c)
                         for c in self.ch])

    def zfill(self, width):
        n = _idx(width) - _len(self.ch)
        if n <= 0:
            return self
        first = self.ch[0] if self.ch else None
        if first in ('-', '+'):
            return DigitStr([first] + ['0'] * n + self.ch[1:])
        return DigitStr(['0'] * n + self.ch)

    def encode(self, *a):
        return self

    def decode(self, *a):
        return self

    def _digit(self, c, base):
        if _isinstance(c, _str):
            if c not in ('01' if base == 2 else '0123456789abcdefABCDEF'):
                raise ValueError('invalid literal for int() with base %d' % base)
            return z3.BitVecVal(_int(c, base), 1 if base == 2 else 4)
        kind, e = c
        if base == 2:
            if kind != 'b':
                raise Inconclusive('hex digit parsed as binary')
            return e
        return z3.ZeroExt(3, e) if kind == 'b' else e

    def toint(self, base):
        if not self.ch:
            raise ValueError("invalid literal for int() with base %d: ''" % base)
        if base == 10:
            if _len(self.ch) == 1 and not _isinstance(self.ch[0], _str) and self.ch[0][0] == 'b':
                return _mk(z3.ZeroExt(1, self.ch[0][1]), 0, 1)
            raise Inconclusive('decimal parse of digit string')
        parts = [self._digit(c, base) for c in self.ch]
        # drop leading concrete zeros so that the width is about real content
        while _len(parts) > 1 and z3.is_bv_value(parts[0]) and parts[0].as_long() == 0:
            parts.pop(0)
        e = z3.Concat(*parts) if _len(parts) > 1 else parts[0]
        n = e.size()
        if n + 1 > MAXW:
            raise Inconclusive('width bound exceeded (%d-bit value)' % n)
        lo = 0
        if z3.is_bv_value(parts[0]) and parts[0].as_long() != 0:
            # leading concrete digit: tighter bounds (marker bits)
            rest = n - parts[0].size()
            lo = parts[0].as_long() << rest
            hi = ((parts[0].as_long() + 1) << rest) - 1
        else:
            hi = (1 << n) - 1
        return _mk(z3.ZeroExt(1, e), lo, hi)

    def tobytes(self):
        if _len(self.ch) % 2:
            raise _binascii.Error('Odd-length string')
        out = []
        try:
            for i in range(0, _len(self.ch), 2):
                out.append(z3.Concat(self._digit(self.ch[i], 16), self._digit(self.ch[i + 1], 16)))
        except ValueError:
            raise _binascii.Error('Non-hexadecimal digit found')
        return SymBytes(out)

    def __eq__(self, o):
        if _isinstance(o, _str):
            o = DigitStr(list(o))
        if not _isinstance(o, DigitStr):
            return NotImplemented
        if _len(o.ch) != _len(self.ch):
            return False
        conds = []
        for a, b in zip(self.ch, o.ch):
            if _isinstance(a, _str) and _isinstance(b, _str):
                if a != b:
                    return False
                continue
            base = 2 if ((not _isinstance(a, _str) and a[0] == 'b') and
                         (not _isinstance(b, _str) and b[0] == 'b' or _isinstance(b, _str) and b in '01')) else 16
            try:
                conds.append(self._digit(a, base) == self._digit(b, base))
            except ValueError:
                return False
        if not conds:
            return True
        return SymBool(z3.And(conds))

    def __ne__(self, o):
        r = self.__eq__(o)
        if r is NotImplemented:
            return r
        if _isinstance(r, SymBool):
            return SymBool(z3.Not(r.e))
        return not r

    def __hash__(self):
        raise Inconclusive('hash of digit string')

    def __repr__(self):
        return '<digits %d>' % _len(self.ch)

    def __str__(self):
        return E().registry_digits(self)

    def __format__(self, spec):
        if spec not in ('', 's'):
            raise Inconclusive('format spec %r on digit string' % spec)
        return E().registry_digits(self)


# ---------------------------------------------------------------------------
# character strings
# ---------------------------------------------------------------------------
class SymStr:
    """str proxy: concrete length, each item a python char or a code point SymInt-like
    z3 expression (BV21)."""
    __slots__ = ('cp',)
    CPW = 21

    def __init__(self, cps):
        self.cp = cps     # list of: str (1 char) | z3 BV21 expr

    @staticmethod
    def of(x):
        if _isinstance(x, SymStr):
            return x
        return SymStr(list(x))

    def __len__(self):
        return _len(self.cp)

    def __bool__(self):
        return _len(self.cp) > 0

    def __iter__(self):
        return iter([SymStr([c]) for c in self.cp])

    def __getitem__(self, i):
        if _isinstance(i, slice):
            return SymStr(self.cp[slice(_idx(i.start), _idx(i.stop), _idx(i.step))])
        return SymStr([self.cp[_idx(i)]])

    def __add__(self, o):
        if _isinstance(o, _str):
            return SymStr(self.cp + list(o))
        if _isinstance(o, SymStr):
            return SymStr(self.cp + o.cp)
        return NotImplemented

    def __radd__(self, o):
        if _isinstance(o, _str):
            return SymStr(list(o) + self.cp)
        return NotImplemented

    def __mul__(self, n):
        return SymStr(self.cp * _idx(n))

    @staticmethod
    def _e(c):
        if _isinstance(c, _str):
            return z3.BitVecVal(_ord(c), SymStr.CPW)
        return c

    def _eq(self, o):
        if _isinstance(o, _str):
            o = SymStr(list(o))
        if not _isinstance(o, SymStr):
            return NotImplemented
        if _len(o.cp) != _len(self.cp):
            return False
        conds = []
        for a, b in zip(self.cp, o.cp):
            if _isinstance(a, _str) and _isinstance(b, _str):
                if a != b:
                    return False
                continue
            conds.append(self._e(a) == self._e(b))
        if not conds:
            return True
        e = z3.simplify(z3.And(conds))
        if z3.is_true(e):
            return True
        if z3.is_false(e):
            return False
        return SymBool(e)

    def __eq__(self, o):
        return self._eq(o)

    def __ne__(self, o):
        r = self._eq(o)
        if r is NotImplemented:
            return r
        if _isinstance(r, SymBool):
            return SymBool(z3.Not(r.e))
        return not r

    def __hash__(self):
        eng = E()
        for cand in eng.hash_strs:
            if _len(cand) == _len(self.cp):
                r = self._eq(cand)
                if r is True or (r is not False and _bool(r)):
                    return hash(cand)
        return 0x5eed5eef

    def __contains__(self, x):
        x = SymStr.of(x)
        if _len(x.cp) != 1:
            raise Inconclusive('substring search on symbolic str')
        xe = self._e(x.cp[0])
        if not self.cp:
            return False
        return _bool(SymBool(z3.Or([self._e(c) == xe for c in self.cp])))

    def ord(self):
        if _len(self.cp) != 1:
            raise TypeError('ord() expected a character, but string of length %d found' % _len(self.cp))
        c = self.cp[0]
        if _isinstance(c, _str):
            return _ord(c)
        return _mk(z3.ZeroExt(1, c), 0, 0x10ffff)

    def concrete(self, model=None):
        out = []
        for c in self.cp:
            if _isinstance(c, _str):
                out.append(c)
            elif model is None:
                out.append(_chr(E().concretize(c, signed=False)))
            else:
                out.append(_chr(model.eval(c, model_completion=True).as_long()))
        return ''.join(out)

    def encode(self, encoding='utf-8', errors='strict'):
        return encode_str(self, encoding)

    def _is(self, c, ch):
        """truth of: item c is the character ch (solver decision for a symbolic item)"""
        if _isinstance(c, _str):
            return c == ch
        return E().branch(c == _ord(ch))

    def _in(self, c, chars):
        if _isinstance(c, _str):
            return c in chars
        if not chars:
            return False
        return E().branch(z3.Or([c == _ord(x) for x in chars]))

    def find(self, sub, start=0):
        if not (_isinstance(sub, _str) and _len(sub) == 1):
            raise Inconclusive('str.find of a multi-character/symbolic needle in a symbolic str')
        for i in range(_idx(start), _len(self.cp)):
            if self._is(self.cp[i], sub):
                return i
        return -1

    def partition(self, sep):
        i = self.find(sep)
        if i < 0:
            return (self, '', '')
        return (SymStr(self.cp[:i]), sep, SymStr(self.cp[i + 1:]))

    def split(self, sep=None, maxsplit=-1):
        if not (_isinstance(sep, _str) and _len(sep) == 1) or maxsplit != -1:
            raise Inconclusive('split on symbolic str')
        out, cur = [], []
        for c in self.cp:
            if self._is(c, sep):
                out.append(SymStr(cur))
                cur = []
            else:
                cur.append(c)
        out.append(SymStr(cur))
        return out

    def startswith(self, prefix):
        if not _isinstance(prefix, _str):
            raise Inconclusive('startswith(non-literal) on symbolic str')
        if _len(prefix) > _len(self.cp):
            return False
        return all(self._is(c, p) for c, p in zip(self.cp, prefix))

    def endswith(self, suffix):
        if not _isinstance(suffix, _str):
            raise Inconclusive('endswith(non-literal) on symbolic str')
        if _len(suffix) > _len(self.cp):
            return False
        if not suffix:
            return True
        return all(self._is(c, p) for c, p in zip(self.cp[-_len(suffix):], suffix))

    def lstrip(self, chars=None):
        chars = _WS_DEFAULT() if chars is None else chars
        if not _isinstance(chars, _str):
            raise Inconclusive('lstrip(non-literal) on symbolic str')
        i = 0
        while i < _len(self.cp) and self._in(self.cp[i], chars):
            i += 1
        return SymStr(self.cp[i:])

    def rstrip(self, chars=None):
        chars = _WS_DEFAULT() if chars is None else chars
        if not _isinstance(chars, _str):
            raise Inconclusive('rstrip(non-literal) on symbolic str')
        j = _len(self.cp)
        while j > 0 and self._in(self.cp[j - 1], chars):
            j -= 1
        return SymStr(self.cp[:j])

    def strip(self, chars=None):
        return self.lstrip(chars).rstrip(chars)

    def replace(self, a, b):
        if _isinstance(a, _str) and _len(a) == 1 and _isinstance(b, _str):
            out = []
            for c in self.cp:
                if _isinstance(c, _str):
                    out.extend(list(b) if c == a else [c])
                elif E().branch(c == _ord(a)):
                    out.extend(list(b))
                else:
                    out.append(c)
            return SymStr(out)
        raise Inconclusive('str.replace general')

    def __format__(self, spec):
        if spec not in ('', 's'):
            raise Inconclusive('format spec %r on symbolic str' % spec)
        return E().registry_text(self)

    def __str__(self):
        return E().registry_text(self)

    def __repr__(self):
        return '<symstr %d>' % _len(self.cp)

    def __deepcopy__(self, memo):
        return self          # immutable, like str

    def __copy__(self):
        return self

    def __getattr__(self, name):
        raise Inconclusive('str.%s() is not modelled for symbolic str' % name)


def _enc_ascii_like(s, limit, encname):
    cells = []
    for i, c in enumerate(s.cp):
        if _isinstance(c, _str):
            cells.extend(z3.BitVecVal(b, 8) for b in c.encode(encname))
            continue
        if not E().branch(z3.ULT(c, limit)):
            raise UnicodeEncodeError(encname, '?', i, i + 1, 'ordinal not in range(%d)' % limit)
        cells.append(z3.Extract(7, 0, c))
    return SymBytes(cells)


def encode_str(s, encoding):
    enc = encoding.lower().replace('_', '-')
    if enc == 'ascii':
        return _enc_ascii_like(s, 128, 'ascii')
    if enc in ('latin-1', 'iso-8859-1', 'latin1'):
        return _enc_ascii_like(s, 256, 'latin-1')
    eng = E()
    cells = []
    if enc in ('utf-8', 'utf8'):
        for i, c in enumerate(s.cp):
            if _isinstance(c, _str):
                cells.extend(z3.BitVecVal(b, 8) for b in c.encode('utf-8'))
                continue
            c32 = z3.ZeroExt(32 - SymStr.CPW, c)
            if eng.branch(z3.ULT(c, 0x80)):
                cells.append(z3.Extract(7, 0, c))
            elif eng.branch(z3.ULT(c, 0x800)):
                cells.append(z3.Extract(7, 0, 0xc0 | z3.LShR(c32, 6)))
                cells.append(z3.Extract(7, 0, 0x80 | (c32 & 0x3f)))
            elif eng.branch(z3.ULT(c, 0x10000)):
                if eng.branch(z3.And(z3.UGE(c, 0xd800), z3.ULE(c, 0xdfff))):
                    raise UnicodeEncodeError('utf-8', '?', i, i + 1, 'surrogates not allowed')
                cells.append(z3.Extract(7, 0, 0xe0 | z3.LShR(c32, 12)))
                cells.append(z3.Extract(7, 0, 0x80 | (z3.LShR(c32, 6) & 0x3f)))
                cells.append(z3.Extract(7, 0, 0x80 | (c32 & 0x3f)))
            else:
                cells.append(z3.Extract(7, 0, 0xf0 | z3.LShR(c32, 18)))
                cells.append(z3.Extract(7, 0, 0x80 | (z3.LShR(c32, 12) & 0x3f)))
                cells.append(z3.Extract(7, 0, 0x80 | (z3.LShR(c32, 6) & 0x3f)))
                cells.append(z3.Extract(7, 0, 0x80 | (c32 & 0x3f)))
        return SymBytes(cells)
    if enc == 'utf-16-be':
        for i, c in enumerate(s.cp):
            if _isinstance(c, _str):
                cells.extend(z3.BitVecVal(b, 8) for b in c.encode('utf-16-be'))
                continue
            if eng.branch(z3.ULT(c, 0x10000)):
                if eng.branch(z3.And(z3.UGE(c, 0xd800), z3.ULE(c, 0xdfff))):
                    raise UnicodeEncodeError('utf-16-be', '?', i, i + 1, 'surrogates not allowed')
                cells.append(z3.Extract(15, 8, c))
                cells.append(z3.Extract(7, 0, c))
            else:
                v = z3.ZeroExt(32 - SymStr.CPW, c) - 0x10000
                hi = 0xd800 | z3.LShR(v, 10)
                lo = 0xdc00 | (v & 0x3ff)
                cells.extend([z3.Extract(15, 8, hi), z3.Extract(7, 0, hi),
                              z3.Extract(15, 8, lo), z3.Extract(7, 0, lo)])
        return SymBytes(cells)
    if enc == 'utf-32-be':
        for i, c in enumerate(s.cp):
            if _isinstance(c, _str):
                cells.extend(z3.BitVecVal(b, 8) for b in c.encode('utf-32-be'))
                continue
            if eng.branch(z3.And(z3.UGE(c, 0xd800), z3.ULE(c, 0xdfff))):
                raise UnicodeEncodeError('utf-32-be', '?', i, i + 1, 'surrogates not allowed')
            c32 = z3.ZeroExt(32 - SymStr.CPW, c)
            cells.extend([z3.Extract(31, 24, c32), z3.Extract(23, 16, c32),
                          z3.Extract(15, 8, c32), z3.Extract(7, 0, c32)])
        return SymBytes(cells)
    raise Inconclusive('encoding %s on symbolic str' % encoding)


def _dec_err(enc, pos, why):
    return UnicodeDecodeError(enc, b'?', pos, pos + 1, why)


def decode_bytes(b, encoding):
    enc = encoding.lower().replace('_', '-')
    eng = E()
    cw = SymStr.CPW
    cs = b.c
    if all(z3.is_bv_value(c) for c in cs):
        return _bytes(c.as_long() for c in cs).decode(encoding)
    out = []
    if enc == 'ascii':
        for i, c in enumerate(cs):
            if not eng.branch(z3.ULT(c, 128)):
                raise _dec_err('ascii', i, 'ordinal not in range(128)')
            out.append(z3.ZeroExt(cw - 8, c))
        return SymStr(out)
    if enc in ('latin-1', 'iso-8859-1', 'latin1'):
        return SymStr([z3.ZeroExt(cw - 8, c) for c in cs])
    if enc in ('utf-8', 'utf8'):
        i, n = 0, _len(cs)

        def cont(j):
            if j >= n:
                raise _dec_err('utf-8', i, 'unexpected end of data')
            if not eng.branch((cs[j] & 0xc0) == 0x80):
                raise _dec_err('utf-8', i, 'invalid continuation byte')
            return z3.ZeroExt(cw - 8, cs[j] & 0x3f)
        while i < n:
            c = cs[i]
            if eng.branch(z3.ULT(c, 0x80)):
                out.append(z3.ZeroExt(cw - 8, c))
                i += 1
            elif eng.branch(z3.And(z3.UGE(c, 0xc2), z3.ULE(c, 0xdf))):
                out.append((z3.ZeroExt(cw - 8, c & 0x1f) << 6) | cont(i + 1))
                i += 2
            elif eng.branch(z3.And(z3.UGE(c, 0xe0), z3.ULE(c, 0xef))):
                c1 = cont(i + 1)
                if i + 1 < n and eng.branch(z3.Or(z3.And(c == 0xe0, z3.ULT(cs[i + 1], 0xa0)),
                                                  z3.And(c == 0xed, z3.UGE(cs[i + 1], 0xa0)))):
                    raise _dec_err('utf-8', i, 'invalid continuation byte')
                c2 = cont(i + 2)
                out.append((z3.ZeroExt(cw - 8, c & 0x0f) << 12) | (c1 << 6) | c2)
                i += 3
            elif eng.branch(z3.And(z3.UGE(c, 0xf0), z3.ULE(c, 0xf4))):
                c1 = cont(i + 1)
                if eng.branch(z3.Or(z3.And(c == 0xf0, z3.ULT(cs[i + 1], 0x90)),
                                    z3.And(c == 0xf4, z3.UGE(cs[i + 1], 0x90)))):
                    raise _dec_err('utf-8', i, 'invalid continuation byte')
                c2 = cont(i + 2)
                c3 = cont(i + 3)
                out.append((z3.ZeroExt(cw - 8, c & 0x07) << 18) | (c1 << 12) | (c2 << 6) | c3)
                i += 4
            else:
                raise _dec_err('utf-8', i, 'invalid start byte')
        return SymStr(out)
    if enc == 'utf-16-be':
        n = _len(cs)
        i = 0
        while i < n:
            if i + 1 >= n:
                raise _dec_err('utf-16-be', i, 'truncated data')
            u = z3.Concat(cs[i], cs[i + 1])
            if eng.branch(z3.And(z3.UGE(u, 0xd800), z3.ULE(u, 0xdfff))):
                if not eng.branch(z3.ULE(u, 0xdbff)):
                    raise _dec_err('utf-16-be', i, 'illegal encoding')
                if i + 3 >= n:
                    raise _dec_err('utf-16-be', i, 'unexpected end of data')
                u2 = z3.Concat(cs[i + 2], cs[i + 3])
                if not eng.branch(z3.And(z3.UGE(u2, 0xdc00), z3.ULE(u2, 0xdfff))):
                    raise _dec_err('utf-16-be', i, 'illegal UTF-16 surrogate')
                v = ((z3.ZeroExt(cw - 16, u & 0x3ff) << 10) | z3.ZeroExt(cw - 16, u2 & 0x3ff)) + 0x10000
                out.append(v)
                i += 4
            else:
                out.append(z3.ZeroExt(cw - 16, u))
                i += 2
        return SymStr(out)
    if enc == 'utf-32-be':
        n = _len(cs)
        if n % 4:
            # CPython reports truncated data after decoding the complete units
            pass
        i = 0
        while i + 3 < n:
            u = z3.Concat(cs[i], cs[i + 1], cs[i + 2], cs[i + 3])
            if not eng.branch(z3.And(z3.ULE(u, 0x10ffff),
                                     z3.Not(z3.And(z3.UGE(u, 0xd800), z3.ULE(u, 0xdfff))))):
                raise _dec_err('utf-32-be', i, 'code point not in range(0x110000)')
            out.append(z3.Extract(cw - 1, 0, u))
            i += 4
        if n % 4:
            raise _dec_err('utf-32-be', i, 'truncated data')
        return SymStr(out)
    raise Inconclusive('decoding %s of symbolic bytes' % encoding)


# ---------------------------------------------------------------------------
# shims injected into module namespaces
# ---------------------------------------------------------------------------
class _IntMeta(type):
    def __instancecheck__(cls, inst):
        return _isinstance(inst, (_int, SymInt))

    def __subclasscheck__(cls, sub):
        return issubclass(sub, (_int, SymInt))

    def __call__(cls, x=0, base=None):
        if _isinstance(x, DigitStr):
            return x.toint(10 if base is None else base)
        if _isinstance(x, SymInt):
            return x
        if _isinstance(x, SymBool):
            return x._asint()
        if _isinstance(x, IntToken):
            return x.v
        if _isinstance(x, _str) and x[:1] == TOKEN_OPEN and x[-1:] == TOKEN_CLOSE:
            return E().registry['tokens'][_int(x[1:-1])]
        if _isinstance(x, SymStr):
            return E().registry_int(x, base)
        if _isinstance(x, SymFloatBase):
            return x.__int__()
        if base is None:
            return _int(x)
        return _int(x, base)


class IntShim(metaclass=_IntMeta):
    __name__ = 'int'

    @staticmethod
    def from_bytes(b, byteorder='big', signed=False):
        if _isinstance(b, (_bytes, _bytearray)):
            return _int.from_bytes(b, byteorder=byteorder, signed=signed)
        if byteorder != 'big':
            raise Inconclusive('from_bytes little endian')
        return b.asint(signed=signed)


IntShim.__name__ = 'int'


class SymFloatBase:
    """marker base for symbolic floats (pyfront.fp)"""


def hex_shim(x):
    if not _isinstance(x, SymInt):
        return _hex(x)
    neg = False
    if x.lo < 0 and (x.hi < 0 or E().branch(x.e < 0)):
        neg = True
        x = -x
        if not _isinstance(x, SymInt):
            return _hex(-x)
    n = x.bit_length()
    n = _idx(n)
    nd = max(1, (n + 3) // 4)
    ch = ['-', '0', 'x'] if neg else ['0', 'x']
    e = fit(x.e, max(4 * nd, x.e.size()))
    for i in reversed(range(nd)):
        ch.append(('h', z3.Extract(4 * i + 3, 4 * i, e)))
    return DigitStr(ch)


def bin_shim(x):
    if not _isinstance(x, SymInt):
        return _bin(x)
    if x.lo < 0:
        if E().branch(x.e < 0):
            raise Inconclusive('bin() of negative symbolic int')
    n = max(1, _idx(x.bit_length()))
    ch = ['0', 'b']
    e = fit(x.e, max(n, x.e.size()))
    for i in reversed(range(n)):
        ch.append(('b', z3.Extract(i, i, e)))
    return DigitStr(ch)


class binascii_shim:
    Error = _binascii.Error
    Incomplete = _binascii.Incomplete

    @staticmethod
    def hexlify(b, *a):
        if _isinstance(b, (_bytes, _bytearray, memoryview)):
            return _binascii.hexlify(b, *a)
        if _isinstance(b, SymBytes):
            return DigitStr.hex_of(b.c)
        return _binascii.hexlify(b, *a)

    @staticmethod
    def unhexlify(s):
        if _isinstance(s, DigitStr):
            return s.tobytes()
        return _binascii.unhexlify(s)

    b2a_hex = hexlify
    a2b_hex = unhexlify


class _BAMeta(type):
    def __instancecheck__(cls, inst):
        return _isinstance(inst, (_bytearray, SymBytes))

    def __call__(cls, *a):
        if not a:
            return SymBytes()
        if _len(a) == 1:
            return SymBytes(_cells_of(a[0]))
        # bytearray(str, encoding)
        if _isinstance(a[0], SymStr):
            return encode_str(a[0], a[1])
        return SymBytes(_cells_of(_bytearray(*a)))


class ByteArrayShim(metaclass=_BAMeta):
    pass


ByteArrayShim.__name__ = 'bytearray'


class _BMeta(type):
    def __instancecheck__(cls, inst):
        return _isinstance(inst, (_bytes, SymBytes))

    def __call__(cls, *a):
        if not a:
            # bytes().join(parts) must accept symbolic parts
            return SymBytes([]) if Engine.cur is not None else _bytes()
        if _len(a) == 1 and _isinstance(a[0], (_bytes, _bytearray)):
            return _bytes(a[0])
        if _len(a) == 1:
            return SymBytes(_cells_of(a[0]))
        if _isinstance(a[0], SymStr):
            return encode_str(a[0], a[1])
        return _bytes(*a)


class BytesShim(metaclass=_BMeta):
    pass


BytesShim.__name__ = 'bytes'


class IntToken:
    """decimal text of a symbolic integer (e.g. one OBJECT IDENTIFIER arc)"""
    __slots__ = ('v',)

    def __init__(self, v):
        self.v = v


class SymText:
    """base class of structured text proxies that count as ``str`` (e.g. SymOid)"""


class _StrMeta(type):
    def __instancecheck__(cls, inst):
        return _isinstance(inst, (_str, SymStr, SymText))

    def __call__(cls, *a, **k):
        if _len(a) == 1 and not k:
            x = a[0]
            if _isinstance(x, SymStr):
                return x
            if _isinstance(x, SymInt):
                return E().registry_token(x)
        return _str(*a, **k)


class StrShim(metaclass=_StrMeta):
    pass


StrShim.__name__ = 'str'
StrShim.maketrans = _str.maketrans
StrShim.join = _str.join


def ord_shim(c):
    if _isinstance(c, SymStr):
        return c.ord()
    if _isinstance(c, DigitStr):
        raise Inconclusive('ord of digit string')
    return _ord(c)


def chr_shim(v):
    if _isinstance(v, SymInt):
        if not (0 <= v.lo and v.hi <= 0x10ffff):
            e = fit(v.e, max(v.e.size(), 23))
            if not E().branch(z3.And(e >= 0, e <= 0x10ffff)):
                raise ValueError('chr() arg not in range(0x110000)')
        return SymStr([fit(v.e, SymStr.CPW)])
    return _chr(v)


def bool_shim_factory():
    return _bool


class struct_shim:
    error = _struct.error
    FMT = {'>B': (1, False), '>H': (2, False), '>I': (4, False), '>Q': (8, False),
           '>b': (1, True), '>h': (2, True), '>i': (4, True), '>q': (8, True),
           'B': (1, False), 'b': (1, True), '!B': (1, False), '!H': (2, False),
           '!I': (4, False), '!Q': (8, False)}
    calcsize = staticmethod(_struct.calcsize)
    Struct = _struct.Struct

    @staticmethod
    def pack(fmt, *xs):
        if not any(_isinstance(x, (SymInt, SymBool, SymFloatBase)) for x in xs):
            return _struct.pack(fmt, *xs)
        if _len(xs) != 1:
            raise Inconclusive('struct.pack with several symbolic values')
        x = xs[0]
        if _isinstance(x, SymFloatBase):
            return x.pack(fmt)
        if fmt not in struct_shim.FMT:
            raise Inconclusive('struct format %s' % fmt)
        n, signed = struct_shim.FMT[fmt]
        try:
            return _lift(x).to_bytes(n, 'big', signed=signed)
        except OverflowError:
            raise _struct.error('argument out of range')

    @staticmethod
    def unpack(fmt, b):
        if _isinstance(b, (_bytes, _bytearray)):
            return _struct.unpack(fmt, b)
        if fmt in ('>f', '>d', '!f', '!d'):
            from pyfront import fp
            return (fp.unpack(fmt, b),)
        if fmt not in struct_shim.FMT:
            raise Inconclusive('struct format %s' % fmt)
        n, signed = struct_shim.FMT[fmt]
        if _len(b) != n:
            raise _struct.error('unpack requires a buffer of %d bytes' % n)
        return (b.asint(signed=signed),)


SHIMS = {
    'int': IntShim,
    'hex': hex_shim,
    'bin': bin_shim,
    'bytearray': ByteArrayShim,
    'bytes': BytesShim,
    'str': StrShim,
    'ord': ord_shim,
    'chr': chr_shim,
}
MODULE_SHIMS = {
    'binascii': binascii_shim,
    'struct': struct_shim,
}

_installed = []   # (module, name, had, old)


def install(mods, names=None):
    """inject shims into the given modules' namespaces (reversible)"""
    for mod in mods:
        d = mod.__dict__
        for k, v in SHIMS.items():
            if names is not None and k not in names:
                continue
            _installed.append((mod, k, k in d, d.get(k)))
            d[k] = v
        for k, v in MODULE_SHIMS.items():
            if k in d:
                _installed.append((mod, k, True, d[k]))
                d[k] = v


def uninstall():
    while _installed:
        mod, k, had, old = _installed.pop()
        if had:
            mod.__dict__[k] = old
        else:
            mod.__dict__.pop(k, None)


class shimmed:
    def __init__(self, mods, names=None):
        self.mods, self.names = mods, names

    def __enter__(self):
        install(self.mods, self.names)

    def __exit__(self, *a):
        uninstall()


class unshimmed:
    """temporarily remove all shims (concrete cross-validation / replay)"""

    def __enter__(self):
        self.saved = list(_installed)
        self.vals = [(m, k, m.__dict__.get(k)) for (m, k, _, _) in self.saved]
        for mod, k, had, old in reversed(self.saved):
            if had:
                mod.__dict__[k] = old
            else:
                mod.__dict__.pop(k, None)
        self.eng = Engine.cur
        Engine.cur = None

    def __exit__(self, *a):
        for m, k, v in self.vals:
            m.__dict__[k] = v
        Engine.cur = self.eng


# ---------------------------------------------------------------------------
# int -> int lookup tables with a symbolic key: a select (If-chain), not 2^n forks
# ---------------------------------------------------------------------------
class SymLookupDict(dict):
    """dict subclass, identical on concrete keys.  With a SymInt key, membership is one
    branch and the value is a piecewise-affine select: the table is grouped into runs of
    consecutive keys whose values are key + constant (an identity alphabet of 65536
    characters is one run)."""
    _cache = None

    def _runs(self):
        c = self._cache
        if c is not None and c[0] == _len(self):
            return c[1]
        runs = []
        for k in sorted(self):
            v = dict.__getitem__(self, k)
            if runs and runs[-1][1] == k - 1 and runs[-1][2] == v - k:
                runs[-1][1] = k
            else:
                runs.append([k, k, v - k])
        self._cache = (_len(self), runs)
        return runs

    def _cands(self, k):
        out = []
        for a, b, d in self._runs():
            a2, b2 = max(a, k.lo), min(b, k.hi)
            if a2 <= b2:
                out.append((a2, b2, d))
        return out

    def _member(self, k):
        c = self._cands(k)
        if not c:
            return False, c
        if sum(b - a + 1 for a, b, _d in c) == k.hi - k.lo + 1:
            return True, c
        w = k.e.size()
        return E().branch(z3.Or([z3.And(k.e >= a, k.e <= b) if a != b else k.e == a
                                 for a, b, _d in c])), c

    def __getitem__(self, k):
        if not _isinstance(k, SymInt):
            return dict.__getitem__(self, k)
        ok, c = self._member(k)
        if not ok:
            raise KeyError(k)
        lo = min(a + d for a, _b, d in c)
        hi = max(b + d for _a, b, d in c)
        if lo == hi:
            return lo
        w = max(need(lo, hi), k.e.size()) + 1
        ke = fit(k.e, w)
        e = ke + c[-1][2]
        for a, b, d in reversed(c[:-1]):
            e = z3.If(ke <= b, ke + d, e)
        return _mk(e, lo, hi)

    def __contains__(self, k):
        if not _isinstance(k, SymInt):
            return dict.__contains__(self, k)
        return self._member(k)[0]

    def get(self, k, default=None):
        if not _isinstance(k, SymInt):
            return dict.get(self, k, default)
        try:
            return self[k]
        except KeyError:
            return default


def patch_lookup_dicts(root, minsize=4, limit=100000):
    """replace int->int dict attributes reachable from root by SymLookupDict copies"""
    seen = set()
    stack = [root]
    n = 0
    patched = 0
    while stack:
        o = stack.pop()
        if id(o) in seen:
            continue
        seen.add(id(o))
        n += 1
        if n > limit:
            break
        if _isinstance(o, dict):
            stack.extend(o.values())
            continue
        if _isinstance(o, (list, tuple)):
            stack.extend(o)
            continue
        d = getattr(o, '__dict__', None)
        if d is None or _isinstance(o, (type, type(patch_lookup_dicts))):
            continue
        for k, v in list(d.items()):
            if (type(v) is dict and _len(v) >= minsize
                    and all(type(a) is _int and type(b) is _int for a, b in v.items())):
                d[k] = SymLookupDict(v)
                patched += 1
            else:
                stack.append(v)
        for cls in type(o).__mro__:
            for k, v in list(vars(cls).items()):
                if not k.startswith('__') and not callable(v) and not _isinstance(v, (property, staticmethod, classmethod)):
                    stack.append(v)
    return patched


# ---------------------------------------------------------------------------
# method calls on str/bytes literals (routed here by pyfront.instrument)
# ---------------------------------------------------------------------------
PROXIES = ()


def _has_proxy(x, depth=0):
    if _isinstance(x, PROXIES):
        return True
    if depth < 2 and _isinstance(x, (list, tuple)):
        return any(_has_proxy(y, depth + 1) for y in x)
    return False


_RUNS = {}


def native_contains(item, container):
    """``item in container`` for a native str/bytes container and a proxy item"""
    if _isinstance(container, _str):
        if _isinstance(item, SymStr):
            if _len(item.cp) != 1:
                raise Inconclusive('substring search of a symbolic str in a str')
            c = item.cp[0]
            if _isinstance(c, _str):
                return c in container
            runs = _RUNS.get(container)
            if runs is None:
                cps = sorted(set(_ord(x) for x in container))
                runs = []
                for x in cps:
                    if runs and runs[-1][1] == x - 1:
                        runs[-1][1] = x
                    else:
                        runs.append([x, x])
                if _len(_RUNS) < 64:
                    _RUNS[container] = runs
            if not runs:
                return False
            return E().branch(z3.Or([z3.And(z3.UGE(c, a), z3.ULE(c, b)) if a != b else c == a
                                     for a, b in runs]))
        if _isinstance(item, (DigitStr, SymText)):
            raise Inconclusive('membership of a digit/text proxy in a str')
        return item in container
    if _isinstance(item, (SymInt, SymBool)):
        return SymBytes(_cells_of(container)).__contains__(item)
    return item in container


def literal_method(recv, method, args):
    if method == 'format' and recv == '{}' and _len(args) == 1 and hasattr(args[0], 'as_symstr'):
        return args[0].as_symstr()       # '{}'.format(x) is str(x): kept as a symbolic str
    if method == 'join' and _len(args) == 1 and not _isinstance(args[0], (_str, _bytes, _bytearray)):
        items = list(args[0])
        if not _has_proxy(items):
            return recv.join(items)
        if _isinstance(recv, _bytes):
            return SymBytes(_cells_of(recv)).join(items)
        if any(_isinstance(i, (SymBytes, DigitStr)) for i in items):
            raise Inconclusive('str literal join over byte/digit proxies')
        out = []
        for k, it in enumerate(items):
            if k:
                out.extend(recv)
            out.extend(SymStr.of(it).cp if _isinstance(it, (SymStr, _str)) else list(_str(it)))
        return SymStr(out)
    try:
        return getattr(recv, method)(*args)
    except TypeError:
        if _has_proxy(list(args)):
            raise Inconclusive('%s literal .%s() on symbolic operands' % (type(recv).__name__, method))
        raise


# ---------------------------------------------------------------------------
# text registry (placeholders inside genuine str) -- attached to Engine
# ---------------------------------------------------------------------------
TOKEN_OPEN = '\uf8f0'
TOKEN_CLOSE = '\uf8f1'
CHAR_BASE = 0xE000      # one private-use code point per symbolic character


def _registry_token(self, symint):
    """decimal rendering of a symbolic integer: one token placeholder"""
    toks = self.registry.setdefault('tokens', [])
    toks.append(symint)
    return '%s%d%s' % (TOKEN_OPEN, _len(toks) - 1, TOKEN_CLOSE)


def _registry_text(self, symstr):
    chars = self.registry.setdefault('chars', [])
    out = []
    for c in symstr.cp:
        if _isinstance(c, _str):
            out.append(c)
        else:
            if CHAR_BASE + _len(chars) >= 0xF800:
                raise Inconclusive('too many placeholder characters')
            chars.append(c)
            out.append(_chr(CHAR_BASE + _len(chars) - 1))
    return ''.join(out)


def _WS_DEFAULT():
    return _WS


def _registry_int(self, symstr, base):
    """int() of a symbolic str: optional sign, then decimal digits (anything else: ValueError,
    decided by the solver per character)"""
    if base not in (None, 10):
        raise Inconclusive('int(symbolic str, %r)' % (base,))
    cps = list(symstr.cp)
    neg = False
    if cps and (symstr._is(cps[0], '-') or symstr._is(cps[0], '+')):
        neg = symstr._is(cps[0], '-')
        cps = cps[1:]
    if not cps:
        raise ValueError("invalid literal for int() with base 10")
    if _len(cps) > 30:
        raise Inconclusive('int() of a long symbolic str')
    w = 4 * _len(cps) + 8
    acc = z3.BitVecVal(0, w)
    for c in cps:
        if _isinstance(c, _str):
            if c not in '0123456789':
                raise ValueError("invalid literal for int() with base 10")
            d = z3.BitVecVal(_int(c), w)
        else:
            if not self.branch(z3.And(z3.UGE(c, 0x30), z3.ULE(c, 0x39))):
                raise ValueError("invalid literal for int() with base 10")
            d = z3.ZeroExt(w - 21, c - 0x30) if w > 21 else z3.Extract(w - 1, 0, c - 0x30)
        acc = acc * 10 + d
    top = 10 ** _len(cps) - 1
    acc = z3.simplify(acc)
    if neg:
        return _mk(-acc, -top, 0)
    return _mk(acc, 0, top)


BIT_BASE = 0xF0000      # plane-15 private use: one code point per symbolic binary digit


def _case_pairs(limit=1024):
    """lower-case letters (outside every script the harnesses use in values) whose upper-case
    twin is a single, different, round-tripping character: placeholders for symbolic hex
    digits, so that a native ``.upper()`` / ``.lower()`` on formatted text stays observable"""
    out = []
    for cp in range(0x2C30, 0x1F000):
        ch = _chr(cp)
        if not ch.islower():
            continue
        up = ch.upper()
        if _len(up) == 1 and up != ch and up.lower() == ch and up.upper() == up and ch.lower() == ch \
                and _ord(up) >= 0x2C00:
            out.append(ch)
            if _len(out) >= limit:
                break
    return out


HEX_LOWER = _case_pairs()
HEX_UPPER = [c.upper() for c in HEX_LOWER]
_HEX_LOWER_IDX = {c: i for i, c in enumerate(HEX_LOWER)}
_HEX_UPPER_IDX = {c: i for i, c in enumerate(HEX_UPPER)}


def _registry_digits(self, ds):
    bits = self.registry.setdefault('bits', [])
    nibbles = self.registry.setdefault('nibbles', [])
    out = []
    for c in ds.ch:
        if _isinstance(c, _str):
            out.append(c)
            continue
        kind, e = c
        if kind == 'b':
            bits.append(e)
            out.append(_chr(BIT_BASE + _len(bits) - 1))
        else:
            if _len(nibbles) >= _len(HEX_LOWER):
                raise Inconclusive('too many placeholder hex digits')
            nibbles.append(e)
            out.append((HEX_UPPER if kind == 'H' else HEX_LOWER)[_len(nibbles) - 1])
    return ''.join(out)


def has_placeholder(s):
    """does a genuine str contain placeholder characters registered on the current path?"""
    eng = Engine.cur
    if eng is None:
        return False
    reg = eng.registry
    nc, nb, nn = _len(reg.get('chars', ())), _len(reg.get('bits', ())), _len(reg.get('nibbles', ()))
    nt = _len(reg.get('tokens', ()))
    if not (nc or nb or nn or nt):
        return False
    for ch in s:
        o = _ord(ch)
        if o < 0x2C00:
            continue
        if CHAR_BASE <= o < CHAR_BASE + nc or BIT_BASE <= o < BIT_BASE + nb \
                or (nt and (ch == TOKEN_OPEN or ch == TOKEN_CLOSE)) \
                or _HEX_LOWER_IDX.get(ch, nn) < nn or _HEX_UPPER_IDX.get(ch, nn) < nn:
            return True
    return False


def text_items(s):
    """genuine str with placeholders -> list of items: a concrete character,
    ('chr', BV21), ('bit', BV1), ('hex', BV4, is_upper) or ('int', SymInt)"""
    reg = E().registry
    chars, toks = reg.get('chars', []), reg.get('tokens', [])
    bits, nibbles = reg.get('bits', []), reg.get('nibbles', [])
    out = []
    i, n = 0, _len(s)
    while i < n:
        ch = s[i]
        o = _ord(ch)
        if ch == TOKEN_OPEN:
            j = s.index(TOKEN_CLOSE, i)
            out.append(('int', toks[_int(s[i + 1:j])]))
            i = j + 1
            continue
        if CHAR_BASE <= o < CHAR_BASE + _len(chars):
            out.append(('chr', chars[o - CHAR_BASE]))
        elif BIT_BASE <= o < BIT_BASE + _len(bits):
            out.append(('bit', bits[o - BIT_BASE]))
        elif ch in _HEX_LOWER_IDX and _HEX_LOWER_IDX[ch] < _len(nibbles):
            out.append(('hex', nibbles[_HEX_LOWER_IDX[ch]], False))
        elif ch in _HEX_UPPER_IDX and _HEX_UPPER_IDX[ch] < _len(nibbles):
            out.append(('hex', nibbles[_HEX_UPPER_IDX[ch]], True))
        else:
            out.append(ch)
        i += 1
    return out


_WS = ''.join(_chr(c) for c in range(0x3001) if _chr(c).isspace())


def _strip_side(items, chars, left):
    """number of items stripped from one side of a placeholder text"""
    seq = items if left else items[::-1]
    k = 0
    for it in seq:
        if _isinstance(it, _str):
            if it in chars:
                k += 1
                continue
            break
        if it[0] == 'chr':
            cond = z3.Or([it[1] == _ord(c) for c in chars])
            if E().branch(cond):
                k += 1
                continue
            break
        if it[0] == 'int':
            if any(c in '-0123456789' for c in chars):
                raise Inconclusive('strip of digits from a decimal token')
            break
        if any(c in '0123456789abcdefABCDEF' for c in chars):
            raise Inconclusive('strip of digits from a digit placeholder')
        break
    return k


INSPECTING = frozenset((
    'upper lower strip lstrip rstrip replace split rsplit find rfind index rindex count '
    'startswith endswith partition rpartition splitlines translate title capitalize swapcase casefold isdigit '
    'isalpha isalnum isspace isupper islower isnumeric isdecimal isidentifier isprintable isascii zfill center '
    'ljust rjust expandtabs removeprefix removesuffix').split())


def text_method(recv, method, args):
    """an inspecting ``str`` method called by the analysed code on a genuine str: executed
    natively unless the text carries placeholders, in which case it is modelled (case mapping of
    digit placeholders, strip with a solver-decided boundary) or the path is inconclusive"""
    if type(recv) is not _str or Engine.cur is None or not has_placeholder(recv):
        return getattr(recv, method)(*args)
    if method in ('upper', 'lower'):
        if any(CHAR_BASE <= _ord(c) < 0xF800 for c in recv):
            raise Inconclusive('str.%s() over symbolic characters of a formatted text' % method)
        return getattr(recv, method)()
    if method in ('strip', 'lstrip', 'rstrip') and _len(args) <= 1:
        chars = args[0] if args and args[0] is not None else _WS
        if type(chars) is not _str:
            raise Inconclusive('str.%s(%r) on formatted text' % (method, chars))
        # one item per raw character (token delimiters stand for the token: never strippable)
        raw = list(recv)

        def item(ch):
            if ch in (TOKEN_OPEN, TOKEN_CLOSE):
                return ('int', None)
            return text_items(ch)[0]
        items = [item(c) for c in raw]
        a, b = 0, _len(raw)
        if method in ('strip', 'lstrip'):
            a = _strip_side(items, chars, True)
        if method in ('strip', 'rstrip'):
            b = _len(raw) - _strip_side(items[a:], chars, False)
        return recv[a:b] if b > a else ''
    if method in ('split', 'partition') and _len(args) == 1 and type(args[0]) is _str and _len(args[0]) == 1 \
            and not has_placeholder(args[0]):
        sep = args[0]
        chars = Engine.cur.registry.get('chars', [])
        if sep in '-0123456789abcdefABCDEF' and any(not (CHAR_BASE <= _ord(c) < CHAR_BASE + _len(chars)) and has_placeholder(c)
                                                     for c in recv):
            raise Inconclusive('str.%s(%r) over digit placeholders' % (method, sep))
        parts, cur = [], []
        for k, ch in enumerate(recv):
            o = _ord(ch)
            is_sep = (ch == sep) if not (CHAR_BASE <= o < CHAR_BASE + _len(chars)) \
                else E().branch(chars[o - CHAR_BASE] == _ord(sep))
            if is_sep:
                if method == 'partition':
                    return (''.join(cur), sep, recv[k + 1:])
                parts.append(''.join(cur))
                cur = []
            else:
                cur.append(ch)
        if method == 'partition':
            return (recv, '', '')
        parts.append(''.join(cur))
        return parts
    if method == 'replace' and _len(args) == 2 and type(args[0]) is _str and type(args[1]) is _str \
            and _len(args[0]) == 1 and not has_placeholder(args[0]) and not has_placeholder(args[1]):
        old, new = args
        out = []
        chars = Engine.cur.registry.get('chars', [])
        for ch in recv:
            o = _ord(ch)
            if CHAR_BASE <= o < CHAR_BASE + _len(chars):
                out.append(new if E().branch(chars[o - CHAR_BASE] == _ord(old)) else ch)
            elif ch == old:
                out.append(new)
            elif ch in (TOKEN_OPEN, TOKEN_CLOSE) or BIT_BASE <= o or ch in _HEX_LOWER_IDX or ch in _HEX_UPPER_IDX:
                if old in '-0123456789abcdefABCDEF':
                    raise Inconclusive('str.replace(%r, ...) over digit placeholders' % old)
                out.append(ch)
            else:
                out.append(ch)
        return ''.join(out)
    raise Inconclusive('str.%s() inspects formatted text that carries symbolic content' % method)


Engine.registry_token = _registry_token
Engine.registry_text = _registry_text
Engine.registry_int = _registry_int
Engine.registry_digits = _registry_digits
Engine.hash_strs = ()

PROXIES = (SymInt, SymBool, SymBytes, SymStr, DigitStr, SymText, IntToken)
