"""A backtracking regular-expression matcher with Python ``re`` semantics (leftmost match, ordered
alternation, greedy/lazy repeats) over texts whose characters may be symbolic: every character
test is a solver decision (Engine.branch), so one run follows one class of texts.

The pattern is parsed by CPython's own parser (re._parser), i.e. the CURRENT pattern of the
analysed code is interpreted, whatever it is; constructs outside the supported subset make the
path inconclusive.  Supported: literals, ``.``, classes ``[...]``/``[^...]`` with ranges and
\\d \\s \\w categories, groups, alternation, ``* + ? {m,n}`` greedy and lazy, ``^ $ \\A \\Z``.
"""
import re
try:
    import re._parser as _sre_parse
    import re._constants as _C
except ImportError:                       # pragma: no cover
    import sre_parse as _sre_parse
    import sre_constants as _C
import z3

from symcore import E, Inconclusive

MAXREPEAT = _C.MAXREPEAT


class Text:
    """characters: python 1-char str (concrete) or anything else (symbolic, resolved by ``expr``)"""

    def __init__(self, chars, expr, width):
        self.chars = list(chars)
        self.expr = expr          # symbolic item -> z3 BV expression of its code
        self.width = width

    def __len__(self):
        return len(self.chars)


def _lit(text, pos, code, negate=False):
    """decide: text[pos] is (not) the character with this code; returns python bool"""
    c = text.chars[pos]
    if isinstance(c, str) and len(c) == 1 and text.expr(c) is None:
        r = ord(c) == code
        return (not r) if negate else r
    e = text.expr(c)
    if code >= (1 << text.width):
        r = False
    else:
        r = E().branch(e == code)
    return (not r) if negate else r


def _range_cond(e, lo, hi, width):
    top = (1 << width) - 1
    if lo > top:
        return z3.BoolVal(False)
    hi = min(hi, top)
    if lo == hi:
        return e == lo
    return z3.And(z3.UGE(e, lo), z3.ULE(e, hi))


_CATS = {
    _C.CATEGORY_DIGIT: [(0x30, 0x39)],
    _C.CATEGORY_SPACE: [(9, 13), (32, 32)],
    _C.CATEGORY_WORD: [(0x30, 0x39), (0x41, 0x5a), (0x5f, 0x5f), (0x61, 0x7a)],
}
_NEG_CATS = {_C.CATEGORY_NOT_DIGIT: _C.CATEGORY_DIGIT, _C.CATEGORY_NOT_SPACE: _C.CATEGORY_SPACE,
             _C.CATEGORY_NOT_WORD: _C.CATEGORY_WORD}


def _in_class(text, pos, items):
    c = text.chars[pos]
    negate = False
    ranges = []
    neg_ranges = []
    for op, av in items:
        if op is _C.NEGATE:
            negate = True
        elif op is _C.LITERAL:
            ranges.append((av, av))
        elif op is _C.RANGE:
            ranges.append(av)
        elif op is _C.CATEGORY:
            if av in _CATS:
                ranges.extend(_CATS[av])
            elif av in _NEG_CATS:
                neg_ranges.extend(_CATS[_NEG_CATS[av]])
            else:
                raise Inconclusive('regex category %s' % (av,))
        else:
            raise Inconclusive('regex class item %s' % (op,))
    e = text.expr(c)
    if e is None:
        o = ord(c)
        r = any(a <= o <= b for a, b in ranges) or (bool(neg_ranges) and not any(a <= o <= b for a, b in neg_ranges))
    else:
        conds = [_range_cond(e, a, b, text.width) for a, b in ranges]
        if neg_ranges:
            if o_ascii_only(text):
                conds.append(z3.Not(z3.Or([_range_cond(e, a, b, text.width) for a, b in neg_ranges])))
            else:
                raise Inconclusive('negated regex category on wide symbolic characters')
        r = E().branch(z3.Or(conds)) if conds else False
    return (not r) if negate else r


def o_ascii_only(text):
    return text.width <= 8


class Matcher:
    def __init__(self, pattern, flags=0):
        if flags:
            raise Inconclusive('regex flags %r' % (flags,))
        if isinstance(pattern, bytes):
            raise Inconclusive('bytes regex on symbolic text')
        self.pattern = pattern
        self.tree = _sre_parse.parse(pattern)

    # each matcher returns the end position or None; ``k`` is the continuation
    def _seq(self, nodes, i, text, pos, groups, k):
        if i == len(nodes):
            return k(pos, groups)
        op, av = nodes[i]

        def nxt(p, g):
            return self._seq(nodes, i + 1, text, p, g, k)
        return self._node(op, av, text, pos, groups, nxt)

    def _node(self, op, av, text, pos, groups, k):
        n = len(text)
        if op is _C.LITERAL:
            if pos < n and _lit(text, pos, av):
                return k(pos + 1, groups + [('lit', pos, chr(av))])
            return None
        if op is _C.NOT_LITERAL:
            if pos < n and _lit(text, pos, av, negate=True):
                return k(pos + 1, groups)
            return None
        if op is _C.ANY:
            if pos < n and _lit(text, pos, 10, negate=True):
                return k(pos + 1, groups)
            return None
        if op is _C.IN:
            if pos < n and _in_class(text, pos, av):
                return k(pos + 1, groups)
            return None
        if op is _C.BRANCH:
            for alt in av[1]:
                r = self._seq(list(alt), 0, text, pos, groups, k)
                if r is not None:
                    return r
            return None
        if op is _C.SUBPATTERN:
            sub = av[3] if len(av) == 4 else av[1]
            return self._seq(list(sub), 0, text, pos, groups, k)
        if op in (_C.MAX_REPEAT, _C.MIN_REPEAT):
            lo, hi, sub = av
            sub = list(sub)
            greedy = op is _C.MAX_REPEAT

            def rep(count, p, g):
                def more():
                    if hi is not MAXREPEAT and count >= hi:
                        return None

                    def after(p2, g2):
                        if p2 == p and count >= lo:
                            return None          # empty iteration: stop (as sre does)
                        return rep(count + 1, p2, g2)
                    return self._seq(sub, 0, text, p, g, after)
                if count < lo:
                    return more()
                if greedy:
                    r = more()
                    if r is not None:
                        return r
                    return k(p, g)
                r = k(p, g)
                if r is not None:
                    return r
                return more()
            return rep(0, pos, groups)
        if op is _C.AT:
            if av in (_C.AT_BEGINNING, _C.AT_BEGINNING_STRING):
                return k(pos, groups) if pos == 0 else None
            if av is _C.AT_END_STRING:
                return k(pos, groups) if pos == n else None
            if av is _C.AT_END:
                if pos == n or (pos == n - 1 and _lit(text, pos, 10)):
                    return k(pos, groups)
                return None
            raise Inconclusive('regex anchor %s' % (av,))
        raise Inconclusive('regex construct %s outside the symbolic matcher' % (op,))

    def match_at(self, text, start):
        """(end, literal_positions) of the leftmost-semantics match starting at start, or None"""
        found = []

        def done(p, g):
            found.append((p, g))
            return p
        r = self._seq(list(self.tree), 0, text, start, [], done)
        if r is None:
            return None
        return found[-1]


class Match:
    def __init__(self, string, start, end, lits):
        self._string, self._s, self._e = string, start, end
        self._lits = {p: ch for _t, p, ch in lits}

    def start(self, g=0):
        return self._s

    def end(self, g=0):
        return self._e

    def span(self, g=0):
        return (self._s, self._e)

    def group(self, g=0):
        if g != 0:
            raise Inconclusive('regex group %r on symbolic text' % (g,))
        # characters matched by a literal of the pattern are that literal on this path
        return ''.join(self._lits.get(i, self._string[i]) for i in range(self._s, self._e))


def finditer(pattern, string, expr, width, flags=0):
    m = Matcher(pattern, flags)
    text = Text(string, expr, width)
    out = []
    i, n = 0, len(string)
    while i <= n:
        r = m.match_at(text, i)
        if r is None:
            i += 1
            continue
        end, lits = r
        out.append(Match(string, i, end, lits))
        i = end if end > i else i + 1
    return out


def sub(pattern, repl, string, expr, width, count=0, flags=0):
    if count:
        raise Inconclusive('re.sub(count=...)')
    if callable(repl) or '\\' in repl:
        raise Inconclusive('re.sub with a callable / back-references')
    out = []
    last = 0
    for mt in finditer(pattern, string, expr, width, flags):
        out.append(string[last:mt.start()])
        out.append(repl)
        last = mt.end()
    out.append(string[last:])
    return ''.join(out)
