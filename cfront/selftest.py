"""Differential self-test of the C interpreter: for concrete inputs, interpreting the generated C
must give exactly what the gcc-compiled code gives.

For every template of checks/C09.py (UPER) and checks/C10.py (OER) and a handful of random valid
struct values: encode (return value + bytes), encode into too-small buffers (return value),
decode of the encoding (return value + every field the decoder wrote), decode of random and of
mutated byte strings (return value + fields).  Run:  .venv/bin/python -m cfront.selftest [n] [seed]
"""
import os
import random
import sys

sys.path.insert(0, os.path.dirname(os.path.dirname(os.path.abspath(__file__))))


import cfront
from cfront import Ptr, ival, U64
from symcore import Engine, PathResult


def main(argv):
    n = int(argv[1]) if len(argv) > 1 else 6
    seed = int(argv[2]) if len(argv) > 2 else 1
    rnd = random.Random(seed)
    from lib import cgen
    from lib.cgen import Mapper
    from lib.runner import Ctx
    from checks import C09, C10

    class RandCtx(Ctx):
        def choose(self, name, k):
            v = rnd.randrange(k) if k > 1 else 0
            self.shape[name] = v
            return v

    stats = dict(units=0, types=0, encode=0, small=0, decode=0, random_decode=0, mismatches=0)
    todo = [('uper', t) for t in C09.TEMPLATES] + [('oer', t) for t in C10.TEMPLATES]
    for codec, tpl in todo:
        try:
            u = cgen.Unit(tpl['text'], codec, 't')
        except cgen.GeneratorError as e:
            print('SKIP %s/%s: %s' % (codec, tpl['id'], str(e)[:80]))
            continue
        stats['units'] += 1
        module = tpl.get('module', 'T')
        types = sorted(u.parsed[module]['types']) if tpl.get('multi') else [tpl.get('type', 'A')]
        for ty in types:
            stats['types'] += 1
            cname = u.cname(module, ty)
            ct = u.prog.structs[cname + '_t']
            td = u.parsed[module]['types'][ty]
            for _i in range(n):
                eng = Engine()
                Engine.cur = eng
                try:
                    u.prog.reset()
                    ctx = RandCtx(eng, PathResult(), {}, [])
                    sym = u.prog.alloc(ct, 's')
                    Mapper(u, ctx).fill(sym, td, module, 's', additions=codec == 'oer')
                    # random valid values: try to pin each variable to a random / boundary value
                    for name, var in list(eng.vars.items()):
                        w = var.size()
                        for cand in (rnd.getrandbits(w), (1 << w) - 1, 0, 1 << (w - 1), rnd.getrandbits(w) & 0xff):
                            if eng.check_model(var == cand) is not None:
                                eng.solver.add(var == cand)
                                break
                    model = eng.check_model()
                    img = cgen.image(sym, model)
                    mp = Mapper(u)
                    src = u.prog.alloc(ct, 's')
                    mp.load(src, td, module, img)
                    cap = 600
                    # encode
                    buf = u.prog.buffer(cap, name='dst')
                    r = u.prog.call(cname + '_encode', [Ptr(buf, 0), ival(U64, cap), Ptr(src)])
                    rn, data, _ok = u.native.encode(cname, img, cap)
                    mine = bytes((c.const() or 0) for c in buf.e[:max(r.sk(), 0)])
                    stats['encode'] += 1
                    if r.sk() != rn or mine != data:
                        stats['mismatches'] += 1
                        print('MISMATCH encode %s/%s.%s %s: interpreter %d %s, gcc %d %s' % (
                            codec, tpl['id'], ty, cgen.describe(src, None), r.sk(), mine.hex(), rn, data.hex()))
                        continue
                    if rn < 0:
                        continue
                    # too-small buffers
                    for size in sorted({0, max(rn - 1, 0), rnd.randrange(rn + 1)} - {rn}):
                        u.prog.reset()
                        b2 = u.prog.buffer(size, name='dst')
                        r2 = u.prog.call(cname + '_encode', [Ptr(b2, 0), ival(U64, size), Ptr(src)])
                        rn2, _d, intact = u.native.encode(cname, img, size)
                        stats['small'] += 1
                        if r2.sk() != rn2 or not intact:
                            stats['mismatches'] += 1
                            print('MISMATCH small-buffer %s/%s.%s size %d: interpreter %d, gcc %d (guard intact: %s)'
                                  % (codec, tpl['id'], ty, size, r2.sk(), rn2, intact))
                    # decode the encoding, random bytes, and mutations of the encoding
                    inputs = [data, bytes(rnd.getrandbits(8) for _ in range(rnd.randrange(0, 8)))]
                    for _k in range(3):
                        mut = bytearray(data)
                        if mut:
                            mut[rnd.randrange(len(mut))] ^= 1 << rnd.randrange(8)
                        if rnd.random() < 0.3 and mut:
                            mut = mut[:rnd.randrange(len(mut))]
                        inputs.append(bytes(mut))
                    for j, inp in enumerate(inputs):
                        u.prog.reset()
                        ib = u.prog.buffer(len(inp), name='src')
                        for c, b in zip(ib.e, inp):
                            c.setk(b)
                        dst = u.prog.alloc(ct, 'd')
                        try:
                            r3 = u.prog.call(cname + '_decode', [Ptr(dst), Ptr(ib, 0), ival(U64, len(inp))])
                        except cfront.UB as e:
                            print('UB in decode(%s) %s/%s.%s: %s' % (inp.hex(), codec, tpl['id'], ty, e))
                            stats['mismatches'] += 1
                            continue
                        rn3, raw = u.native.decode(cname, inp, ct.size())
                        stats['decode' if j == 0 else 'random_decode'] += 1
                        if u.prog.undef_names:
                            # reads of never-written objects: the compiled code's result is indeterminate too
                            if r3.k is not None and r3.sk() != rn3:
                                stats['mismatches'] += 1
                                print('MISMATCH decode return %s/%s.%s %s: %d vs gcc %d' % (
                                    codec, tpl['id'], ty, inp.hex(), r3.sk(), rn3))
                            continue
                        bad = None if r3.sk() == rn3 else 'return %d vs gcc %d' % (r3.sk(), rn3)
                        bad = bad or cgen.written_mismatch(dst, raw, None)
                        if bad:
                            stats['mismatches'] += 1
                            print('MISMATCH decode %s/%s.%s %s: %s' % (codec, tpl['id'], ty, inp.hex(), bad))
                finally:
                    Engine.cur = None
    print('cfront selftest: %s' % ' '.join('%s=%d' % kv for kv in stats.items()))
    return 1 if stats['mismatches'] else 0


if __name__ == '__main__':
    sys.exit(main(sys.argv))
