typedef long ssize_t; typedef unsigned long size_t;
