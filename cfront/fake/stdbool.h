typedef _Bool bool;
#define true 1
#define false 0
