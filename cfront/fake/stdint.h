typedef unsigned char uint8_t; typedef unsigned short uint16_t; typedef unsigned int uint32_t; typedef unsigned long uint64_t;
typedef signed char int8_t; typedef short int16_t; typedef int int32_t; typedef long int64_t;
