typedef unsigned long size_t;
void *memcpy(void *d, const void *s, size_t n); int memcmp(const void *a, const void *b, size_t n); void *memset(void *d, int c, size_t n);
