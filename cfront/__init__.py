"""cfront ("csym") -- symbolic interpreter for the C99 that asn1tools GENERATES.

The generated source (asn1tools.source.c.generate) is pre-processed with
``gcc -E -nostdinc`` against the fake headers in cfront/fake/, parsed with
pycparser and the AST is interpreted on symcore:

* values are z3 bit-vectors of the C type's width under LP64 (char 8, short 16,
  int 32, long/size_t/ssize_t/pointers 64, _Bool 8 holding 0/1, enums 32,
  float/double opaque BV32/BV64 -- the generated code never computes with them);
  integer promotions, usual arithmetic conversions, C99 literal typing;
* memory is a tree of objects: Cell (scalar), StructObj, UnionObj, ArrayObj;
  pointers are fat: Ptr(obj, idx) = element idx of an ArrayObj (one-past allowed),
  Ptr(obj) = a whole object, Ptr(cell, boff=k) = byte k inside a scalar
  (``(const uint8_t *)&u64``).  memcpy/memset/memcmp work on the little-endian
  byte image of scalars / arrays of scalars;
* control flow: a condition is decided with ``E().branch`` (forks when both sides are
  feasible), an array index / memcpy size with ``E().concretize`` (after the in-bounds
  obligation, so enumeration stays inside the object).  ``a && b``, ``a || b`` and
  ``c ? x : y`` with side-effect-free operands are evaluated without forking (z3 And/
  Or/If) when that raises no obligation;
* undefined-behaviour obligations, each decided with branch(); the bad side raises
  ``UB(kind, detail)``: 'out-of-bounds' (struct arrays and caller buffers, incl. a symbolic
  accessible size ``ArrayObj.limit``), 'signed-overflow', 'shift' (count negative or >= width,
  negative/overflowing signed left operand), 'division' (by zero, INT_MIN / -1),
  'union-inactive-member' (read of a member other than the one last written -- the
  generated code always selects the member by the choice field, so this is an obligation,
  not a layout), 'null-dereference';
* a read of a never-written scalar is NOT UB here (unsigned char / address-taken objects:
  indeterminate value): it yields a fresh unconstrained variable ``undef!k`` and is recorded
  in ``Program.uninit`` as ('uninitialised-read', where, what); ``Program.undef_names`` lets a
  harness ask whether a result depends on such a value (``depends_on_undef``).  Bytes copied by
  memcpy stay "never written" without a record.  ``Program(strict_uninit=True)`` raises
  UB('uninitialised-read') instead.

API
    prog = Program(c_source_text, header_text, header_name='x.h')      (parse once per text)
        prog.structs    {tag: CT}        prog.functions {name: FuncDef}
        prog.enums      {enumerator: int}   prog.enum_types {tag: CT}
        prog.enum_lists {tag: [(enumerator, int)]}
        prog.typedefs   {name: CT}
    obj  = prog.alloc(ct)                  Cell / StructObj / UnionObj / ArrayObj tree
    buf  = prog.buffer(n, limit=None)      uint8_t[n]; limit = BV64 accessible size
    prog.zero(obj)                         the caller's memset(&obj, 0, sizeof(obj))
    ret  = prog.call(name, [args])         args: Ptr(...) / Val(ct, bv); returns Val or None
    prog.reset()                           per-path state (uninit records, step budget)
    U8, I32, U64, I64 ...                  ready-made CTs;  ival(ct, n) constant Val

Anything outside the supported subset raises symcore.Inconclusive (never a verdict).
"""
import hashlib
import os
import subprocess
import tempfile

import z3
import pycparser
from pycparser import c_ast as A

from symcore import E, Inconclusive

FAKE = os.path.join(os.path.dirname(os.path.abspath(__file__)), 'fake')
MAX_STEPS = 400000


class UB(Exception):
    """an undefined-behaviour obligation is falsifiable on this path"""

    def __init__(self, kind, detail='', coord=None):
        Exception.__init__(self, '%s: %s%s' % (kind, detail, (' at %s' % coord) if coord else ''))
        self.kind, self.detail, self.coord = kind, detail, str(coord) if coord else None


class _Bail(Exception):
    """speculative (fork-free) evaluation met an obligation or an uninitialised read"""


def unsupported(what, node=None):
    return Inconclusive('cfront: unsupported %s%s' % (what, (' at %s' % node.coord) if node is not None and
                                                      getattr(node, 'coord', None) else ''))


# ---------------------------------------------------------------------------
# types
# ---------------------------------------------------------------------------
class CT:
    __slots__ = ('kind', 'bits', 'signed', 'isbool', 'base', 'n', 'fields', 'name', 'isenum')

    def __init__(self, kind, bits=0, signed=False, base=None, n=None, fields=None, name=None,
                 isbool=False, isenum=False):
        self.kind, self.bits, self.signed, self.base, self.n = kind, bits, signed, base, n
        self.fields, self.name, self.isbool, self.isenum = fields, name, isbool, isenum

    def size(self):
        k = self.kind
        if k in ('int', 'float', 'ptr'):
            return self.bits // 8
        if k == 'array':
            return self.n * self.base.size()
        if k == 'struct':
            off = 0
            for _n, t in self.fields:
                a = t.align()
                off = (off + a - 1) // a * a + t.size()
            a = self.align()
            return max((off + a - 1) // a * a, 1)
        if k == 'union':
            a = self.align()
            m = max([t.size() for _n, t in self.fields] + [1])
            return (m + a - 1) // a * a
        raise unsupported('sizeof(%s)' % k)

    def align(self):
        k = self.kind
        if k in ('int', 'float', 'ptr'):
            return self.bits // 8
        if k == 'array':
            return self.base.align()
        if k in ('struct', 'union'):
            return max([t.align() for _n, t in self.fields] + [1])
        raise unsupported('alignof(%s)' % k)

    def scalar(self):
        return self.kind in ('int', 'float', 'ptr')

    def __repr__(self):
        if self.kind == 'int':
            return 'bool' if self.isbool else ('i' if self.signed else 'u') + str(self.bits)
        if self.kind == 'float':
            return 'f%d' % self.bits
        if self.kind == 'ptr':
            return '%r*' % (self.base,)
        if self.kind == 'array':
            return '%r[%d]' % (self.base, self.n)
        return '%s %s' % (self.kind, self.name or '<anon>')


I8, U8 = CT('int', 8, True), CT('int', 8, False)
I16, U16 = CT('int', 16, True), CT('int', 16, False)
I32, U32 = CT('int', 32, True), CT('int', 32, False)
I64, U64 = CT('int', 64, True), CT('int', 64, False)
INT, UINT, LONG, ULONG = I32, U32, I64, U64
BOOL = CT('int', 8, False, isbool=True)
F32, F64 = CT('float', 32), CT('float', 64)
VOID = CT('void')
VOIDP = CT('ptr', 64, base=VOID)

_BASE = {
    ('char',): I8, ('signed', 'char'): I8, ('unsigned', 'char'): U8,
    ('short',): I16, ('signed', 'short'): I16, ('unsigned', 'short'): U16,
    ('int',): I32, ('signed',): I32, ('signed', 'int'): I32, ('unsigned',): U32, ('unsigned', 'int'): U32,
    ('long',): I64, ('signed', 'long'): I64, ('unsigned', 'long'): U64,
    ('long', 'long'): I64, ('signed', 'long', 'long'): I64, ('unsigned', 'long', 'long'): U64,
    ('_Bool',): BOOL, ('void',): VOID, ('float',): F32, ('double',): F64,
}


def _basekey(names):
    names = [n for n in names if n not in ('const', 'volatile', 'static', 'register')]
    if len(names) > 1 and 'int' in names:
        names = [n for n in names if n != 'int']
    order = {'signed': 0, 'unsigned': 0, 'short': 1, 'long': 1, 'char': 2, 'int': 2}
    return tuple(sorted(names, key=lambda n: order.get(n, 3)))


# ---------------------------------------------------------------------------
# values and memory
# ---------------------------------------------------------------------------
class Val:
    """integer / float rvalue.  ``k``: python int (unsigned image) when the value is a constant --
    arithmetic on constants never touches z3.  ``c`` (z3 Bool): truth value of a comparison whose
    bit-vector form is If(c, 1, 0).  ``e``: the z3 bit-vector (built on demand)."""
    __slots__ = ('ct', '_e', 'c', 'k')

    def __init__(self, ct, e=None, c=None, k=None):
        self.ct, self._e, self.c, self.k = ct, e, c, k
        if k is None and e is not None and isinstance(e, z3.BitVecNumRef):
            self.k = e.as_long()

    @property
    def e(self):
        if self._e is None:
            if self.k is not None:
                self._e = z3.BitVecVal(self.k, self.ct.bits)
            else:
                self._e = z3.If(self.c, z3.BitVecVal(1, self.ct.bits), z3.BitVecVal(0, self.ct.bits))
        return self._e

    def sk(self):
        """python value of a constant under the type's signedness"""
        k = self.k
        if self.ct.signed and k >= 1 << (self.ct.bits - 1):
            k -= 1 << self.ct.bits
        return k

    def __repr__(self):
        return 'Val(%r, %s)' % (self.ct, self.k if self.k is not None else self.e)


def ival(ct, n):
    return Val(ct, None, None, n & ((1 << ct.bits) - 1))


class Cell:
    """scalar object.  ``val``: z3 bit-vector / Ptr / None (never written).  A constant is kept as
    the python int ``k`` and turned into a z3 numeral only when ``val`` is read."""
    __slots__ = ('ct', '_val', 'k', 'name')

    def __init__(self, ct, val=None, name=None):
        self.ct, self.name = ct, name
        self._val, self.k = val, None

    @property
    def val(self):
        if self._val is None and self.k is not None:
            self._val = z3.BitVecVal(self.k, self.ct.bits)
        return self._val

    @val.setter
    def val(self, v):
        self._val, self.k = v, None

    def written(self):
        return self._val is not None or self.k is not None

    def setk(self, k):
        self._val, self.k = None, k

    def const(self):
        """python int of a constant content, else None"""
        if self.k is None and self._val is not None and isinstance(self._val, z3.BitVecNumRef):
            self.k = self._val.as_long()
        return self.k


class StructObj:
    __slots__ = ('ct', 'f', 'name')

    def __init__(self, ct, fields, name=None):
        self.ct, self.f, self.name = ct, fields, name


class UnionObj:
    """only the member written last is readable"""
    __slots__ = ('ct', 'active', 'obj', 'name')

    def __init__(self, ct, name=None):
        self.ct, self.active, self.obj, self.name = ct, None, None, name


class ArrayObj:
    __slots__ = ('ct', 'e', 'limit', 'name')

    def __init__(self, ct, elems, limit=None, name=None):
        self.ct, self.e, self.limit, self.name = ct, elems, limit, name


class Ptr:
    """fat pointer.  obj is None: null pointer.  idx: element index into ArrayObj obj.
    boff: byte offset inside the scalar Cell obj (byte-granular view)."""
    __slots__ = ('obj', 'idx', 'boff', 'base')

    def __init__(self, obj, idx=None, boff=None, base=None):
        self.obj, self.idx, self.boff = obj, idx, boff
        if base is None and obj is not None:
            base = obj.ct.base if (idx is not None and isinstance(obj, ArrayObj)) else obj.ct
        self.base = base

    @property
    def ct(self):
        return CT('ptr', 64, base=self.base)


class _Break(Exception):
    pass


class _Continue(Exception):
    pass


class _Return(Exception):
    def __init__(self, v):
        self.v = v


_PARSE_CACHE = {}


def preprocess(source, header, header_name):
    d = tempfile.mkdtemp(prefix='cfront-', dir='/var/tmp')
    try:
        with open(os.path.join(d, header_name), 'w') as f:
            f.write(header)
        with open(os.path.join(d, 'unit.c'), 'w') as f:
            f.write(source)
        p = subprocess.run(['gcc', '-E', '-nostdinc', '-std=c99', '-I', FAKE, '-I', d, 'unit.c'],
                           cwd=d, capture_output=True, text=True)
        if p.returncode != 0:
            raise Inconclusive('cfront: preprocessing failed: %s' % p.stderr[-400:])
        return p.stdout
    finally:
        for n in os.listdir(d):
            os.unlink(os.path.join(d, n))
        os.rmdir(d)


class Program:
    def __init__(self, source, header='', header_name='unit.h', strict_uninit=False, preprocessed=None):
        """``preprocessed``: output of cfront.preprocess(source, header, header_name) when the caller
        has it already (saves the gcc -E run)"""
        key = hashlib.sha1((source + '\0' + header + '\0' + header_name).encode()).hexdigest()
        ast = _PARSE_CACHE.get(key)
        if ast is None:
            text = preprocessed if preprocessed is not None else preprocess(source, header, header_name)
            ast = pycparser.c_parser.CParser().parse(text, 'unit.c')
            if len(_PARSE_CACHE) > 8:
                _PARSE_CACHE.clear()
            _PARSE_CACHE[key] = ast
        self.ast = ast
        self.strict_uninit = strict_uninit
        self.typedefs, self.structs, self.enum_types, self.enums = {}, {}, {}, {}
        self.enum_lists = {}
        self.functions, self.globals = {}, {}
        self._pure = {}
        self._ctypes, self._keep, self._sigs = {}, [], {}
        self.reset()
        for ext in ast.ext:
            if isinstance(ext, A.Typedef):
                self.typedefs[ext.name] = self.ctype(ext.type)
            elif isinstance(ext, A.FuncDef):
                self.functions[ext.decl.name] = ext
            elif isinstance(ext, A.Decl):
                if isinstance(ext.type, A.FuncDecl):
                    continue
                ct = self.ctype(ext.type)
                if ext.name is not None:
                    self._declare(ext, self.globals, ct)
        self.reset()

    def reset(self):
        """forget per-path state (call at the start of every harness run)"""
        self.uninit = []          # [('uninitialised-read', coord, what)]
        self.undef_names = set()
        self.steps = 0
        self.spec = 0
        self.calls = 0

    # ------------------------------------------------------------------ types
    def ctype(self, t):
        k = id(t)
        r = self._ctypes.get(k)
        if r is None:
            r = self._ctype(t)
            self._ctypes[k] = r
            self._keep.append(t)
        return r

    def _ctype(self, t):
        if isinstance(t, (A.TypeDecl, A.Typename, A.Decl)):
            return self.ctype(t.type)
        if isinstance(t, A.IdentifierType):
            names = [n for n in t.names]
            if len(names) == 1 and names[0] in self.typedefs:
                return self.typedefs[names[0]]
            key = _basekey(names)
            if key in _BASE:
                return _BASE[key]
            raise unsupported('type %s' % (names,), t)
        if isinstance(t, A.PtrDecl):
            return CT('ptr', 64, base=self.ctype(t.type))
        if isinstance(t, A.ArrayDecl):
            n = None if t.dim is None else self.const_int(t.dim)
            return CT('array', base=self.ctype(t.type), n=n)
        if isinstance(t, (A.Struct, A.Union)):
            kind = 'struct' if isinstance(t, A.Struct) else 'union'
            if t.decls is None:
                if t.name not in self.structs:
                    raise unsupported('incomplete %s %s' % (kind, t.name), t)
                return self.structs[t.name]
            ct = CT(kind, fields=[], name=t.name)
            if t.name:
                self.structs[t.name] = ct
            for d in t.decls:
                ct.fields.append((d.name, self.ctype(d.type)))
            return ct
        if isinstance(t, A.Enum):
            if t.values is None:
                if t.name in self.enum_types:
                    return self.enum_types[t.name]
                raise unsupported('incomplete enum %s' % t.name, t)
            v, neg, lst = 0, False, []
            for en in t.values.enumerators:
                if en.value is not None:
                    v = self.const_int(en.value)
                self.enums[en.name] = v
                lst.append((en.name, v))
                neg = neg or v < 0
                v += 1
            if t.name:
                self.enum_lists[t.name] = lst
            # gcc: unsigned int unless an enumerator is negative
            ct = CT('int', 32, signed=neg, name=t.name, isenum=True)
            if t.name:
                self.enum_types[t.name] = ct
            return ct
        if isinstance(t, A.FuncDecl):
            return CT('func', base=self.ctype(t.type))
        raise unsupported('type node %s' % type(t).__name__, t)

    def const_int(self, n):
        if isinstance(n, A.Constant):
            return _parse_int(n.value)[0]
        if isinstance(n, A.ID):
            return self.enums[n.name]
        if isinstance(n, A.UnaryOp) and n.op == '-':
            return -self.const_int(n.expr)
        if isinstance(n, A.UnaryOp) and n.op == '+':
            return self.const_int(n.expr)
        if isinstance(n, A.Cast):
            return self.const_int(n.expr)
        if isinstance(n, A.BinaryOp) and n.op in ('+', '-', '*', '<<', '|'):
            a, b = self.const_int(n.left), self.const_int(n.right)
            return {'+': a + b, '-': a - b, '*': a * b, '<<': a << b, '|': a | b}[n.op]
        raise unsupported('constant expression', n)

    # ------------------------------------------------------------------ memory
    def alloc(self, ct, name=None):
        k = ct.kind
        if k in ('int', 'float', 'ptr'):
            return Cell(ct, None, name)
        if k == 'struct':
            return StructObj(ct, {n: self.alloc(t, '%s.%s' % (name, n)) for n, t in ct.fields}, name)
        if k == 'union':
            return UnionObj(ct, name)
        if k == 'array':
            if ct.n is None:
                raise unsupported('array of unknown size')
            return ArrayObj(ct, [self.alloc(ct.base, '%s[%d]' % (name, i)) for i in range(ct.n)], None, name)
        raise unsupported('alloc %s' % k)

    def buffer(self, n, limit=None, name='buf'):
        """uint8_t[n]; ``limit`` (BV64, unsigned) = number of bytes the caller says are accessible"""
        a = self.alloc(CT('array', base=U8, n=n), name)
        a.limit = limit
        return a

    def union_member(self, u, name, write, node=None):
        if u.active != name:
            if not write:
                raise self.fail('union-inactive-member', 'read of .%s while .%s was written last (%s)'
                         % (name, u.active, u.name), node)
            ft = dict(u.ct.fields)
            if name not in ft:
                raise unsupported('union member %s' % name, node)
            u.active = name
            u.obj = self.alloc(ft[name], '%s.%s' % (u.name, name))
        return u.obj

    def set_union(self, u, name):
        """harness side: make ``name`` the active member (fresh, unwritten object)"""
        u.active = None
        return self.union_member(u, name, True)

    # ------------------------------------------------------------------ obligations
    def ub(self, bad, kind, detail, node=None):
        """decide the obligation not(bad) on this path; the bad side raises UB"""
        if bad is False:
            return
        if bad is not True:
            bad = z3.simplify(bad)
            if z3.is_false(bad):
                return
            if self.spec:
                raise _Bail()
            if not z3.is_true(bad) and not E().branch(bad):
                return
        elif self.spec:
            raise _Bail()
        raise UB(kind, detail, getattr(node, 'coord', None))

    def fail(self, kind, detail, node=None):
        if self.spec:
            raise _Bail()
        return UB(kind, detail, getattr(node, 'coord', None))

    def tick(self, node=None):
        self.steps += 1
        if self.steps > MAX_STEPS:
            raise Inconclusive('cfront: step budget exceeded%s' % ((' at %s' % node.coord) if node is not None else ''))

    def truth(self, v):
        """z3 Bool (or python bool) of a scalar in a boolean context"""
        if isinstance(v, Ptr):
            return v.obj is not None
        if v.k is not None:
            return v.k != 0
        if v.c is not None:
            c = v.c
        else:
            c = v.e != 0
        c = z3.simplify(c)
        if z3.is_true(c):
            return True
        if z3.is_false(c):
            return False
        return c

    def decide(self, c):
        if c is True or c is False:
            return c
        if self.spec:
            raise _Bail()
        return E().branch(c)

    def depends_on_undef(self, *exprs):
        """names of undef!k variables (values of never-written cells) occurring in the expressions"""
        if not self.undef_names:
            return set()
        seen, out, stack = set(), set(), [x for x in exprs if x is not None]
        while stack:
            x = stack.pop()
            i = x.get_id()
            if i in seen:
                continue
            seen.add(i)
            if z3.is_const(x):
                if x.decl().kind() == z3.Z3_OP_UNINTERPRETED and x.decl().name() in self.undef_names:
                    out.add(x.decl().name())
                continue
            stack.extend(x.children())
        return out

    # ------------------------------------------------------------------ conversions
    def conv(self, v, ct, node=None):
        if isinstance(v, Ptr):
            if ct.kind == 'ptr':
                return self.ptr_cast(v, ct, node)
            if ct.kind == 'int' and ct.isbool:
                return ival(BOOL, 1 if v.obj is not None else 0)
            raise unsupported('pointer to integer conversion', node)
        if v is None:
            raise unsupported('use of a void value', node)
        if ct.kind == 'ptr':
            if v.k == 0:
                return Ptr(None, base=ct.base)
            raise unsupported('integer to pointer conversion', node)
        if ct.kind == 'float' or v.ct.kind == 'float':
            if ct.kind == v.ct.kind and ct.bits == v.ct.bits:
                return Val(ct, v._e, None, v.k)
            raise unsupported('floating-point conversion %r -> %r' % (v.ct, ct), node)
        if ct.kind != 'int':
            raise unsupported('conversion to %r' % (ct,), node)
        if v.ct is ct:
            return v
        if ct.isbool:
            if v.ct.isbool:
                return v
            if v.k is not None:
                return Val(ct, None, None, int(v.k != 0))
            if v.c is not None:
                return Val(ct, None, v.c)
            return Val(ct, None, v.e != 0)
        sb, db = v.ct.bits, ct.bits
        if v.k is not None:
            return Val(ct, None, None, v.sk() & ((1 << db) - 1))
        if v.c is not None and v._e is None:
            return Val(ct, None, v.c)         # 0/1 is representable in every integer type
        if db == sb:
            e = v.e
        elif db < sb:
            e = z3.Extract(db - 1, 0, v.e)
        elif v.ct.signed:
            e = z3.SignExt(db - sb, v.e)
        else:
            e = z3.ZeroExt(db - sb, v.e)
        return Val(ct, e)

    def ptr_cast(self, p, ct, node=None):
        to = ct.base
        if isinstance(p.obj, ArrayObj) and p.idx is None and to.kind != 'array':
            p = Ptr(p.obj, 0)
        if p.obj is None or to.kind == 'void' or p.base is None or p.base.kind == 'void':
            return Ptr(p.obj, p.idx, p.boff, to if to.kind != 'void' else p.base)
        if p.boff is not None:
            if to.kind == 'int' and to.bits == 8:
                return Ptr(p.obj, p.idx, p.boff, to)
            raise unsupported('cast of a byte pointer to %r*' % (to,), node)
        cur = p.base
        if cur.kind in ('struct', 'union', 'array') or to.kind in ('struct', 'union', 'array'):
            if cur is to or (cur.kind == to.kind and cur.name == to.name):
                return Ptr(p.obj, p.idx, None, to)
            raise unsupported('pointer cast %r* -> %r*' % (cur, to), node)
        if cur.size() == to.size():
            return Ptr(p.obj, p.idx, None, to)
        if to.kind == 'int' and to.bits == 8 and p.idx is None and isinstance(p.obj, Cell):
            return Ptr(p.obj, None, 0, to)      # byte view of a scalar
        raise unsupported('pointer cast %r* -> %r*' % (cur, to), node)

    def promote(self, v):
        if v.ct.kind == 'int' and v.ct.bits < 32:
            return self.conv(v, INT)
        if v.ct.kind == 'int' and v.ct.isenum:
            return Val(I32 if v.ct.signed else U32, v._e, v.c, v.k)
        return v

    def usual(self, a, b, node=None):
        a, b = self.promote(a), self.promote(b)
        ta, tb = a.ct, b.ct
        if ta.kind != 'int' or tb.kind != 'int':
            raise unsupported('floating-point arithmetic', node)
        if ta.bits == tb.bits and ta.signed == tb.signed:
            t = ta
        elif ta.signed == tb.signed:
            t = ta if ta.bits > tb.bits else tb
        else:
            u, s = (ta, tb) if not ta.signed else (tb, ta)
            t = u if u.bits >= s.bits else s
        t = {(32, True): I32, (32, False): U32, (64, True): I64, (64, False): U64}[(t.bits, t.signed)]
        return self.conv(a, t), self.conv(b, t), t

    # ------------------------------------------------------------------ loads / stores
    def load(self, obj, node=None, via=None):
        if isinstance(obj, Cell):
            k = obj.const()
            if k is not None:
                t = obj.ct
                if via is not None and via is not t and via.kind == 'int' and t.kind == 'int' and via.bits == t.bits:
                    t = via
                return Val(t, obj._val, None, k)
            if obj._val is None:
                if self.spec:
                    raise _Bail()
                what = obj.name or repr(obj.ct)
                if self.strict_uninit:
                    raise self.fail('uninitialised-read', what, node)
                if obj.ct.kind == 'ptr':
                    raise self.fail('uninitialised-read', 'pointer ' + what, node)
                self.uninit.append(('uninitialised-read', str(getattr(node, 'coord', '')), what))
                obj.val = self._undef(obj.ct.bits)
            if isinstance(obj.val, Ptr):
                return obj.val
            v = Val(obj.ct, obj.val)
            if via is not None and via is not obj.ct and via.kind == 'int' and obj.ct.kind == 'int' \
                    and via.bits == obj.ct.bits:
                v = Val(via, obj.val)
            return v
        if isinstance(obj, ArrayObj):
            return Ptr(obj, 0)
        return obj            # struct / union designator

    def _undef(self, bits):
        x = E().fresh('undef', bits)
        self.undef_names.add(x.decl().name())
        return x

    def store(self, obj, v, node=None):
        if not isinstance(obj, Cell):
            raise unsupported('assignment to an aggregate', node)
        v = self.conv(v, obj.ct, node)
        if isinstance(v, Ptr):
            obj.val = v
        elif v.k is not None:
            obj.setk(v.k)
        else:
            e = z3.simplify(v.e)
            obj.val = e
            if isinstance(e, z3.BitVecNumRef):
                obj.setk(e.as_long())

    # -- byte level ---------------------------------------------------------
    def byte_slots(self, p, n, node, what):
        """[(cell, byte index)] for the n bytes starting at p; raises UB when they are not all
        inside the object p points into"""
        if n == 0:
            return []
        if not isinstance(p, Ptr):
            raise unsupported('%s on a non-pointer' % what, node)
        if p.obj is None:
            raise self.fail('null-dereference', what, node)
        o = p.obj
        if isinstance(o, ArrayObj) and p.idx is not None:
            if not o.ct.base.scalar():
                raise unsupported('%s over an array of aggregates' % what, node)
            es = o.ct.base.size()
            start = p.idx * es + (p.boff or 0)
            total = len(o.e) * es
            if start < 0 or start + n > total:
                raise self.fail('out-of-bounds', '%s of %d bytes at offset %d of %s[%d bytes]'
                         % (what, n, start, o.name, total), node)
            if o.limit is not None:
                self.ub(z3.UGT(z3.BitVecVal(start + n, 64), o.limit), 'out-of-bounds',
                        '%s of %d bytes at offset %d of %s beyond the stated size' % (what, n, start, o.name), node)
            return [(o.e[(start + i) // es], (start + i) % es) for i in range(n)]
        if isinstance(o, ArrayObj):
            return self.byte_slots(Ptr(o, 0), n, node, what)
        if isinstance(o, Cell):
            start = p.boff or 0
            if start < 0 or start + n > o.ct.size():
                raise self.fail('out-of-bounds', '%s of %d bytes at byte %d of %s (%d bytes)'
                         % (what, n, start, o.name, o.ct.size()), node)
            return [(o, start + i) for i in range(n)]
        raise unsupported('%s over %s' % (what, type(o).__name__), node)

    @staticmethod
    def _get_byte(cell, k):
        """byte k (little endian) of a scalar: python int (constant), z3 BV8, or None (never written)"""
        c = cell.const()
        if c is not None:
            return (c >> (8 * k)) & 0xff
        v = cell._val
        if v is None:
            return None
        if isinstance(v, Ptr):
            raise unsupported('byte access to a pointer object')
        if cell.ct.bits == 8:
            return v
        return z3.Extract(8 * k + 7, 8 * k, v)

    @staticmethod
    def _bv8(b):
        return z3.BitVecVal(b, 8) if isinstance(b, int) else b

    def _set_bytes(self, writes):
        """writes: [(cell, k, int | bv8 | None)]; None = indeterminate byte"""
        per = {}
        for cell, k, b in writes:
            per.setdefault(id(cell), (cell, {}))[1][k] = b
        for cell, bs in per.values():
            nb = cell.ct.size()
            if nb == 1:
                b = bs[0]
                if b is None:
                    cell.val = None
                elif isinstance(b, int):
                    cell.setk(b)
                else:
                    self._put(cell, z3.simplify(b))
                continue
            if all(b is None for b in bs.values()) and (len(bs) == nb or not cell.written()):
                cell.val = None
                continue
            parts = []
            for k in reversed(range(nb)):
                b = bs[k] if k in bs else self._get_byte(cell, k)
                if b is None:
                    b = self._undef(8)
                parts.append(b)
            if all(isinstance(b, int) for b in parts):
                v = 0
                for b in parts:
                    v = (v << 8) | b
                cell.setk(v)
            else:
                self._put(cell, z3.simplify(z3.Concat(*[self._bv8(b) for b in parts])))

    @staticmethod
    def _put(cell, e):
        cell.val = e
        if isinstance(e, z3.BitVecNumRef):
            cell.setk(e.as_long())

    def builtin(self, name, args, node):
        if name == 'memcpy':
            d, s, k = args
            n = self._mem_len(k, (d, s), node, name)
            src = self.byte_slots(s, n, node, 'memcpy source')
            dst = self.byte_slots(d, n, node, 'memcpy destination')
            data = [self._get_byte(c, i) for c, i in src]
            self._set_bytes([(c, i, b) for (c, i), b in zip(dst, data)])
            return d
        if name == 'memset':
            d, c, k = args
            n = self._mem_len(k, (d,), node, name)
            c = self.conv(c, INT, node)
            b = (c.k & 0xff) if c.k is not None else z3.simplify(z3.Extract(7, 0, c.e))
            dst = self.byte_slots(d, n, node, 'memset destination')
            self._set_bytes([(cl, i, b) for cl, i in dst])
            return d
        if name == 'memcmp':
            a, b, k = args
            n = self._mem_len(k, (a, b), node, name)
            sa = self.byte_slots(a, n, node, 'memcmp operand')
            sb = self.byte_slots(b, n, node, 'memcmp operand')
            pairs = [(self._mem_byte(ca, ia, node), self._mem_byte(cb, ib, node))
                     for (ca, ia), (cb, ib) in zip(sa, sb)]
            res = None
            for x, y in reversed(pairs):
                if isinstance(x, int) and isinstance(y, int):
                    if x != y:
                        res = (-1 if x < y else 1)
                    continue
                x, y = self._bv8(x), self._bv8(y)
                r0 = z3.BitVecVal(res or 0, 32) if (res is None or isinstance(res, int)) else res
                res = z3.If(x == y, r0, z3.If(z3.ULT(x, y), z3.BitVecVal(-1, 32), z3.BitVecVal(1, 32)))
            if res is None or isinstance(res, int):
                return ival(INT, res or 0)
            return Val(INT, z3.simplify(res))
        raise unsupported('call of undefined function %s' % name, node)

    def _mem_byte(self, cell, k, node):
        if not cell.written():
            self.load(cell, node)
        return self._get_byte(cell, k)

    def _mem_len(self, k, ptrs, node, name):
        """concretise a byte count after the obligation that it fits the smallest operand"""
        v = self.conv(k, U64, node)
        if v.k is not None:
            return v.k
        e = z3.simplify(v.e)
        if z3.is_bv_value(e):
            return e.as_long()
        room = []
        for p in ptrs:
            if isinstance(p, Ptr) and p.obj is not None:
                o = p.obj
                if isinstance(o, ArrayObj):
                    es = o.ct.base.size() if o.ct.base.scalar() else 1
                    room.append(len(o.e) * es - (p.idx or 0) * es - (p.boff or 0))
                elif isinstance(o, Cell):
                    room.append(o.ct.size() - (p.boff or 0))
        if room:
            m = max(0, min(room))
            self.ub(z3.UGT(e, m), 'out-of-bounds', '%s of more than the %d bytes available' % (name, m), node)
        return E().concretize(e, signed=False)

    # ------------------------------------------------------------------ lvalues
    def lval(self, n, env, write=False):
        if isinstance(n, A.ID):
            if n.name in env:
                return env[n.name]
            if n.name in self.globals:
                return self.globals[n.name]
            raise unsupported('unknown identifier %s' % n.name, n)
        if isinstance(n, A.StructRef):
            if n.type == '->':
                base = self.deref(self.rval(n.name, env), n)
            else:
                base = self.lval(n.name, env, write)
            fname = n.field.name
            if isinstance(base, UnionObj):
                return self.union_member(base, fname, write, n)
            if not isinstance(base, StructObj) or fname not in base.f:
                raise unsupported('member access .%s' % fname, n)
            return base.f[fname]
        if isinstance(n, A.ArrayRef):
            base = self.base_of(n.name, env)
            return self.index(base, self.rval(n.subscript, env), n)
        if isinstance(n, A.UnaryOp) and n.op == '*':
            return self.deref(self.rval(n.expr, env), n)
        raise unsupported('lvalue %s' % type(n).__name__, n)

    def base_of(self, n, env, write=False):
        """array designator or pointer value of the expression indexed by []
        write: the element is about to be written / its address taken (a union member on the way
        becomes the active one instead of counting as a read of an inactive member)"""
        if isinstance(n, (A.ID, A.StructRef, A.ArrayRef)) or (isinstance(n, A.UnaryOp) and n.op == '*'):
            if isinstance(n, A.ID) and n.name not in env and n.name not in self.globals:
                raise unsupported('unknown identifier %s' % n.name, n)
            o = self.lval(n, env, write)
            if isinstance(o, ArrayObj):
                return o
            return self.load(o, n)
        return self.rval(n, env)

    def index(self, base, idx, node):
        if isinstance(idx, Ptr) or idx.ct.kind != 'int':
            raise unsupported('non-integer subscript', node)
        if isinstance(base, ArrayObj):
            arr, off = base, 0
        elif isinstance(base, Ptr):
            return self.deref(self.ptr_add(base, idx, node, deref=True), node)
        else:
            raise unsupported('subscript of a non-array', node)
        i = self._index_value(idx, 0, len(arr.e), arr, node, deref=True)
        return arr.e[off + i]

    def _index_value(self, idx, off, n, arr, node, deref):
        """concrete value of idx with 0 <= off+idx < n (<= n when not dereferenced)"""
        idx = self.promote(idx)
        top = n if deref else n + 1
        e = None
        if idx.k is None:
            e = z3.simplify(self.conv(idx, I64 if idx.ct.signed else U64).e)
            if z3.is_bv_value(e):
                idx = Val(idx.ct, None, None, e.as_long() & ((1 << idx.ct.bits) - 1))
        if idx.k is not None:
            i = idx.sk()
            if not 0 <= off + i < top:
                raise self.fail('out-of-bounds', 'index %d of %s[%d]' % (off + i, arr.name, n), node)
        else:
            lo, hi = -off, top - off - 1        # admissible idx values
            if idx.ct.signed:
                bad = z3.Or(e < lo, e > hi)
            elif hi < 0:
                bad = z3.BoolVal(True)
            else:
                bad = z3.Or(z3.ULT(e, max(lo, 0)), z3.UGT(e, hi))
            self.ub(bad, 'out-of-bounds', 'index outside %s[%d]' % (arr.name, n), node)
            if self.spec:
                raise _Bail()
            i = E().concretize(e, signed=idx.ct.signed)
        if deref and arr.limit is not None:
            self.ub(z3.UGE(z3.BitVecVal(off + i, 64), arr.limit), 'out-of-bounds',
                    'index %d of %s beyond the stated size' % (off + i, arr.name), node)
        return i

    def ptr_add(self, p, idx, node, deref=False, sign=1):
        if p.obj is None:
            raise self.fail('null-dereference', 'arithmetic on a null pointer', node)
        if sign < 0:
            idx = self.arith('-', ival(I64, 0), self.conv(self.promote(idx), I64), node)
        if p.boff is not None:
            o = p.obj
            if not isinstance(o, Cell):
                raise unsupported('byte pointer into %s' % type(o).__name__, node)
            n = o.ct.size()
            i = self._index_value(idx, p.boff, n, _Named('%s(bytes)' % o.name), node, deref)
            return Ptr(o, None, p.boff + i, p.base)
        if p.idx is None:
            # pointer to a single object = array of one element
            i = self._index_value(idx, 0, 1, _Named(getattr(p.obj, 'name', '?')), node, deref)
            if i == 0:
                return p
            return Ptr(_OnePast(p.obj), 0, None, p.base)
        if isinstance(p.obj, _OnePast):
            i = self._index_value(idx, 1, 1, _Named('?'), node, deref)
            return p if i == 0 else Ptr(p.obj.obj, None, None, p.base)
        i = self._index_value(idx, p.idx, len(p.obj.e), p.obj, node, deref)
        return Ptr(p.obj, p.idx + i, None, p.base)

    def deref(self, p, node):
        if not isinstance(p, Ptr):
            raise unsupported('dereference of a non-pointer', node)
        if p.obj is None:
            raise self.fail('null-dereference', '', node)
        if p.boff is not None:
            return _ByteRef(p.obj, p.boff, p.base)
        if isinstance(p.obj, _OnePast):
            raise self.fail('out-of-bounds', 'dereference of a one-past-the-end pointer', node)
        if p.idx is not None:
            arr = p.obj
            if not 0 <= p.idx < len(arr.e):
                raise self.fail('out-of-bounds', 'dereference at index %d of %s[%d]'
                                % (p.idx, arr.name, len(arr.e)), node)
            if arr.limit is not None:
                self.ub(z3.UGE(z3.BitVecVal(p.idx, 64), arr.limit), 'out-of-bounds',
                        'index %d of %s beyond the stated size' % (p.idx, arr.name), node)
            return arr.e[p.idx]
        return p.obj

    def read(self, obj, node, via=None):
        if isinstance(obj, _ByteRef):
            b = self._get_byte(obj.cell, obj.k)
            if b is None:
                self.load(obj.cell, node)
                b = self._get_byte(obj.cell, obj.k)
            if isinstance(b, int):
                return Val(obj.ct, None, None, b)
            return Val(obj.ct, b)
        return self.load(obj, node, via)

    def write(self, obj, v, node):
        if isinstance(obj, _ByteRef):
            v = self.conv(v, obj.ct, node)
            self._set_bytes([(obj.cell, obj.k, v.k if v.k is not None else z3.simplify(v.e))])
            return
        self.store(obj, v, node)

    # ------------------------------------------------------------------ expressions
    def rval(self, n, env):
        self.tick(n)
        if isinstance(n, A.Constant):
            if n.type in ('int', 'long int', 'unsigned int', 'unsigned long int', 'long long int',
                          'unsigned long long int'):
                v, t = _parse_int(n.value)
                return Val(t, z3.BitVecVal(v, t.bits))
            if n.type == 'char':
                s = n.value[1:-1]
                esc = {'\\0': 0, '\\n': 10, '\\t': 9, '\\r': 13, '\\\\': 92, "\\'": 39}
                return ival(INT, esc[s] if s in esc else ord(s))
            raise unsupported('constant of type %s' % n.type, n)
        if isinstance(n, A.ID):
            if n.name not in env and n.name not in self.globals and n.name in self.enums:
                return ival(INT, self.enums[n.name])
            return self.read(self.lval(n, env), n)
        if isinstance(n, A.StructRef):
            return self.read(self.lval(n, env), n)
        if isinstance(n, A.ArrayRef):
            base = self.base_of(n.name, env)
            via = base.base if isinstance(base, Ptr) else None
            return self.read(self.index(base, self.rval(n.subscript, env), n), n, via)
        if isinstance(n, A.Cast):
            ct = self.ctype(n.to_type)
            v = self.rval(n.expr, env)
            if ct.kind == 'void':
                return None
            return self.conv(v, ct, n)
        if isinstance(n, A.UnaryOp):
            return self.unary(n, env)
        if isinstance(n, A.BinaryOp):
            return self.binary(n, env)
        if isinstance(n, A.TernaryOp):
            return self.ternary(n, env)
        if isinstance(n, A.Assignment):
            return self.assign(n, env)
        if isinstance(n, A.FuncCall):
            return self.funccall(n, env)
        if isinstance(n, A.ExprList):
            r = None
            for x in n.exprs:
                r = self.rval(x, env)
            return r
        raise unsupported('expression %s' % type(n).__name__, n)

    def unary(self, n, env):
        op = n.op
        if op == '&':
            inner = n.expr
            if isinstance(inner, A.ArrayRef):
                # &u.member.buf[i]: forming the address of an element is not a read of the member
                base = self.base_of(inner.name, env, write=True)
                idx = self.rval(inner.subscript, env)
                if isinstance(base, ArrayObj):
                    base = Ptr(base, 0)
                if not isinstance(base, Ptr):
                    raise unsupported('& of a subscript of a non-array', n)
                return self.ptr_add(base, idx, n, deref=False)
            if isinstance(inner, A.UnaryOp) and inner.op == '*':
                return self.rval(inner.expr, env)
            o = self.lval(inner, env, write=True)
            if isinstance(o, _ByteRef):
                return Ptr(o.cell, None, o.k, o.ct)
            return Ptr(o)
        if op == '*':
            p = self.rval(n.expr, env)
            return self.read(self.deref(p, n), n, p.base if isinstance(p, Ptr) else None)
        if op == 'sizeof':
            if isinstance(n.expr, A.Typename):
                return ival(ULONG, self.ctype(n.expr).size())
            return ival(ULONG, self.type_of(n.expr, env).size())
        if op in ('p++', 'p--', '++', '--'):
            o = self.lval(n.expr, env, write=True)
            old = self.read(o, n)
            if isinstance(old, Ptr):
                new = self.ptr_add(old, ival(INT, 1), n, deref=False, sign=1 if '+' in op else -1)
            else:
                new = self.arith('+' if '+' in op else '-', old, ival(INT, 1), n)
            self.write(o, new, n)
            return old if op[0] == 'p' else self.read(o, n)
        v = self.rval(n.expr, env)
        if op == '!':
            t = self.truth(v)
            if t is True or t is False:
                return ival(INT, 0 if t else 1)
            return Val(INT, None, z3.Not(t))
        if isinstance(v, Ptr) or v is None or v.ct.kind != 'int':
            raise unsupported('unary %s on a non-integer' % op, n)
        v = self.promote(v)
        if v.k is not None:
            m = (1 << v.ct.bits) - 1
            if op == '-':
                if v.ct.signed and v.k == 1 << (v.ct.bits - 1):
                    raise self.fail('signed-overflow', 'negation of the minimum value', n)
                return Val(v.ct, None, None, (-v.k) & m)
            if op == '~':
                return Val(v.ct, None, None, (~v.k) & m)
            if op == '+':
                return v
        if op == '-':
            if v.ct.signed:
                self.ub(v.e == (1 << (v.ct.bits - 1)), 'signed-overflow', 'negation of the minimum value', n)
            return Val(v.ct, -v.e)
        if op == '~':
            return Val(v.ct, ~v.e)
        if op == '+':
            return v
        raise unsupported('unary operator %s' % op, n)

    def type_of(self, n, env):
        """static type of an lvalue expression (sizeof operand)"""
        if isinstance(n, (A.ID, A.StructRef, A.ArrayRef)):
            o = self.lval(n, env)
            if isinstance(o, _ByteRef):
                return o.ct
            return o.ct
        if isinstance(n, A.UnaryOp) and n.op == '*':
            p = self.rval(n.expr, env)
            return p.base
        if isinstance(n, A.Cast):
            return self.ctype(n.to_type)
        raise unsupported('sizeof operand %s' % type(n).__name__, n)

    def arith(self, op, a, b, n):
        if a is None or b is None:
            raise unsupported('use of a void value', n)
        if isinstance(a, Ptr) or isinstance(b, Ptr):
            if op == '+' and isinstance(a, Ptr) and not isinstance(b, Ptr):
                return self.ptr_add(a, b, n)
            if op == '+' and isinstance(b, Ptr) and not isinstance(a, Ptr):
                return self.ptr_add(b, a, n)
            if op == '-' and isinstance(a, Ptr) and not isinstance(b, Ptr):
                return self.ptr_add(a, b, n, sign=-1)
            if op in ('==', '!=') and isinstance(a, Ptr) and isinstance(b, Ptr):
                same = a.obj is b.obj and a.idx == b.idx and a.boff == b.boff
                return ival(INT, int(same == (op == '==')))
            if op in ('==', '!='):
                p, o = (a, b) if isinstance(a, Ptr) else (b, a)
                if o.k == 0:
                    return ival(INT, int((p.obj is None) == (op == '==')))
            raise unsupported('pointer arithmetic %s' % op, n)
        if a.ct.kind != 'int' or b.ct.kind != 'int':
            raise unsupported('floating-point arithmetic', n)
        if op in ('<<', '>>'):
            a, b = self.promote(a), self.promote(b)
            w = a.ct.bits
            if a.k is not None and b.k is not None:
                cnt, x = b.sk(), a.sk()
                if cnt < 0 or cnt >= w:
                    raise self.fail('shift', 'shift count %d negative or >= %d' % (cnt, w), n)
                if op == '<<':
                    if a.ct.signed and (x < 0 or (x << cnt) >= 1 << (w - 1)):
                        raise self.fail('shift', 'left shift of a negative value or into the sign bit', n)
                    return Val(a.ct, None, None, (x << cnt) & ((1 << w) - 1))
                return Val(a.ct, None, None, (x >> cnt) & ((1 << w) - 1))
            if b.ct.bits < w:
                sh = z3.SignExt(w - b.ct.bits, b.e) if b.ct.signed else z3.ZeroExt(w - b.ct.bits, b.e)
                big = z3.BoolVal(False)
            elif b.ct.bits > w:
                sh = z3.Extract(w - 1, 0, b.e)
                big = z3.UGE(b.e, w)
            else:
                sh, big = b.e, z3.BoolVal(False)
            bad = z3.Or(big, z3.UGE(sh, w))     # negative counts are >= w as unsigned
            self.ub(bad, 'shift', 'shift count negative or >= %d' % w, n)
            if op == '<<':
                if a.ct.signed:
                    wide = z3.SignExt(w, a.e) << z3.ZeroExt(w, sh)
                    self.ub(z3.Or(a.e < 0, wide != z3.SignExt(w, z3.Extract(w - 1, 0, wide))),
                            'shift', 'left shift of a negative value or into the sign bit', n)
                return Val(a.ct, a.e << sh)
            return Val(a.ct, (a.e >> sh) if a.ct.signed else z3.LShR(a.e, sh))
        a, b, t = self.usual(a, b, n)
        w = t.bits
        if a.k is not None and b.k is not None:
            return self._const_arith(op, a.sk(), b.sk(), t, n)
        x, y = a.e, b.e
        if op in ('+', '-', '*'):
            r = {'+': x + y, '-': x - y, '*': x * y}[op]
            if t.signed:
                if op == '+':
                    bad = z3.Not(z3.And(z3.BVAddNoOverflow(x, y, True), z3.BVAddNoUnderflow(x, y)))
                elif op == '-':
                    bad = z3.Not(z3.And(z3.BVSubNoOverflow(x, y), z3.BVSubNoUnderflow(x, y, True)))
                else:
                    bad = z3.Not(z3.And(z3.BVMulNoOverflow(x, y, True), z3.BVMulNoUnderflow(x, y)))
                self.ub(bad, 'signed-overflow', '%s %s in %r' % ('operator', op, t), n)
            return Val(t, r)
        if op in ('/', '%'):
            self.ub(y == 0, 'division', 'division by zero', n)
            if t.signed:
                self.ub(z3.And(x == (1 << (w - 1)), y == -1), 'division', 'minimum value divided by -1', n)
                return Val(t, (x / y) if op == '/' else z3.SRem(x, y))
            return Val(t, z3.UDiv(x, y) if op == '/' else z3.URem(x, y))
        if op in ('&', '|', '^'):
            return Val(t, {'&': x & y, '|': x | y, '^': x ^ y}[op])
        if op in ('<', '<=', '>', '>=', '==', '!='):
            if op == '==':
                c = x == y
            elif op == '!=':
                c = x != y
            elif t.signed:
                c = {'<': x < y, '<=': x <= y, '>': x > y, '>=': x >= y}[op]
            else:
                c = {'<': z3.ULT(x, y), '<=': z3.ULE(x, y), '>': z3.UGT(x, y), '>=': z3.UGE(x, y)}[op]
            return Val(INT, None, c)
        raise unsupported('binary operator %s' % op, n)

    def _const_arith(self, op, x, y, t, n):
        w = t.bits
        m = (1 << w) - 1
        if op in ('+', '-', '*'):
            r = x + y if op == '+' else (x - y if op == '-' else x * y)
            if t.signed and not -(1 << (w - 1)) <= r < (1 << (w - 1)):
                raise self.fail('signed-overflow', '%d %s %d in %r' % (x, op, y, t), n)
            return Val(t, None, None, r & m)
        if op in ('/', '%'):
            if y == 0:
                raise self.fail('division', 'division by zero', n)
            if t.signed and x == -(1 << (w - 1)) and y == -1:
                raise self.fail('division', 'minimum value divided by -1', n)
            q = abs(x) // abs(y)
            if (x < 0) != (y < 0):
                q = -q
            r = q if op == '/' else x - q * y
            return Val(t, None, None, r & m)
        if op in ('&', '|', '^'):
            r = (x & y) if op == '&' else ((x | y) if op == '|' else (x ^ y))
            return Val(t, None, None, r & m)
        if op in ('<', '<=', '>', '>=', '==', '!='):
            r = {'<': x < y, '<=': x <= y, '>': x > y, '>=': x >= y, '==': x == y, '!=': x != y}[op]
            return Val(INT, None, None, int(r))
        raise unsupported('binary operator %s' % op, n)

    def pure(self, n):
        """side-effect-free expression (may be evaluated speculatively)"""
        k = id(n)
        r = self._pure.get(k)
        if r is None:
            if isinstance(n, (A.Constant, A.ID)):
                r = True
            elif isinstance(n, A.StructRef):
                r = self.pure(n.name)
            elif isinstance(n, A.ArrayRef):
                r = self.pure(n.name) and self.pure(n.subscript)
            elif isinstance(n, A.Cast):
                r = self.pure(n.expr)
            elif isinstance(n, A.UnaryOp):
                r = n.op in ('!', '-', '~', '+', '*', 'sizeof') and (n.op == 'sizeof' or self.pure(n.expr))
            elif isinstance(n, A.BinaryOp):
                r = self.pure(n.left) and self.pure(n.right)
            elif isinstance(n, A.TernaryOp):
                r = self.pure(n.cond) and self.pure(n.iftrue) and self.pure(n.iffalse)
            else:
                r = False
            self._pure[k] = r
        return r

    def speculate(self, n, env):
        """value of a pure expression evaluated without forking, or None"""
        if not self.pure(n):
            return None
        self.spec += 1
        try:
            return self.rval(n, env)
        except _Bail:
            return None
        finally:
            self.spec -= 1

    def binary(self, n, env):
        if n.op in ('&&', '||'):
            is_and = n.op == '&&'
            lt = self.truth(self.rval(n.left, env))
            if lt is True or lt is False:
                if lt != is_and:
                    return ival(INT, int(lt))
                rt = self.truth(self.rval(n.right, env))
                if rt is True or rt is False:
                    return ival(INT, int(rt))
                return Val(INT, None, rt)
            r = self.speculate(n.right, env)
            if r is not None:
                rt = self.truth(r)
                if rt is True or rt is False:
                    rt = z3.BoolVal(rt)
                return Val(INT, None, z3.And(lt, rt) if is_and else z3.Or(lt, rt))
            if self.decide(lt) != is_and:
                return ival(INT, int(not is_and))
            rt = self.truth(self.rval(n.right, env))
            if rt is True or rt is False:
                return ival(INT, int(rt))
            return Val(INT, None, rt)
        return self.arith(n.op, self.rval(n.left, env), self.rval(n.right, env), n)

    def ternary(self, n, env):
        c = self.truth(self.rval(n.cond, env))
        if c is True or c is False:
            return self.rval(n.iftrue if c else n.iffalse, env)
        a = self.speculate(n.iftrue, env)
        b = self.speculate(n.iffalse, env) if a is not None else None
        if a is not None and b is not None and isinstance(a, Val) and isinstance(b, Val) \
                and a.ct.kind == 'int' and b.ct.kind == 'int':
            a, b, t = self.usual(a, b, n)
            return Val(t, z3.If(c, a.e, b.e))
        return self.rval(n.iftrue if self.decide(c) else n.iffalse, env)

    def assign(self, n, env):
        if n.op == '=':
            v = self.rval(n.rvalue, env)
            o = self.lval(n.lvalue, env, write=True)
        else:
            o = self.lval(n.lvalue, env, write=True)
            cur = self.read(o, n)
            v = self.arith(n.op[:-1], cur, self.rval(n.rvalue, env), n)
        self.write(o, v, n)
        return self.read(o, n)

    def funccall(self, n, env):
        if not isinstance(n.name, A.ID):
            raise unsupported('indirect call', n)
        name = n.name.name
        args = [self.rval(a, env) for a in (n.args.exprs if n.args else [])]
        if name in self.functions:
            return self._call(name, args, n)
        return self.builtin(name, args, n)

    def _call(self, name, args, node=None):
        if self.spec:
            raise _Bail()
        fd = self.functions[name]
        self.calls += 1
        fenv = {}
        sig = self._sigs.get(name)
        if sig is None:
            ft = fd.decl.type
            params = ft.args.params if ft.args else []
            params = [p for p in params if not (isinstance(p, A.Typename) and self.ctype(p).kind == 'void')]
            ps = []
            for p in params:
                ct = self.ctype(p.type)
                if ct.kind == 'array':
                    ct = CT('ptr', 64, base=ct.base)
                ps.append((p.name, ct))
            sig = self._sigs[name] = (ps, self.ctype(ft.type))
        params, rt = sig
        if len(params) != len(args):
            raise unsupported('call of %s with %d arguments' % (name, len(args)), node)
        for (pname, ct), a in zip(params, args):
            c = Cell(ct, None, pname)
            self.store(c, a, node)
            fenv[pname] = c
        try:
            self.exec(fd.body, fenv)
        except _Return as r:
            if r.v is None or rt.kind == 'void':
                return None
            return self.conv(r.v, rt, node)
        if rt.kind != 'void':
            return None           # falling off a non-void function: value must not be used
        return None

    def call(self, name, args):
        """call a function of the unit with Ptr / Val arguments"""
        if name not in self.functions:
            raise unsupported('no function %s in the unit' % name)
        return self._call(name, list(args))

    # ------------------------------------------------------------------ statements
    def _declare(self, n, env, ct=None):
        ct = ct or self.ctype(n.type)
        if ct.kind == 'array' and ct.n is None:
            if not isinstance(n.init, A.InitList):
                raise unsupported('array of unknown size', n)
            ct = CT('array', base=ct.base, n=len(n.init.exprs))
        o = self.alloc(ct, n.name)
        env[n.name] = o
        if n.init is not None:
            if isinstance(n.init, A.InitList):
                if not isinstance(o, ArrayObj):
                    raise unsupported('initialiser list for %r' % (ct,), n)
                if len(n.init.exprs) > len(o.e):
                    raise unsupported('too many initialisers', n)
                for i, c in enumerate(o.e):
                    if i < len(n.init.exprs):
                        self.store(c, self.rval(n.init.exprs[i], env), n)
                    else:
                        self.store(c, ival(INT, 0), n)
            else:
                self.store(o, self.rval(n.init, env), n)
        elif env is self.globals or 'static' in (n.storage or []):
            self._zero(o)

    def zero(self, o):
        """memset(&o, 0, sizeof(o)) as done by a caller (unions stay without an active member)"""
        self._zero(o)

    def _zero(self, o):
        if isinstance(o, Cell):
            o.val = z3.BitVecVal(0, o.ct.bits) if o.ct.kind != 'ptr' else Ptr(None, base=o.ct.base)
        elif isinstance(o, StructObj):
            for f in o.f.values():
                self._zero(f)
        elif isinstance(o, ArrayObj):
            for f in o.e:
                self._zero(f)

    def exec(self, n, env):
        self.tick(n)
        if isinstance(n, A.Compound):
            for s in (n.block_items or []):
                self.exec(s, env)
        elif isinstance(n, A.Decl):
            if isinstance(n.type, A.FuncDecl):
                return
            self._declare(n, env)
        elif isinstance(n, A.DeclList):
            for d in n.decls:
                self.exec(d, env)
        elif isinstance(n, A.If):
            if self.decide(self.truth(self.rval(n.cond, env))):
                self.exec(n.iftrue, env)
            elif n.iffalse is not None:
                self.exec(n.iffalse, env)
        elif isinstance(n, A.For):
            if n.init is not None:
                if isinstance(n.init, (A.Decl, A.DeclList)):
                    self.exec(n.init, env)
                else:
                    self.rval(n.init, env)
            while n.cond is None or self.decide(self.truth(self.rval(n.cond, env))):
                try:
                    self.exec(n.stmt, env)
                except _Break:
                    break
                except _Continue:
                    pass
                if n.next is not None:
                    self.rval(n.next, env)
        elif isinstance(n, A.While):
            while self.decide(self.truth(self.rval(n.cond, env))):
                try:
                    self.exec(n.stmt, env)
                except _Break:
                    break
                except _Continue:
                    pass
        elif isinstance(n, A.DoWhile):
            while True:
                try:
                    self.exec(n.stmt, env)
                except _Break:
                    break
                except _Continue:
                    pass
                if not self.decide(self.truth(self.rval(n.cond, env))):
                    break
        elif isinstance(n, A.Switch):
            self._switch(n, env)
        elif isinstance(n, A.Return):
            raise _Return(self.rval(n.expr, env) if n.expr is not None else None)
        elif isinstance(n, A.Break):
            raise _Break()
        elif isinstance(n, A.Continue):
            raise _Continue()
        elif isinstance(n, A.EmptyStatement):
            pass
        elif isinstance(n, (A.Case, A.Default)):
            for s in n.stmts:
                self.exec(s, env)
        elif isinstance(n, (A.Goto, A.Label)):
            raise unsupported('goto/label', n)
        else:
            self.rval(n, env)

    def _switch(self, n, env):
        v = self.rval(n.cond, env)
        if isinstance(v, Ptr) or v.ct.kind != 'int':
            raise unsupported('switch on a non-integer', n)
        v = self.promote(v)
        if not isinstance(n.stmt, A.Compound):
            raise unsupported('switch without a compound body', n)
        items = n.stmt.block_items or []
        start = None
        for i, it in enumerate(items):
            if isinstance(it, A.Case):
                c = self.conv(self.rval(it.expr, env), v.ct)      # case labels convert to the promoted type
                if v.k is not None and c.k is not None:
                    if v.k == c.k:
                        start = i
                        break
                    continue
                t = z3.simplify(v.e == c.e)
                if z3.is_false(t):
                    continue
                if z3.is_true(t) or self.decide(t):
                    start = i
                    break
        if start is None:
            for i, it in enumerate(items):
                if isinstance(it, A.Default):
                    start = i
        if start is None:
            return
        try:
            for it in items[start:]:
                self.exec(it, env)
        except _Break:
            pass


class _ByteRef:
    """lvalue designating one byte of a scalar cell"""
    __slots__ = ('cell', 'k', 'ct')

    def __init__(self, cell, k, ct):
        self.cell, self.k, self.ct = cell, k, ct


class _OnePast:
    """target of a pointer one past a single (non-array) object"""
    __slots__ = ('obj', 'ct', 'e', 'limit', 'name')

    def __init__(self, obj):
        self.obj, self.ct, self.e, self.limit, self.name = obj, obj.ct, [], None, getattr(obj, 'name', None)


class _Named:
    __slots__ = ('name', 'limit')

    def __init__(self, name):
        self.name, self.limit = name, None


def _parse_int(s):
    """C99 6.4.4.1: value and type of an integer literal under LP64"""
    t = s.lower()
    suffix = ''
    while t and t[-1] in 'ul':
        suffix = t[-1] + suffix
        t = t[:-1]
    if t.startswith('0x'):
        v, dec = int(t, 16), False
    elif t.startswith('0') and len(t) > 1:
        v, dec = int(t, 8), False
    else:
        v, dec = int(t, 10), True
    uns = 'u' in suffix
    lng = 'l' in suffix
    if uns:
        cands = [U64] if lng else [U32, U64]
    elif lng:
        cands = [I64] if dec else [I64, U64]
    else:
        cands = [I32, I64] if dec else [I32, U32, I64, U64]
    for c in cands:
        lim = (1 << (c.bits - 1)) if c.signed else (1 << c.bits)
        if v < lim:
            return v, c
    raise unsupported('integer literal %s does not fit 64 bits' % s)
