"""Common driver for all checks: job distribution over worker processes, per-path
context (variables, proofs, known-finding regions), replay, evidence, exit codes.

Exit codes: 0 held (possibly KNOWN-FINDING lines); 1 VIOLATION (replayed on the
real library first); 2 inconclusive / harness error (never hides a violation).
"""
import argparse
import re
import importlib
import json
import multiprocessing as mp
import os
import sys
import time
import traceback

import z3

import symcore
from symcore import Engine, Inconclusive, HarnessError
import pyfront
from pyfront import SymInt, SymBool, SymBytes, to_z3bool

VERIF = os.path.dirname(os.path.dirname(os.path.abspath(__file__)))
KF_FILE = os.path.join(VERIF, 'known_findings.json')


def load_known_findings(prop):
    try:
        with open(KF_FILE) as f:
            data = json.load(f)
    except FileNotFoundError:
        return []
    return [e for e in data.get('findings', []) if e.get('property') == prop]


class Region:
    """Evaluates a known-finding region expression over the harness variables."""

    @staticmethod
    def env(ctx):
        env = {}
        for name, v in ctx.eng.vars.items():
            n = v.size()
            if name in ctx.signed:
                env[name] = SymInt(v, -(1 << (n - 1)), (1 << (n - 1)) - 1)
            else:
                env[name] = SymInt(z3.ZeroExt(1, v), 0, (1 << n) - 1)
        env.update(ctx.shape)

        def And(*a):
            return SymBool(z3.And([to_z3bool(x) for x in a]))

        def Or(*a):
            return SymBool(z3.Or([to_z3bool(x) for x in a]))

        def Not(a):
            return SymBool(z3.Not(to_z3bool(a)))
        env.update(And=And, Or=Or, Not=Not, true=True, false=False, V=lambda n: env[n])
        return env

    @staticmethod
    def evaluate(expr, ctx):
        if not expr:
            return z3.BoolVal(True)
        old = Engine.cur
        Engine.cur = ctx.eng
        try:
            r = eval(expr, {'__builtins__': {}}, Region.env(ctx))
        except NameError:
            return z3.BoolVal(False)      # region talks about variables this path does not have
        finally:
            Engine.cur = old
        return to_z3bool(r)


class Ctx:
    """Per-path harness context."""

    def __init__(self, eng, res, job, kf):
        self.eng = eng
        self.res = res
        self.job = job
        self.kf = kf
        self.shape = {}        # concrete shape facts of this path (name -> python value)
        self.signed = set()    # names of signed integer variables
        self.describe = None   # callable(model) -> json-able description of the inputs

    # -- inputs ---------------------------------------------------------------
    def int(self, name, lo, hi):
        if lo == hi:
            return lo
        v = self.eng.named(name, pyfront.need(lo, hi))
        self.signed.add(name)
        self.eng.assume(z3.And(v >= lo, v <= hi))
        return SymInt(v, lo, hi)

    def bv(self, name, bits):
        return self.eng.named(name, bits)

    def byte(self, name):
        return self.eng.named(name, 8)

    def bytes(self, name, n):
        return SymBytes([self.eng.named('%s[%d]' % (name, i), 8) for i in range(n)])

    def choose(self, name, n):
        """concrete value in range(n), explored by forking"""
        if n <= 1:
            self.shape[name] = 0
            return 0
        bits = max(1, (n - 1).bit_length())
        v = self.eng.named(name, bits)
        self.eng.assume(z3.ULT(v, n) if n < (1 << bits) else z3.BoolVal(True))
        k = self.eng.concretize(v, signed=False)
        self.shape[name] = k
        return k

    def flag(self, name):
        return bool(self.choose(name, 2))

    def assume(self, cond):
        self.eng.assume(to_z3bool(cond))
        self.res.notes['assume'] = self.res.notes.get('assume', 0)

    # -- outcomes -------------------------------------------------------------
    def note(self, key, n=1):
        self.res.notes[key] = self.res.notes.get(key, 0) + n

    def witness(self, model):
        w = {}
        for name, v in self.eng.vars.items():
            val = model.eval(v, model_completion=True)
            w[name] = val.as_signed_long() if name in self.signed else val.as_long()
        out = {'vars': w, 'shape': {k: v for k, v in self.shape.items()
                                    if isinstance(v, (int, str, bool, type(None)))}}
        if self.describe is not None:
            with pyfront.unshimmed():
                try:
                    out['inputs'] = self.describe(model)
                except Exception as e:       # description is best effort
                    out['inputs'] = 'describe failed: %r' % (e,)
        return out

    def _regions(self, label, info=None):
        out = []
        for e in self.kf:
            w = e.get('where', {})
            ok = True
            for k, v in w.items():
                if k == 'info_re':
                    ok = info is not None and re.search(v, str(info)) is not None
                    if not ok:
                        break
                    continue
                have = label if k == 'label' else self.job.get(k, self.shape.get(k))
                if isinstance(v, list):
                    ok = have in v
                else:
                    ok = have == v
                if not ok:
                    break
            if ok:
                out.append((e, Region.evaluate(e.get('region'), self)))
        return out

    def prove(self, label, cond, info=None):
        """property assertion: pc => cond.  Returns True when proved on this path."""
        c = to_z3bool(cond)
        neg = z3.Not(c)
        m = self.eng.check_model(neg)
        if m is None:
            self.res.proved += 1
            self._second_solver(neg)
            return True
        return self._fail(label, neg, m, info)

    def _second_solver(self, neg):
        """two-solver diff: a sample of the 'unsat' verdicts of z3 is re-decided by the cvc5 binary on
        the exported SMT-LIB2 text (path condition + negated assertion).  cvc5 'sat' = the two solvers
        disagree -> harness error; timeout/unknown/error lines are counted as not cross-checked."""
        quota = _XCHECK.get('quota', 0)
        key = self.job.get('id')
        if not quota or _XCHECK['done'].get(key, 0) >= quota or not _XCHECK.get('bin'):
            return
        _XCHECK['done'][key] = _XCHECK['done'].get(key, 0) + 1
        import subprocess
        import tempfile
        s2 = z3.Solver()
        s2.add(self.eng.solver.assertions())
        s2.add(neg)
        text = '(set-logic QF_BV)\n' + s2.to_smt2()
        with tempfile.NamedTemporaryFile('w', suffix='.smt2', dir='/var/tmp', delete=False) as f:
            f.write(text)
            path = f.name
        try:
            p = subprocess.run([_XCHECK['bin'], '--tlimit=20000', path], capture_output=True, text=True, timeout=40)
            out = (p.stdout or '').strip().splitlines()
            first = out[0].strip() if out else ''
            if '(error' in (p.stdout or '') or '(error' in (p.stderr or ''):
                first = 'error'
        except Exception:
            first = 'timeout'
        finally:
            try:
                os.unlink(path)
            except OSError:
                pass
        if first == 'sat':
            raise HarnessError('solver disagreement: z3 unsat, cvc5 sat on an exported query of job %s' % key)
        self.note('second-solver:' + (first if first in ('unsat',) else 'not-decided(%s)' % (first or 'empty')))

    def violation(self, label, info=None, model=None, candidate=False):
        """the path itself is a violation (e.g. foreign exception)"""
        m = model or self.eng.get_model()
        n = len(self.res.violations)
        r = self._fail(label, z3.BoolVal(True), m, info)
        if candidate:
            for v in self.res.violations[n:]:
                v['candidate'] = True
        return r

    def _fail(self, label, neg, m, info):
        regions = self._regions(label, info)
        if regions:
            outside = z3.And(neg, z3.Not(z3.Or([r for _, r in regions])))
            m2 = self.eng.check_model(outside)
            if m2 is None:
                for e, r in regions:
                    if self.eng.check_model(z3.And(neg, r)) is not None:
                        self.res.known.append(e['id'])
                return False
            m = m2
        self.res.violations.append({'label': label, 'job': self.job, 'info': info,
                                    'witness': self.witness(m),
                                    'decisions': list(self.eng.decisions)})
        return False

    def on_timeout(self, seconds):
        """the analysed code did not return: candidate for a CPU-limited concrete replay"""
        if self.describe is None:
            return False
        pyfront.uninstall()
        m = self.eng.get_model()
        self.violation('path-timeout', 'no result within %s s wall on the symbolic path' % seconds,
                       model=m, candidate=True)
        return True

    def sample(self, obj):
        if len(self.res.samples) < 1:
            self.res.samples.append(obj)


# ---------------------------------------------------------------------------
# worker side
# ---------------------------------------------------------------------------
_STATE = {}
_TIMEOUT_SERVER = []
_XCHECK = {'quota': 0, 'done': {}, 'bin': None}


def _worker_init(modname, kf, seed, xquota=0):
    import shutil
    _XCHECK['quota'] = xquota
    _XCHECK['bin'] = shutil.which('cvc5')
    _STATE['mod'] = importlib.import_module(modname)
    _STATE['kf'] = kf
    _STATE['seed'] = seed
    _STATE['harness'] = {}
    sys.setrecursionlimit(10000)


def _get_harness(job):
    key = job['id']
    h = _STATE['harness'].get(key)
    if h is None:
        h = _STATE['mod'].make_harness(job)
        _STATE['harness'] = {key: h}      # keep only the latest (memory)
    return h


def _worker_task(task):
    job, prefixes, slice_s = task
    t0 = time.time()
    out = dict(job=job['id'], paths=0, checks=0, solver_time=0.0, proved=0, violations=[],
               known=[], notes={}, inconclusive=[], leftover=[], samples=[], xval=0,
               error=None, wall=0.0)
    try:
        h = _get_harness(job)
        W = job.get('W', 192)
        kf = _STATE['kf']

        def ctx_factory(eng, res):
            return Ctx(eng, res, job, kf)
        deadline = t0 + slice_s
        results, leftover = symcore.explore(h, W=W, prefixes=prefixes, deadline=deadline,
                                            seed=_STATE['seed'], ctx_factory=ctx_factory,
                                            timeout_ms=job.get('timeout_ms', 30000),
                                            path_timeout_s=job.get('path_timeout_s', int(os.environ.get('VERIF_PATH_TIMEOUT', '300'))))
        for r in results:
            out['paths'] += 1
            out['checks'] += r.nchecks
            out['solver_time'] += r.solver_time
            out['proved'] += r.proved
            out['xval'] += r.xval
            if len(out['violations']) < 5:
                out['violations'].extend(r.violations[:5])
            out['known'].extend(r.known)
            for k, v in r.notes.items():
                out['notes'][k] = out['notes'].get(k, 0) + v
            if r.inconclusive:
                if len(out['inconclusive']) < 5:
                    out['inconclusive'].append(r.inconclusive)
                out['notes']['inconclusive'] = out['notes'].get('inconclusive', 0) + 1
            if r.samples and len(out['samples']) < 2:
                out['samples'].extend(r.samples)
        out['leftover'] = leftover
    except HarnessError as e:
        out['error'] = 'HarnessError: %s' % e
    except BaseException as e:
        out['error'] = ''.join(traceback.format_exception(type(e), e, e.__traceback__))[-3000:]
    finally:
        pyfront.uninstall()
        Engine.cur = None
    out['known'] = sorted(set(out['known']))
    out['wall'] = time.time() - t0
    return out


# ---------------------------------------------------------------------------
# master side
# ---------------------------------------------------------------------------
def run_check(prop, modname, jobs, tier, seed, level='model_checking', functions=(),
              bounds=None, assumptions=(), stubs=(), replay=None, max_seconds=None,
              extra_coverage=None, nproc=None, slice_s=8.0, outside=()):
    """Run all jobs to completion over a process pool and write evidence.
    Returns the process exit code."""
    t0 = time.time()
    kf = load_known_findings(prop)
    nproc = nproc or min(16, os.cpu_count() or 1)
    ctxmp = mp.get_context('fork')
    agg = dict(paths=0, checks=0, solver_time=0.0, proved=0, xval=0, notes={}, known=set(),
               violations=[], inconclusive=[], errors=[], samples=[], per_job={})
    pending = []
    incomplete = False
    # thorough tier: a wall budget.  What was explored when it runs out is reported as explored (every
    # finished path carries its own proof); unfinished jobs are listed and are not part of the claim.
    budget_s = None
    if tier == 'thorough':
        budget_s = float(os.environ.get('VERIF_THOROUGH_BUDGET', '2400'))
    budget_cut = False
    finished_jobs = set()
    # second solver (cvc5 binary): re-decides the first proof(s) of a deterministic sample of jobs
    xquota = int(os.environ.get('VERIF_SECOND_SOLVER', '2' if tier == 'thorough' else '1'))
    with ctxmp.Pool(nproc, initializer=_worker_init, initargs=(modname, kf, seed, xquota)) as pool:
        outstanding = {}

        def submit(job, prefixes):
            outstanding[job['id']] = outstanding.get(job['id'], 0) + 1
            pending.append(pool.apply_async(_worker_task, ((job, prefixes, slice_s),)))
        jobmap = {}
        nviol = {}
        # kernels first, the bulk of the generated family last (matters when the thorough budget cuts)
        def rank(j):
            i = j['id']
            return 0 if i.startswith(('kernel', 'oer/kernel', 'uper/kernel')) else (2 if i.startswith('g/') or '/g/' in i else 1)
        for job in sorted(jobs, key=rank):
            jobmap[job['id']] = job
            submit(job, [[]])
        while pending:
            done = [p for p in pending if p.ready()]
            if not done:
                time.sleep(0.02)
                if max_seconds and time.time() - t0 > max_seconds:
                    incomplete = True
                    pool.terminate()
                    break
                continue
            if budget_s and time.time() - t0 > budget_s:
                budget_cut = True
                pool.terminate()
                break
            for p in done:
                pending.remove(p)
                r = p.get()
                pj = agg['per_job'].setdefault(r['job'], dict(paths=0, checks=0, proved=0, wall=0.0))
                pj['paths'] += r['paths']
                pj['checks'] += r['checks']
                pj['proved'] += r['proved']
                pj['wall'] += r['wall']
                agg['paths'] += r['paths']
                agg['checks'] += r['checks']
                agg['solver_time'] += r['solver_time']
                agg['proved'] += r['proved']
                agg['xval'] += r['xval']
                for k, v in r['notes'].items():
                    agg['notes'][k] = agg['notes'].get(k, 0) + v
                agg['known'].update(r['known'])
                agg['violations'].extend(r['violations'])
                for s in r['inconclusive']:
                    agg['inconclusive'].append('%s: %s' % (r['job'], s))
                if r['error']:
                    agg['errors'].append('%s: %s' % (r['job'], r['error']))
                for s in r['samples']:
                    if len(agg['samples']) < 8:
                        agg['samples'].append(s)
                left = r['leftover']
                if os.environ.get('VERIF_PROGRESS'):
                    sys.stderr.write('[%6.1fs] %-28s paths=%-5d left=%-4d pending=%d %s\n' % (
                        time.time() - t0, r['job'], pj['paths'], len(left), len(pending),
                        (r['inconclusive'] or [''])[0][:60]))
                nviol[r['job']] = nviol.get(r['job'], 0) + len([x for x in r['violations'] if not x.get('candidate')])
                if left and nviol[r['job']] >= 3:
                    agg['notes']['job-stopped-after-violations'] = \
                        agg['notes'].get('job-stopped-after-violations', 0) + 1
                    left = []
                outstanding[r['job']] -= 1
                if left:
                    job = jobmap[r['job']]
                    # keep tasks large (a task restarts its solver): split only for idle workers
                    idle = max(0, nproc - len(pending))
                    nchunks = max(1, min(len(left), 1 + idle))
                    for i in range(nchunks):
                        submit(job, left[i::nchunks])
    finished_jobs = {j for j, n in outstanding.items() if n == 0}
    wall = time.time() - t0

    # ---- verdict -------------------------------------------------------------
    code = 0
    lines = []
    kf_by_id = {e['id']: e for e in kf}
    for k in sorted(agg['known']):
        lines.append('KNOWN-FINDING: property=%s %s [%s]' % (prop, kf_by_id[k]['what'], k))
    confirmed = []
    unconfirmed = []
    dismissed = []
    if agg['violations'] and replay is not None:
        seen = set()
        for v in agg['violations']:
            key = (v['job']['id'], v['label'])
            if key in seen:
                continue
            seen.add(key)
            if v['label'] == 'path-timeout':
                # did the REAL code fail to terminate?  the check's own replay, CPU-limited, in a
                # forked child of a pristine interpreter
                from lib.common import PristineServer
                if not _TIMEOUT_SERVER:
                    _TIMEOUT_SERVER.append(PristineServer())
                r = _TIMEOUT_SERVER[0].call(modname, 'replay', json.loads(json.dumps(v, default=str)),
                                            cpu_s=60, mem_mb=4096, wall_s=1800)
                if r['status'] == 'cpu':
                    # must be repeatable (a forked child can also be lost to the machine)
                    r = _TIMEOUT_SERVER[0].call(modname, 'replay', json.loads(json.dumps(v, default=str)),
                                                cpu_s=60, mem_mb=4096, wall_s=1800)
                if r['status'] == 'cpu':
                    v['replay_detail'] = 'the public API call on %s did not finish within 60 s CPU' % (
                        json.dumps(v['witness'].get('inputs'), default=str)[:300],)
                    confirmed.append(v)
                elif r['status'] == 'ok' and r['result'] and r['result'][0]:
                    v['replay_detail'] = r['result'][1]
                    confirmed.append(v)
                else:
                    agg['inconclusive'].append('%s: symbolic path exceeded its wall budget, concrete replay: %s'
                                               % (v['job']['id'], str(r)[:200]))
                continue
            try:
                ok, detail = replay(v)
            except HarnessError as e:
                # the replay itself could not be carried out (no verdict either way)
                agg['errors'].append('replay of %s/%s: %s' % (v['job']['id'], v['label'], e))
                continue
            except Exception as e:
                ok, detail = False, 'replay raised %r' % (e,)
            v['replay_detail'] = detail
            if ok:
                confirmed.append(v)
            elif v.get('candidate'):
                dismissed.append(v)     # solver-found candidate that needs a resource measurement
            else:
                unconfirmed.append(v)
    elif agg['violations']:
        unconfirmed = agg['violations']
    os.makedirs(os.path.join(VERIF, 'replays'), exist_ok=True)
    for i, v in enumerate(confirmed[:10]):
        path = os.path.join(VERIF, 'replays', '%s-%s-%d.json' % (prop, tier, i))
        with open(path, 'w') as f:
            json.dump(v, f, indent=1, default=str)
        lines.append('VIOLATION property=%s replay=%s' % (prop, path))
        lines.append('  label=%s job=%s detail=%s' % (v['label'], v['job']['id'], v.get('replay_detail')))
        code = 1
    if unconfirmed:
        for v in unconfirmed[:5]:
            lines.append('HARNESS-ERROR: counterexample did not reproduce on the real library: '
                         'job=%s label=%s witness=%s detail=%s'
                         % (v['job']['id'], v['label'], json.dumps(v['witness'], default=str)[:600],
                            v.get('replay_detail')))
        code = code or 2
    if agg['errors']:
        for e in agg['errors'][:5]:
            lines.append('HARNESS-ERROR: %s' % e)
        code = code or 2
    if agg['inconclusive']:
        for e in sorted(set(agg['inconclusive']))[:8]:
            lines.append('INCONCLUSIVE: %s' % e)
        code = code or 2
    if incomplete:
        lines.append('INCONCLUSIVE: exploration not finished within %ss' % max_seconds)
        code = code or 2
    if budget_cut:
        lines.append('BUDGET: %d of %d jobs explored completely within the %d s budget of the thorough tier '
                     '(VERIF_THOROUGH_BUDGET); every path reported was decided, the unfinished jobs are listed in the '
                     'evidence and are not part of this run\'s claim' % (len(finished_jobs), len(jobs), budget_s))
    for l in lines:
        print(l)

    cov = {
        'states': max(agg['paths'], 0),
        'transitions': max(agg['checks'], 0),
        'traces_validated_against_impl': agg['xval'],
        'samples': agg['samples'] or ['(no path sample recorded)'],
        'exhaustive': (code in (0, 1)) and not incomplete and not budget_cut and not agg['inconclusive'],
        'jobs_finished': len(finished_jobs),
        'jobs_not_finished_within_budget': sorted(j for j in jobmap if j not in finished_jobs)[:400] if budget_cut else [],
        'explanation': 'states = symbolic paths of the real code fully enumerated (fork on every '
                       'feasible branch, z3 decides feasibility); transitions = z3 queries discharged; '
                       'traces_validated = paths whose solver model was re-run concretely on the '
                       'unshimmed library and compared with the symbolic result',
        'jobs': len(jobs),
        'assertions_proved_unsat': agg['proved'],
        'solver_time_s': round(agg['solver_time'], 2),
        'solver': 'z3 %s (QF_BV) decides every query; the cvc5 binary re-decides a sample of the unsat verdicts '
                  '(exported SMT-LIB2: path condition + negated assertion)' % z3.get_version_string(),
        'second_solver': {k.split(':', 1)[1]: v for k, v in agg['notes'].items() if k.startswith('second-solver:')},
        'functions_encoded': list(functions),
        'bounds': bounds or {},
        'outside_claim': list(outside),
        'stubs_and_shims': list(stubs),
        'outcomes': agg['notes'],
        'inconclusive_paths': len(agg['inconclusive']),
        'known_findings_hit': sorted(agg['known']),
        'candidates_dismissed_by_replay': len(dismissed),
        'per_job': {k: {kk: (round(vv, 2) if isinstance(vv, float) else vv) for kk, vv in v.items()}
                    for k, v in sorted(agg['per_job'].items())},
    }
    if level == 'translation_validation':
        cov['programs'] = len(jobs)
        cov['disagreements_checked'] = agg['proved']
    if extra_coverage:
        cov.update(extra_coverage)
    ev = {
        'property_id': prop,
        'tier': tier,
        'seed': seed,
        'level': level,
        'coverage': cov,
        'assumptions': list(assumptions),
        'wall_s': round(wall, 2),
        'violations': len(confirmed),
    }
    evdir = os.environ.get('VERIF_EVIDENCE_DIR') or os.path.join(VERIF, 'evidence')
    os.makedirs(evdir, exist_ok=True)
    with open(os.path.join(evdir, '%s.json' % prop), 'w') as f:
        json.dump(ev, f, indent=1, default=str)
    print('%s %s: paths=%d queries=%d proved=%d xval=%d known=%d violations=%d inconclusive=%d '
          'wall=%.1fs exit=%d' % (prop, tier, agg['paths'], agg['checks'], agg['proved'], agg['xval'],
                                   len(agg['known']), len(confirmed), len(agg['inconclusive']), wall, code))
    return code


def cli_replay(prop, modname, replay, path):
    """`./check Cxx --replay file`: a witness of a path that did not return is replayed under a CPU
    limit in a forked pristine child (it may not terminate); everything else directly"""
    v = json.load(open(path))
    if v.get('label') == 'path-timeout':
        from lib.common import PristineServer
        srv = PristineServer()
        try:
            r = srv.call(modname, 'replay', json.loads(json.dumps(v, default=str)), cpu_s=60, mem_mb=4096, wall_s=1800)
        finally:
            srv.close()
        if r['status'] == 'cpu':
            ok, detail = True, 'the public API call on %s did not finish within 60 s CPU' % (
                json.dumps(v['witness'].get('inputs'), default=str)[:300],)
        elif r['status'] == 'ok' and r['result']:
            ok, detail = bool(r['result'][0]), str(r['result'][1])
        else:
            print('replay could not be carried out: %s' % (str(r)[:300],))
            return 2
    else:
        ok, detail = replay(v)
    print(('VIOLATION property=%s replay=%s\n  ' % (prop, path) if ok else 'not reproduced: ') + detail)
    return 1 if ok else 0


def std_args(argv=None):
    ap = argparse.ArgumentParser()
    ap.add_argument('--tier', default=os.environ.get('VERIF_TIER', 'quick'),
                    choices=['quick', 'thorough'])
    ap.add_argument('--replay')
    ap.add_argument('--only', help='substring filter on job ids')
    ap.add_argument('--nproc', type=int)
    a = ap.parse_args(argv)
    a.seed = int(os.environ.get('VERIF_SEED', '0') or 0)
    return a
