"""Concrete replay of a decode in a pristine interpreter (used through lib.common.PristineServer).
Deliberately light: no z3, no proxies -- the fork server that imports this module forks one child
per replay, and a process that has never started solver threads forks safely."""
import sys
import types

def fingerprint(root, limit=200000):
    """structural fingerprint of the compiled type graph (ids replaced by visit order)"""
    import types
    seen = {}
    out = []
    stack = [root]
    n = 0
    while stack:
        o = stack.pop()
        n += 1
        if n > limit:
            break
        if isinstance(o, (str, bytes, int, float, bool, type(None))):
            out.append(repr(o))
            continue
        if isinstance(o, bytearray):
            out.append('ba' + bytes(o).hex())
            continue
        if id(o) in seen:
            out.append('@%d' % seen[id(o)])
            continue
        seen[id(o)] = len(seen)
        if isinstance(o, dict):
            out.append('{%d' % len(o))
            for k in sorted(o, key=repr):
                stack.append(o[k])
                out.append(repr(k) if isinstance(k, (str, bytes, int, type(None))) else type(k).__name__)
        elif isinstance(o, (list, tuple)):
            out.append('[%d' % len(o))
            stack.extend(reversed(o))
        elif isinstance(o, (set, frozenset)):
            out.append('s%d' % len(o))
        elif isinstance(o, (types.FunctionType, types.MethodType, type, types.ModuleType)):
            out.append('f')
        else:
            out.append(type(o).__name__)
            d = getattr(o, '__dict__', None)
            if d is not None:
                stack.append(d)
    return hash(tuple(out))



def _replay_decode(arg):
    """runs inside a fresh interpreter with the unmodified library"""
    import sys
    import asn1tools
    import corpus
    tpl = corpus.BY_ID[arg['template']]
    spec = asn1tools.compile_string(tpl['text'], arg['codec'])
    data = bytes.fromhex(arg['data'])
    lines = [0]

    def tr(frame, event, a):
        import os
        if not frame.f_code.co_filename.startswith(os.path.join(os.environ.get('VERIF_REPO', '/repo'), 'asn1tools')):
            return None

        def local(frame, event, a):
            if event == 'line':
                lines[0] += 1
            return local
        return local
    sentinel_before = None
    outcome = None
    fp_before = fingerprint(spec)
    sys.settrace(tr)
    try:
        try:
            spec.decode(tpl['type'], data)
            outcome = 'value'
        except asn1tools.DecodeError:
            outcome = 'DecodeError'
        except MemoryError:
            outcome = 'MemoryError'
        except Exception as e:
            outcome = 'other:' + type(e).__name__
    finally:
        sys.settrace(None)
    return {'outcome': outcome, 'lines': lines[0], 'state_changed': fingerprint(spec) != fp_before}


