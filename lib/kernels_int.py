"""Kernel harnesses with SYMBOLIC constraint bounds: the compile-time decisions of the codecs
(field width, signedness, fixed/variable form) run on solver variables, so every range -- not
the handful written in templates -- is covered: INTEGER (lo..hi) for all lo <= hi in a stated
interval, any value inside.  The real Integer type object is built directly (drive the unit),
its set_restricted_to_range / encode / decode run under the shims, and the result is compared
with the X.696 / X.691 model given the same bounds."""
import z3

from lib.bits import BitBuf
from models import x696, x691
from pyfront import SymBytes, SymInt, to_z3bool
from symcore import Inconclusive


def _triple(ctx, span, width=None):
    lo = ctx.int('lo', -span, span)
    hi = ctx.int('hi', -span, span)
    ctx.assume(lo <= hi)
    if width is not None:
        ctx.assume(hi - lo <= width)
    v = ctx.int('v', -span, span)
    ctx.assume(lo <= v)
    ctx.assume(v <= hi)
    return lo, hi, v


def oer_int_range(ctx, oer):
    """returns (encoded, model, decoded, value)"""
    span = (1 << 65) if ctx.job.get('tier') == 'thorough' else (1 << 33)
    lo, hi, v = _triple(ctx, span)
    t = oer.Integer('x')
    t.set_restricted_to_range(lo, hi, False)
    enc = oer.Encoder()
    t.encode(v, enc)
    out = enc.as_bytearray()
    mdl = x696.Model.__new__(x696.Model)
    mdl.int_bounds = lambda ch: (lo, hi)
    buf = BitBuf()
    mdl.integer(buf, None, v)
    ref = buf.symbytes()
    dec = t.decode(oer.Decoder(ref))
    return out, ref, dec, v


def per_int_range(ctx, mod, aligned):
    span = 1 << 40
    width = (1 << 33) if ctx.job.get('tier') == 'thorough' else (1 << 17)
    lo, hi, v = _triple(ctx, span, width)
    t = mod.Integer('x')
    t.set_restricted_to_range(lo, hi, False)
    enc = mod.Encoder()
    t.encode(v, enc)
    out = enc.as_bytearray()
    per = x691._Per.__new__(x691._Per)
    per.aligned = aligned
    buf = BitBuf()
    per.constrained(buf, v, lo, hi)
    ref = buf.symbytes()
    dec = t.decode(mod.Decoder(ref)) if len(ref) else t.decode(mod.Decoder(b'\x00'))
    return out, ref, dec, v
