"""Pieces shared by the codec checks."""
import json
import os
import subprocess
import sys

from lib import codec as C
from lib.codec import asn1tools
from lib.symvalue import Gen, Equiv, Bounds, concretize, jsonable, unjson
import corpus
import pyfront


def bounds_for(tier, tpl=None, **over):
    if tier == 'quick':
        b = Bounds(int_abs=1 << 17, n_len=2, depth=4, str_len=2, oid_arcs=3)
        for k, v in ((tpl or {}).get('quick') or {}).items():
            setattr(b, k, v)
    else:
        b = Bounds(int_abs=1 << 40, n_len=3, depth=5, str_len=3, oid_arcs=4)
    for k, v in over.items():
        setattr(b, k, v)
    return b


class Compiled:
    """template compiled for one codec + the independent view of its parsed dictionary"""

    def __init__(self, job, bounds=None, text=None, tpl=None):
        self.job = job
        self.tpl = tpl or corpus.BY_ID[job['template']]
        self.codec = job['codec']
        self.numeric_enums = job.get('numeric_enums', False)
        text = text or self.tpl['text']
        self.parsed = asn1tools.parse_string(text)
        self.spec = asn1tools.compile_string(text, self.codec, numeric_enums=self.numeric_enums)
        self.name = self.tpl['type']
        self.module = self.tpl['module']
        self.ct = self.spec.types[self.name]
        self.bounds = bounds or bounds_for(job.get('tier', 'quick'), self.tpl)
        self.gen = Gen(self.parsed, self.bounds, self.numeric_enums, tie=self.tpl.get('tie'))
        self.td = self.parsed[self.module]['types'][self.name]
        pyfront.patch_lookup_dicts(self.spec)
        self.cands = C.Candidates(self.spec)

    def value(self, ctx, path='v'):
        v = self.gen.value(ctx, self.td, self.module, path)
        return v

    def accepted(self, v):
        """the library's own validity predicate (real check_types / check_constraints)"""
        try:
            self.ct.check_types(v)
            self.ct.check_constraints(v)
        except C.LIB_ERRORS:
            return False
        return True


PRISTINE_RUNNER = r'''
import sys, json, resource, time
import os
sys.path.insert(0, os.environ.get('VERIF_REPO', '/repo'))
sys.path.insert(0, %(verif)r)
req = json.load(sys.stdin)
if req.get('cpu_s'):
    resource.setrlimit(resource.RLIMIT_CPU, (req['cpu_s'], req['cpu_s'] + 1))
if req.get('mem_mb'):
    resource.setrlimit(resource.RLIMIT_AS, (req['mem_mb'] << 20, req['mem_mb'] << 20))
import importlib
mod = importlib.import_module(req['module'])
out = getattr(mod, req['func'])(req['arg'])
print('\n@@RESULT@@' + json.dumps(out, default=str))
'''


def run_pristine(module, func, arg, timeout=20, cpu_s=None, mem_mb=None):
    """call module.func(arg) in a fresh interpreter with the unmodified library
    (no import hook, no shims).  Returns dict(status=ok|timeout|crash, result=...)."""
    verif = os.path.dirname(os.path.dirname(os.path.abspath(__file__)))
    env = dict(os.environ, VERIF_PRISTINE='1')
    req = dict(module=module, func=func, arg=arg, cpu_s=cpu_s, mem_mb=mem_mb)
    try:
        p = subprocess.run([sys.executable, '-c', PRISTINE_RUNNER % dict(verif=verif)],
                           input=json.dumps(req, default=str), capture_output=True, text=True,
                           timeout=timeout, env=env)
    except subprocess.TimeoutExpired:
        return dict(status='timeout', result=None)
    if '@@RESULT@@' in p.stdout:
        return dict(status='ok', result=json.loads(p.stdout.split('@@RESULT@@')[-1]))
    return dict(status='crash', result=(p.stderr or '')[-600:], returncode=p.returncode)
