"""Pieces shared by the codec checks."""
import json
import os
import subprocess
import sys

from lib import codec as C
from lib.codec import asn1tools
from lib.symvalue import Gen, Equiv, Bounds, concretize, jsonable, unjson
import corpus
import pyfront


def bounds_for(tier, tpl=None, **over):
    if tier == 'quick':
        b = Bounds(int_abs=1 << 17, n_len=2, depth=4, str_len=2, oid_arcs=3)
        for k, v in ((tpl or {}).get('quick') or {}).items():
            setattr(b, k, v)
    else:
        b = Bounds(int_abs=1 << 40, n_len=3, depth=5, str_len=3, oid_arcs=4)
    for k, v in over.items():
        setattr(b, k, v)
    return b


class Compiled:
    """template compiled for one codec + the independent view of its parsed dictionary"""

    def __init__(self, job, bounds=None, text=None, tpl=None):
        self.job = job
        self.tpl = tpl or corpus.BY_ID[job['template']]
        self.codec = job['codec']
        self.numeric_enums = job.get('numeric_enums', False)
        text = text or self.tpl['text']
        self.parsed = asn1tools.parse_string(text)
        self.spec = asn1tools.compile_string(text, self.codec, numeric_enums=self.numeric_enums)
        self.name = self.tpl['type']
        self.module = self.tpl['module']
        self.ct = self.spec.types[self.name]
        self.bounds = bounds or bounds_for(job.get('tier', 'quick'), self.tpl)
        self.gen = Gen(self.parsed, self.bounds, self.numeric_enums, tie=self.tpl.get('tie'))
        self.td = self.parsed[self.module]['types'][self.name]
        pyfront.patch_lookup_dicts(self.spec)
        self.cands = C.Candidates(self.spec)

    def value(self, ctx, path='v'):
        v = self.gen.value(ctx, self.td, self.module, path)
        return v

    def accepted(self, v):
        """the library's own validity predicate (real check_types / check_constraints)"""
        try:
            self.ct.check_types(v)
            self.ct.check_constraints(v)
        except C.LIB_ERRORS:
            return False
        return True


PRISTINE_RUNNER = r'''
import sys, json, resource, time
import os
sys.path.insert(0, os.environ.get('VERIF_REPO', '/repo'))
sys.path.insert(0, %(verif)r)
req = json.load(sys.stdin)
import importlib
mod = importlib.import_module(req['module'])
# the limits apply to the call only: interpreter start-up and imports (seconds on a loaded
# machine) are not part of what is measured
if req.get('cpu_s'):
    used = int(time.process_time()) + 1
    resource.setrlimit(resource.RLIMIT_CPU, (used + req['cpu_s'], used + req['cpu_s'] + 1))
if req.get('mem_mb'):
    import gc
    gc.collect()
    cur = 0
    for line in open('/proc/self/status'):
        if line.startswith('VmSize:'):
            cur = int(line.split()[1]) >> 10
    lim = (cur + req['mem_mb']) << 20
    resource.setrlimit(resource.RLIMIT_AS, (lim, lim))
print('\n@@STARTED@@', flush=True)
out = getattr(mod, req['func'])(req['arg'])
print('\n@@RESULT@@' + json.dumps(out, default=str))
'''


def run_pristine(module, func, arg, timeout=20, cpu_s=None, mem_mb=None):
    """call module.func(arg) in a fresh interpreter with the unmodified library
    (no import hook, no shims).  Returns dict(status=ok|timeout|crash, result=...)."""
    verif = os.path.dirname(os.path.dirname(os.path.abspath(__file__)))
    env = dict(os.environ, VERIF_PRISTINE='1')
    req = dict(module=module, func=func, arg=arg, cpu_s=cpu_s, mem_mb=mem_mb)
    try:
        p = subprocess.run([sys.executable, '-c', PRISTINE_RUNNER % dict(verif=verif)],
                           input=json.dumps(req, default=str), capture_output=True, text=True,
                           timeout=timeout, env=env)
    except subprocess.TimeoutExpired as e:
        started = b'@@STARTED@@' in (e.stdout or b'') if isinstance(e.stdout, (bytes, type(None))) else '@@STARTED@@' in e.stdout
        return dict(status='timeout', result=None, started=bool(started))
    if '@@RESULT@@' in p.stdout:
        return dict(status='ok', result=json.loads(p.stdout.split('@@RESULT@@')[-1]))
    return dict(status='crash', result=(p.stderr or '')[-600:], returncode=p.returncode,
                started='@@STARTED@@' in p.stdout)


# ---------------------------------------------------------------------------
# fork server: many resource-limited pristine calls without paying interpreter start-up and
# imports for each (a loaded machine needs seconds for those)
# ---------------------------------------------------------------------------
FORK_SERVER = r'''
import sys, json, resource, time, os, signal
sys.path.insert(0, os.environ.get('VERIF_REPO', '/repo'))
sys.path.insert(0, %(verif)r)
import importlib
mods = {}
out = sys.stdout
print('@@READY@@', flush=True)
for line in sys.stdin:
    req = json.loads(line)
    mod = mods.get(req['module']) or mods.setdefault(req['module'], importlib.import_module(req['module']))
    r, w = os.pipe()
    pid = os.fork()
    if pid == 0:
        os.close(r)
        try:
            if req.get('cpu_s'):
                used = int(time.process_time()) + 1
                resource.setrlimit(resource.RLIMIT_CPU, (used + req['cpu_s'], used + req['cpu_s'] + 1))
            if req.get('mem_mb'):
                cur = 0
                for l in open('/proc/self/status'):
                    if l.startswith('VmSize:'):
                        cur = int(l.split()[1]) >> 10
                lim = (cur + req['mem_mb']) << 20
                resource.setrlimit(resource.RLIMIT_AS, (lim, lim))
            try:
                res = {'ok': getattr(mod, req['func'])(req['arg'])}
            except MemoryError:
                res = {'error': 'MemoryError'}
            except BaseException as e:
                res = {'error': '%%s: %%s' %% (type(e).__name__, str(e)[:300])}
            os.write(w, json.dumps(res, default=str).encode())
        finally:
            os._exit(0)
    os.close(w)
    deadline = time.time() + req.get('wall_s', 600)
    status = None
    while True:
        p, st = os.waitpid(pid, os.WNOHANG)
        if p:
            status = st
            break
        if time.time() > deadline:
            os.kill(pid, signal.SIGKILL)
            os.waitpid(pid, 0)
            break
        time.sleep(0.005)
    data = b''
    while True:
        chunk = os.read(r, 65536)
        if not chunk:
            break
        data += chunk
    os.close(r)
    rep = {'wall_timeout': status is None, 'signal': (os.WTERMSIG(status) if status is not None and os.WIFSIGNALED(status) else 0),
           'payload': data.decode('utf-8', 'replace')}
    print('@@REPLY@@' + json.dumps(rep), flush=True)
'''


class PristineServer:
    """one pristine interpreter (no import hook, no shims) that forks a resource-limited child per call"""

    def __init__(self):
        verif = os.path.dirname(os.path.dirname(os.path.abspath(__file__)))
        env = dict(os.environ, VERIF_PRISTINE='1')
        self.p = subprocess.Popen([sys.executable, '-u', '-c', FORK_SERVER % dict(verif=verif)], stdin=subprocess.PIPE,
                                  stdout=subprocess.PIPE, text=True, env=env)
        line = self.p.stdout.readline()
        if '@@READY@@' not in line:
            raise RuntimeError('pristine fork server did not start: %r' % line)

    def call(self, module, func, arg, cpu_s=None, mem_mb=None, wall_s=600):
        """dict(status=ok|cpu|memory|wall|error, result=...)"""
        self.p.stdin.write(json.dumps(dict(module=module, func=func, arg=arg, cpu_s=cpu_s, mem_mb=mem_mb,
                                           wall_s=wall_s), default=str) + '\n')
        self.p.stdin.flush()
        while True:
            line = self.p.stdout.readline()
            if not line:
                raise RuntimeError('pristine fork server died')
            if line.startswith('@@REPLY@@'):
                break
        rep = json.loads(line[len('@@REPLY@@'):])
        if rep['wall_timeout']:
            return dict(status='wall', result=None)
        if rep['signal'] in (24, 9):      # SIGXCPU / SIGKILL at the hard limit
            return dict(status='cpu', result=None)
        if rep['signal']:
            return dict(status='error', result='killed by signal %d' % rep['signal'])
        try:
            payload = json.loads(rep['payload'])
        except ValueError:
            return dict(status='error', result='no result: %r' % rep['payload'][:200])
        if 'ok' in payload:
            return dict(status='ok', result=payload['ok'])
        if payload.get('error') == 'MemoryError':
            return dict(status='memory', result='MemoryError')
        return dict(status='error', result=payload.get('error'))

    def close(self):
        try:
            self.p.stdin.close()
            self.p.wait(timeout=10)
        except Exception:
            self.p.kill()
