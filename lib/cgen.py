"""Helpers for the generated-C checks (C09 UPER, C10 OER).

* ``generate`` runs the CURRENT generator (asn1tools.source.c.generate) on an ASN.1 text;
  ``gcc_compile`` builds the output with ``gcc -std=c99 -Wall -Wextra -c`` (errors fatal,
  warnings recorded); ``Unit`` bundles text, parsed spec, header/source, the gcc-built shared
  object (``Native``, ctypes) and the cfront Program; it raises ``GeneratorError(kind, text)``
  when the generator rejects ('rejected': asn1tools.Error), crashes ('foreign') or gcc refuses the
  output ('compile').  ``prebuild`` does the sub-process work (generator, gcc, gcc -E) for many
  templates in parallel before the runner forks its workers (``build_bundle`` for one).
* ``Mapper`` relates a C struct object tree to ASN.1 values.  It walks the PARSED
  specification (lib.symvalue.Spec) and the object tree that cfront built from the generated
  HEADER in parallel -- the generator's own bookkeeping is not consulted:
    fill(obj, td, module, path)        named symbolic variables constrained by the ASN.1
                                       constraints (ranges, SIZE, flags 0/1, selectors, enum values)
    to_python(obj, td, module)         the value asn1tools' Python codec expects (pyfront leaves);
                                       forks on flags / lengths / selectors / booleans and writes
                                       the decided constant back into the struct
    compare(a, b, td, module)          z3 Bool: b holds the same abstract value as a (only the
                                       fields that are meaningful under flags/lengths/selectors)
    describe(obj, model)               JSON-able concrete view;  image(obj, model) struct bytes
* ``Native`` loads the gcc-built generated code through ctypes (per-path cross-validation of the
  interpreter); ``sanitized_run`` builds generated C + driver with ASan/UBSan for replays.

Conventions of the struct <-> value mapping (from README "generate C source" and the header):
  OPTIONAL member m -> ``bool is_m_present``; addition m -> ``bool is_m_addition_present``;
  OCTET STRING -> {length?, buf[max]}; SEQUENCE OF -> {length?, elements[max]}; CHOICE ->
  {enum choice; union value}; NULL has no member; scalar user types are wrapped in a struct with
  one member ``value``; fixed BIT STRING (SIZE n) is an unsigned integer: UPER bit k = integer
  bit n-1-k, OER bit k = bit 8*ceil(n/8)-1-k (left aligned in the encoded octets).
"""
import ctypes
import os
import re
import shutil
import subprocess
import sys
import tempfile

import z3

import os as _os
_REPO = _os.environ.get('VERIF_REPO', '/repo')
sys.path.insert(0, _REPO) if _REPO not in sys.path else None

import cfront
from cfront import Cell, StructObj, UnionObj, ArrayObj, Ptr
from lib.symvalue import Spec, int_range, size_range, members_split, members_of, enum_items
import pyfront
from pyfront import SymBytes, SymFloatBase
from symcore import HarnessError, Inconclusive

CFLAGS = ['-std=c99', '-Wall', '-Wextra']


class CompileError(Exception):
    """the generated C does not compile (a prerequisite of every other query)"""


class MappingError(Exception):
    """the generated header does not have the shape the ASN.1 type requires (member missing,
    enumerator missing, unbounded type accepted, ...): the generator accepted something it
    cannot represent"""


def canonical(name):
    return re.sub(r'[^a-zA-Z0-9]', '_', name)


def _key(s):
    return re.sub(r'[^a-z0-9]', '', s.lower())


def generate(text, codec, namespace='t'):
    """(header, source) from the current generator; raises asn1tools.Error when it rejects"""
    import asn1tools
    from asn1tools.source import c as csource
    compiled = asn1tools.compile_string(text, codec)
    header, source, _f, _m = csource.generate(compiled, codec, namespace, namespace + '.h',
                                              namespace + '.c', namespace + '_fuzzer.c')
    return header, source


def _tmpdir():
    return tempfile.mkdtemp(prefix='cgen-', dir='/var/tmp')


def gcc_compile(header, source, namespace='t', extra=(), keep=None):
    """gcc -std=c99 -Wall -Wextra -c; returns the list of warning lines; raises CompileError"""
    d = keep or _tmpdir()
    try:
        with open(os.path.join(d, namespace + '.h'), 'w') as f:
            f.write(header)
        with open(os.path.join(d, namespace + '.c'), 'w') as f:
            f.write(source)
        p = subprocess.run(['gcc'] + CFLAGS + list(extra) + ['-c', namespace + '.c', '-o', namespace + '.o'],
                           cwd=d, capture_output=True, text=True)
        if p.returncode != 0:
            raise CompileError(p.stderr[-1500:])
        return [l for l in p.stderr.splitlines() if 'warning:' in l]
    finally:
        if keep is None:
            shutil.rmtree(d, ignore_errors=True)


class GeneratorError(Exception):
    """outcome of generate + gcc other than success.  kind: 'rejected' (the generator / compiler of
    asn1tools raised its Error), 'foreign' (any other exception), 'compile' (gcc refuses the output)"""

    def __init__(self, kind, text):
        Exception.__init__(self, '%s: %s' % (kind, text))
        self.kind, self.text = kind, text


_BUNDLES = {}       # (text, codec, namespace) -> bundle; filled by prebuild() before the workers fork


def build_bundle(text, codec, namespace='t'):
    """everything that needs a sub-process (generator run, gcc -c, link, gcc -E) as a picklable dict"""
    import asn1tools
    b = dict(error=None, header=None, source=None, warnings=[], so=None, cpp=None)
    try:
        b['header'], b['source'] = generate(text, codec, namespace)
    except asn1tools.Error as e:
        b['error'] = ('rejected', '%s: %s' % (type(e).__name__, e))
        return b
    except Exception as e:
        b['error'] = ('foreign', '%s: %s' % (type(e).__name__, str(e)[:300]))
        return b
    d = _tmpdir()
    try:
        try:
            b['warnings'] = gcc_compile(b['header'], b['source'], namespace, extra=('-fPIC',), keep=d)
            so = os.path.join(d, 'lib%s.so' % namespace)
            p = subprocess.run(['gcc', '-shared', namespace + '.o', '-o', so], cwd=d, capture_output=True, text=True)
            if p.returncode != 0:
                raise CompileError(p.stderr[-1500:])
            with open(so, 'rb') as f:
                b['so'] = f.read()
        except CompileError as e:
            b['error'] = ('compile', str(e))
            return b
    finally:
        shutil.rmtree(d, ignore_errors=True)
    b['cpp'] = cfront.preprocess(b['source'], b['header'], namespace + '.h')
    return b


def _bundle_task(item):
    try:
        return item, build_bundle(*item)
    except BaseException as e:          # reported when the unit is used
        return item, dict(error=('foreign', 'prebuild: %r' % (e,)))


def prebuild(items, nproc=16):
    """build the bundles of (text, codec, namespace) items in parallel; forked workers inherit them"""
    import multiprocessing as mp
    items = [i for i in dict.fromkeys(items) if i not in _BUNDLES]
    if not items:
        return
    with mp.get_context('fork').Pool(min(nproc, len(items))) as pool:
        for item, b in pool.imap_unordered(_bundle_task, items):
            _BUNDLES[item] = b


class Unit:
    """ASN.1 text -> generated header/source (current generator) -> gcc object + shared object for
    ctypes -> cfront Program.  Raises GeneratorError when there is no compiled output."""

    def __init__(self, text, codec, namespace='t', native=True):
        import asn1tools
        self.text, self.codec, self.namespace = text, codec, namespace
        b = _BUNDLES.get((text, codec, namespace)) or build_bundle(text, codec, namespace)
        if b['error'] is not None:
            raise GeneratorError(*b['error'])
        self.parsed = asn1tools.parse_string(text)
        self.spec = Spec(self.parsed)
        self.header, self.source, self.warnings = b['header'], b['source'], b['warnings']
        self.native = Native(b['so']) if native else None
        self.prog = cfront.Program(self.source, self.header, namespace + '.h', preprocessed=b['cpp'])

    def cname(self, module, type_name):
        """C identifier prefix of a type, found in the header by its letters/digits"""
        want = _key(self.namespace + module + type_name)
        hits = [t[:-2] for t in self.prog.structs if t.endswith('_t') and _key(t[:-2]) == want
                and t[:-2] + '_encode' in self.prog.functions]
        if len(hits) != 1:
            raise MappingError('cannot identify the C type of %s.%s in the header: %r' % (module, type_name, hits))
        return hits[0]

    def struct(self, module, type_name):
        return self.prog.structs[self.cname(module, type_name) + '_t']


# ---------------------------------------------------------------------------
# struct <-> value mapping
# ---------------------------------------------------------------------------
SCALARS = ('INTEGER', 'BOOLEAN', 'ENUMERATED', 'BIT STRING', 'REAL')


class RawFloat(SymFloatBase):
    """REAL member held as raw IEEE-754 bits; struct.pack gives the bits back (no FP reasoning)"""

    def __init__(self, e):
        self.e = e

    def pack(self, fmt):
        n = {'>f': 32, '>d': 64, '!f': 32, '!d': 64}.get(fmt)
        if n != self.e.size():
            raise Inconclusive('struct.pack(%s) of a binary%d value' % (fmt, self.e.size()))
        return SymBytes([z3.Extract(8 * i + 7, 8 * i, self.e) for i in reversed(range(n // 8))])

    def concretize(self, model):
        import struct
        v = (z3.simplify(self.e) if model is None else model.eval(self.e, model_completion=True)).as_long()
        if self.e.size() == 32:
            return struct.unpack('>f', v.to_bytes(4, 'big'))[0]
        return struct.unpack('>d', v.to_bytes(8, 'big'))[0]


class Mapper:
    def __init__(self, unit, ctx=None):
        self.u = unit
        self.spec = unit.spec
        self.prog = unit.prog
        self.ctx = ctx
        self.uper = unit.codec == 'uper'
        self.missing = []         # meaningful fields found never-written by compare()
        self.additions_present = 0   # extension additions chosen present by fill()
        self.concrete = False     # to_python gives plain python leaves (replay)

    # -- helpers ------------------------------------------------------------
    def resolve(self, td, module):
        rtd, rmod, _c = self.spec.resolve(td, module)
        return rtd, rmod

    @staticmethod
    def unwrap(obj, t):
        if t in SCALARS and isinstance(obj, StructObj) and list(obj.f) == ['value']:
            return obj.f['value']
        return obj

    def field(self, obj, name, path):
        if not isinstance(obj, StructObj) or name not in obj.f:
            raise MappingError('header has no member %s at %s (have %s)'
                               % (name, path, list(getattr(obj, 'f', {}))))
        return obj.f[name]

    def enumerator(self, cell, asn_name, path):
        tag = cell.ct.name
        lst = self.prog.enum_lists.get(tag)
        if lst is None:
            raise MappingError('%s is not an enum in the header' % path)
        want = tag[:-1] + canonical(asn_name) + '_e'
        for n, v in lst:
            if n == want:
                return v
        raise MappingError('enumerator %s not in enum %s' % (want, tag))

    def members(self, rtd, rmod):
        """[(member, cname, kind)] kind in root/optional/addition"""
        root, adds, _ext = members_split(rtd)
        out = []
        for m in root:
            out.append((m, canonical(m['name']), 'optional' if m.get('optional') else 'root'))
        for a in adds:
            # the OER generator (like the Python OER codec) flattens [[ groups ]] into single additions
            for x in (a if isinstance(a, list) else [a]):
                out.append((x, canonical(x['name']), 'addition'))
        return out

    def flag_of(self, obj, m, cname, kind, path):
        if kind == 'optional':
            return self.field(obj, 'is_%s_present' % cname, path)
        if kind == 'addition':
            return self.field(obj, 'is_%s_addition_present' % cname, path)
        return None

    def bitstring_shift(self, n):
        """C integer = (n-bit BIT STRING value, bit 0 most significant) << shift"""
        return 0 if self.uper else (8 - n % 8) % 8

    # -- (a) symbolic fill ----------------------------------------------------
    def var(self, path, bits):
        return self.ctx.bv(path, bits)

    def fill(self, obj, td, module, path='s', additions=True):
        rtd, rmod = self.resolve(td, module)
        t = rtd['type']
        obj = self.unwrap(obj, t)
        A = self.ctx.eng.assume
        if t == 'INTEGER':
            lo, hi, ext = int_range(self.spec, rtd, rmod)
            if lo is None or hi is None:
                raise MappingError('%s: unbounded INTEGER accepted by the generator' % path)
            v = self.var(path, obj.ct.bits)
            if obj.ct.signed:
                A(z3.And(v >= lo, v <= hi))
            else:
                A(z3.And(z3.UGE(v, lo), z3.ULE(v, hi)))
            obj.val = v
        elif t == 'BOOLEAN':
            b = self.var(path, 1)
            obj.val = z3.ZeroExt(obj.ct.bits - 1, b)
        elif t == 'REAL':
            v = self.var(path, obj.ct.bits)
            if obj.ct.bits == 32:
                # signalling NaNs do not survive the float <-> Python float conversion
                A(z3.Not(z3.And(z3.Extract(30, 23, v) == 0xff, z3.Extract(22, 22, v) == 0,
                                z3.Extract(21, 0, v) != 0)))
            obj.val = v
        elif t == 'NULL':
            pass
        elif t == 'ENUMERATED':
            items, _e = enum_items(rtd)
            v = self.var(path, obj.ct.bits)
            vals = [self.enumerator(obj, name, path) for name, _num, _x in items]
            A(z3.Or([v == x for x in vals]))
            obj.val = v
        elif t == 'BIT STRING':
            lo, hi, _e = size_range(self.spec, rtd, rmod)
            v = self.var(path, obj.ct.bits)
            sh = self.bitstring_shift(hi)
            mask = ((1 << hi) - 1) << sh
            A(v & ~z3.BitVecVal(mask, obj.ct.bits) == 0)
            obj.val = v
        elif t == 'OCTET STRING':
            lo, hi, _e = size_range(self.spec, rtd, rmod)
            n = self._fill_length(obj, lo, hi, path)
            buf = self.field(obj, 'buf', path)
            for i in range(n):
                buf.e[i].val = self.var('%s[%d]' % (path, i), 8)
        elif t in ('SEQUENCE OF', 'SET OF'):
            lo, hi, _e = size_range(self.spec, rtd, rmod)
            n = self._fill_length(obj, lo, hi, path)
            et, emod = self.resolve(rtd['element'], rmod)
            if et['type'] != 'NULL':
                el = self.field(obj, 'elements', path)
                for i in range(n):
                    self.fill(el.e[i], rtd['element'], rmod, '%s[%d]' % (path, i), additions)
        elif t in ('SEQUENCE', 'SET'):
            cut = False
            for m, cname, kind in self.members(rtd, rmod):
                mt, _mm = self.resolve(m, rmod)
                flag = self.flag_of(obj, m, cname, kind, path)
                present = True
                if flag is not None:
                    if kind == 'addition' and (cut or not additions):
                        present = False
                    else:
                        present = bool(self.ctx.choose('%s.%s?' % (path, m['name']), 2))
                    # the value is a value of SOME version of the type: once a mandatory addition is
                    # absent all later additions are absent (the Python codec drops them silently)
                    if kind == 'addition' and not present and not (m.get('optional') or 'default' in m):
                        cut = True
                    flag.setk(int(present))
                    if kind == 'addition' and present:
                        self.additions_present += 1
                if present and mt['type'] != 'NULL':
                    self.fill(self.field(obj, cname, path), m, rmod, '%s.%s' % (path, m['name']), additions)
        elif t == 'CHOICE':
            ms = [m for m, _a in members_of(rtd)]
            k = self.ctx.choose(path + '!', len(ms))
            m = ms[k]
            sel = self.field(obj, 'choice', path)
            sel.val = z3.BitVecVal(self.enumerator(sel, m['name'], path), sel.ct.bits)
            mt, _mm = self.resolve(m, rmod)
            if mt['type'] != 'NULL':
                u = self.field(obj, 'value', path)
                self.fill(self.prog.set_union(u, canonical(m['name'])), m, rmod,
                          '%s.%s' % (path, m['name']), additions)
        else:
            raise MappingError('%s: type %s accepted by the generator but outside the mapping' % (path, t))

    def _fill_length(self, obj, lo, hi, path):
        if hi is None:
            raise MappingError('%s: unbounded SIZE accepted by the generator' % path)
        lo = lo or 0
        n = lo + self.ctx.choose(path + '#', hi - lo + 1)
        if lo != hi:
            c = self.field(obj, 'length', path)
            c.val = z3.BitVecVal(n, c.ct.bits)
        return n

    # -- (b) python value -----------------------------------------------------
    def decide(self, cell):
        """concrete value of a shape-determining cell (forks), written back as a constant"""
        e = z3.simplify(cell.val)
        if z3.is_bv_value(e):
            return e.as_long()
        v = self.ctx.eng.concretize(e, signed=False)
        cell.val = z3.BitVecVal(v, cell.ct.bits)
        return v

    def to_python(self, obj, td, module, path='s'):
        rtd, rmod = self.resolve(td, module)
        t = rtd['type']
        obj = self.unwrap(obj, t)
        if t == 'INTEGER':
            lo, hi, _e = int_range(self.spec, rtd, rmod)
            e = obj.val
            if self.concrete:
                e = z3.simplify(e)
                return e.as_signed_long() if obj.ct.signed else e.as_long()
            if not obj.ct.signed:
                e = z3.ZeroExt(1, e)
            return pyfront.mkint(e, lo, hi)
        if t == 'BOOLEAN':
            return bool(self.decide(obj))
        if t == 'REAL':
            return RawFloat(obj.val).concretize(None) if self.concrete else RawFloat(obj.val)
        if t == 'NULL':
            return None
        if t == 'ENUMERATED':
            items, _e = enum_items(rtd)
            v = self.decide(obj)
            if obj.ct.signed and v >= 1 << 31:
                v -= 1 << 32
            for name, _num, _x in items:
                if self.enumerator(obj, name, path) == v:
                    return name
            raise HarnessError('%s: enum value %d has no name' % (path, v))
        if t == 'BIT STRING':
            _lo, n, _e = size_range(self.spec, rtd, rmod)
            nb = (n + 7) // 8
            pad = 8 * nb - n
            v = z3.LShR(obj.val, self.bitstring_shift(n))
            w = max(obj.ct.bits, 8 * nb)
            if w > obj.ct.bits:
                v = z3.ZeroExt(w - obj.ct.bits, v)
            v = v << pad
            return (self._bytes([z3.simplify(z3.Extract(8 * i + 7, 8 * i, v)) for i in reversed(range(nb))]), n)
        if t == 'OCTET STRING':
            n = self._length(obj, rtd, rmod, path)
            buf = self.field(obj, 'buf', path)
            return self._bytes([buf.e[i].val for i in range(n)])
        if t in ('SEQUENCE OF', 'SET OF'):
            n = self._length(obj, rtd, rmod, path)
            et, _m = self.resolve(rtd['element'], rmod)
            if et['type'] == 'NULL':
                return [None] * n
            el = self.field(obj, 'elements', path)
            return [self.to_python(el.e[i], rtd['element'], rmod, '%s[%d]' % (path, i)) for i in range(n)]
        if t in ('SEQUENCE', 'SET'):
            out = {}
            for m, cname, kind in self.members(rtd, rmod):
                mt, _mm = self.resolve(m, rmod)
                flag = self.flag_of(obj, m, cname, kind, path)
                if flag is not None and not self.decide(flag):
                    continue
                if mt['type'] == 'NULL':
                    out[m['name']] = None
                else:
                    out[m['name']] = self.to_python(self.field(obj, cname, path), m, rmod,
                                                    '%s.%s' % (path, m['name']))
            return out
        if t == 'CHOICE':
            sel = self.field(obj, 'choice', path)
            v = self.decide(sel)
            for m, _a in members_of(rtd):
                if self.enumerator(sel, m['name'], path) == v:
                    mt, _mm = self.resolve(m, rmod)
                    if mt['type'] == 'NULL':
                        return (m['name'], None)
                    u = self.field(obj, 'value', path)
                    if u.active != canonical(m['name']):
                        raise HarnessError('%s: union member %s not active' % (path, m['name']))
                    return (m['name'], self.to_python(u.obj, m, rmod, '%s.%s' % (path, m['name'])))
            raise HarnessError('%s: selector %d names no alternative' % (path, v))
        raise MappingError('%s: type %s outside the mapping' % (path, t))

    def _bytes(self, cells):
        if self.concrete:
            return bytes(z3.simplify(c).as_long() for c in cells)
        return SymBytes(list(cells))

    def _length(self, obj, rtd, rmod, path):
        lo, hi, _e = size_range(self.spec, rtd, rmod)
        if (lo or 0) == hi:
            return hi
        return self.decide(self.field(obj, 'length', path))

    # -- (c) comparison -------------------------------------------------------
    def compare(self, a, b, td, module, path='s'):
        conds = []
        self._cmp(a, b, td, module, path, z3.BoolVal(True), conds)
        return z3.And(conds) if conds else z3.BoolVal(True)

    def _eq_cells(self, a, b, guard, conds, path):
        if a.val is None or b.val is None or isinstance(a.val, Ptr):
            conds.append(z3.Not(guard))         # a meaningful field that was never written
            self.missing.append(path)
            return None
        c = a.val == b.val
        conds.append(z3.Implies(guard, c))
        return c

    def _cmp(self, a, b, td, module, path, guard, conds):
        rtd, rmod = self.resolve(td, module)
        t = rtd['type']
        a, b = self.unwrap(a, t), self.unwrap(b, t)
        if t in ('INTEGER', 'BOOLEAN', 'REAL', 'ENUMERATED', 'BIT STRING'):
            self._eq_cells(a, b, guard, conds, path)
        elif t == 'NULL':
            pass
        elif t in ('OCTET STRING', 'SEQUENCE OF', 'SET OF'):
            lo, hi, _e = size_range(self.spec, rtd, rmod)
            fixed = (lo or 0) == hi
            if not fixed:
                la, lb = self.field(a, 'length', path), self.field(b, 'length', path)
                if self._eq_cells(la, lb, guard, conds, path + '.length') is None:
                    return
            name = 'buf' if t == 'OCTET STRING' else 'elements'
            if t != 'OCTET STRING' and self.resolve(rtd['element'], rmod)[0]['type'] == 'NULL':
                return
            ea, eb = self.field(a, name, path), self.field(b, name, path)
            for i in range(hi):
                if fixed:
                    g = guard
                else:
                    g = z3.simplify(z3.And(guard, z3.UGT(la.val, i)))
                    if z3.is_false(g):
                        continue
                if t == 'OCTET STRING':
                    self._eq_cells(ea.e[i], eb.e[i], g, conds, '%s[%d]' % (path, i))
                else:
                    self._cmp(ea.e[i], eb.e[i], rtd['element'], rmod, '%s[%d]' % (path, i), g, conds)
        elif t in ('SEQUENCE', 'SET'):
            for m, cname, kind in self.members(rtd, rmod):
                mt, _mm = self.resolve(m, rmod)
                g = guard
                fa = self.flag_of(a, m, cname, kind, path)
                if fa is not None:
                    fb = self.flag_of(b, m, cname, kind, path)
                    if kind == 'addition' and self.uper:
                        continue          # the UPER generator neither writes nor reads additions
                    if self._eq_cells(fa, fb, guard, conds, '%s.is_%s_present' % (path, cname)) is None:
                        continue
                    g = z3.simplify(z3.And(guard, fa.val != 0))
                    if z3.is_false(g):
                        continue
                if mt['type'] != 'NULL':
                    self._cmp(self.field(a, cname, path), self.field(b, cname, path), m, rmod,
                              '%s.%s' % (path, m['name']), g, conds)
        elif t == 'CHOICE':
            sa, sb = self.field(a, 'choice', path), self.field(b, 'choice', path)
            if self._eq_cells(sa, sb, guard, conds, path + '.choice') is None:
                return
            ua, ub = self.field(a, 'value', path), self.field(b, 'value', path)
            for m, _a in members_of(rtd):
                mt, _mm = self.resolve(m, rmod)
                if mt['type'] == 'NULL':
                    continue
                g = z3.simplify(z3.And(guard, sa.val == self.enumerator(sa, m['name'], path)))
                if z3.is_false(g):
                    continue
                cn = canonical(m['name'])
                if ua.active != cn or ub.active != cn:
                    conds.append(z3.Not(g))
                    self.missing.append('%s.value.%s' % (path, cn))
                    continue
                self._cmp(ua.obj, ub.obj, m, rmod, '%s.%s' % (path, m['name']), g, conds)
        else:
            raise MappingError('%s: type %s outside the mapping' % (path, t))

    # -- concrete struct from a struct image (replay) ---------------------------
    def load(self, obj, td, module, raw, off=0, path='s'):
        """bind the object tree to the bytes of a struct image; CHOICE selectors pick the union member"""
        umap = {}
        bind(obj, raw, off, umap)
        self._load_unions(obj, td, module, raw, umap, path)

    def _load_unions(self, obj, td, module, raw, umap, path):
        rtd, rmod = self.resolve(td, module)
        t = rtd['type']
        obj = self.unwrap(obj, t)
        if t in ('SEQUENCE', 'SET'):
            for m, cname, _kind in self.members(rtd, rmod):
                if self.resolve(m, rmod)[0]['type'] != 'NULL':
                    self._load_unions(self.field(obj, cname, path), m, rmod, raw, umap, path + '.' + m['name'])
        elif t in ('SEQUENCE OF', 'SET OF'):
            if self.resolve(rtd['element'], rmod)[0]['type'] != 'NULL':
                for i, e in enumerate(self.field(obj, 'elements', path).e):
                    self._load_unions(e, rtd['element'], rmod, raw, umap, '%s[%d]' % (path, i))
        elif t == 'CHOICE':
            sel = self.field(obj, 'choice', path)
            v = _cval(sel, None)
            u = self.field(obj, 'value', path)
            for m, _a in members_of(rtd):
                if self.enumerator(sel, m['name'], path) == v and self.resolve(m, rmod)[0]['type'] != 'NULL':
                    o = self.prog.set_union(u, canonical(m['name']))
                    sub = {}
                    bind(o, raw, umap[id(u)], sub)
                    self._load_unions(o, m, rmod, raw, sub, path + '.' + m['name'])

    def valid(self, obj, td, module, path='s'):
        """z3 Bool: the (decoded) struct holds a value inside the ASN.1 constraints"""
        conds = []
        self._valid(obj, td, module, path, z3.BoolVal(True), conds)
        return z3.And(conds) if conds else z3.BoolVal(True)

    def _valid(self, a, td, module, path, guard, conds):
        rtd, rmod = self.resolve(td, module)
        t = rtd['type']
        a = self.unwrap(a, t)

        def need(cell, pred):
            if cell.val is None:
                conds.append(z3.Not(guard))
                return False
            conds.append(z3.Implies(guard, pred(cell.val)))
            return True
        if t == 'INTEGER':
            lo, hi, _e = int_range(self.spec, rtd, rmod)
            if a.ct.signed:
                need(a, lambda v: z3.And(v >= lo, v <= hi))
            else:
                need(a, lambda v: z3.And(z3.UGE(v, lo), z3.ULE(v, hi)))
        elif t == 'BOOLEAN':
            need(a, lambda v: z3.ULE(v, 1))
        elif t == 'REAL':
            need(a, lambda v: z3.BoolVal(True))
        elif t == 'ENUMERATED':
            items, _e = enum_items(rtd)
            vals = [self.enumerator(a, name, path) for name, _n, _x in items]
            need(a, lambda v: z3.Or([v == x for x in vals]))
        elif t == 'BIT STRING':
            _lo, n, _e = size_range(self.spec, rtd, rmod)
            mask = ((1 << n) - 1) << self.bitstring_shift(n)
            need(a, lambda v: v & ~z3.BitVecVal(mask, a.ct.bits) == 0)
        elif t in ('OCTET STRING', 'SEQUENCE OF', 'SET OF'):
            lo, hi, _e = size_range(self.spec, rtd, rmod)
            lo = lo or 0
            la = None
            if lo != hi:
                la = self.field(a, 'length', path)
                if not need(la, lambda v: z3.And(z3.UGE(v, lo), z3.ULE(v, hi))):
                    return
            if t == 'OCTET STRING':
                buf = self.field(a, 'buf', path)
                for i in range(hi):
                    g = guard if la is None else z3.And(guard, z3.UGT(la.val, i))
                    if buf.e[i].val is None:
                        conds.append(z3.Not(g))
                return
            if self.resolve(rtd['element'], rmod)[0]['type'] == 'NULL':
                return
            el = self.field(a, 'elements', path)
            for i in range(hi):
                g = guard if la is None else z3.simplify(z3.And(guard, z3.UGT(la.val, i)))
                if z3.is_false(g):
                    continue
                self._valid(el.e[i], rtd['element'], rmod, '%s[%d]' % (path, i), g, conds)
        elif t in ('SEQUENCE', 'SET'):
            for m, cname, kind in self.members(rtd, rmod):
                mt, _mm = self.resolve(m, rmod)
                g = guard
                f = self.flag_of(a, m, cname, kind, path)
                if f is not None:
                    if kind == 'addition' and self.uper:
                        continue
                    if not need(f, lambda v: z3.ULE(v, 1)):
                        continue
                    g = z3.simplify(z3.And(guard, f.val != 0))
                    if z3.is_false(g):
                        continue
                if mt['type'] != 'NULL':
                    self._valid(self.field(a, cname, path), m, rmod, '%s.%s' % (path, m['name']), g, conds)
        elif t == 'CHOICE':
            s = self.field(a, 'choice', path)
            ms = [m for m, _a in members_of(rtd)]
            vals = [self.enumerator(s, m['name'], path) for m in ms]
            if not need(s, lambda v: z3.Or([v == x for x in vals])):
                return
            u = self.field(a, 'value', path)
            for m, x in zip(ms, vals):
                mt, _mm = self.resolve(m, rmod)
                if mt['type'] == 'NULL':
                    continue
                g = z3.simplify(z3.And(guard, s.val == x))
                if z3.is_false(g):
                    continue
                if u.active != canonical(m['name']):
                    conds.append(z3.Not(g))
                    continue
                self._valid(u.obj, m, rmod, '%s.%s' % (path, m['name']), g, conds)
        elif t == 'NULL':
            pass
        else:
            raise MappingError('%s: type %s outside the mapping' % (path, t))


# ---------------------------------------------------------------------------
# concrete views of an object tree
# ---------------------------------------------------------------------------
def flatten(obj, off=0, out=None):
    """[(byte offset, Cell)] of every scalar reachable (active union members only), LP64 layout"""
    out = [] if out is None else out
    if isinstance(obj, Cell):
        out.append((off, obj))
    elif isinstance(obj, StructObj):
        o = 0
        for name, t in obj.ct.fields:
            a = t.align()
            o = (o + a - 1) // a * a
            flatten(obj.f[name], off + o, out)
            o += t.size()
    elif isinstance(obj, ArrayObj):
        es = obj.ct.base.size()
        for i, e in enumerate(obj.e):
            flatten(e, off + i * es, out)
    elif isinstance(obj, UnionObj):
        if obj.obj is not None:
            flatten(obj.obj, off, out)
    return out


def bind(obj, raw, off, umap):
    """set every scalar of the tree from the little-endian struct image; unions are recorded in
    umap {id(union): offset} and left inactive"""
    if isinstance(obj, Cell):
        n = obj.ct.size()
        obj.val = z3.BitVecVal(int.from_bytes(raw[off:off + n], 'little'), obj.ct.bits)
    elif isinstance(obj, StructObj):
        o = 0
        for name, t in obj.ct.fields:
            a = t.align()
            o = (o + a - 1) // a * a
            bind(obj.f[name], raw, off + o, umap)
            o += t.size()
    elif isinstance(obj, ArrayObj):
        es = obj.ct.base.size()
        for i, e in enumerate(obj.e):
            bind(e, raw, off + i * es, umap)
    elif isinstance(obj, UnionObj):
        umap[id(obj)] = off
        obj.active, obj.obj = None, None


def _cval(cell, model):
    if cell.val is None or isinstance(cell.val, Ptr):
        return None
    v = cell.val if model is None else model.eval(cell.val, model_completion=True)
    v = z3.simplify(v)
    if not z3.is_bv_value(v):
        return None
    return v.as_long()


def image(obj, model, fill=0):
    """struct bytes under the model; never-written cells are ``fill``"""
    b = bytearray([fill]) * obj.ct.size()
    for off, cell in flatten(obj):
        v = _cval(cell, model)
        if v is None:
            continue
        n = cell.ct.size()
        b[off:off + n] = v.to_bytes(n, 'little')
    return bytes(b)


def describe(obj, model):
    """JSON-able nested view keyed by C member names (None = never written)"""
    if isinstance(obj, Cell):
        v = _cval(obj, model)
        if v is not None and obj.ct.kind == 'int' and obj.ct.signed and v >= 1 << (obj.ct.bits - 1):
            v -= 1 << obj.ct.bits
        return v
    if isinstance(obj, StructObj):
        return {k: describe(v, model) for k, v in obj.f.items()}
    if isinstance(obj, ArrayObj):
        return [describe(e, model) for e in obj.e]
    if isinstance(obj, UnionObj):
        return {obj.active: describe(obj.obj, model)} if obj.active else {}
    return None


def written_mismatch(obj, raw, model):
    """first written cell whose value under the model differs from the raw struct bytes"""
    for off, cell in flatten(obj):
        v = _cval(cell, model)
        if v is None:
            continue
        n = cell.ct.size()
        got = int.from_bytes(raw[off:off + n], 'little')
        if got != v:
            return '%s: interpreter %d, compiled code %d' % (cell.name, v, got)
    return None


# ---------------------------------------------------------------------------
# native builds
# ---------------------------------------------------------------------------
class Native:
    """the generated code built by gcc as a shared object and called through ctypes"""

    def __init__(self, so_bytes):
        fd, path = tempfile.mkstemp(prefix='cgen-', suffix='.so', dir='/var/tmp')
        try:
            with os.fdopen(fd, 'wb') as f:
                f.write(so_bytes)
            self.lib = ctypes.CDLL(path)           # the mapping stays valid after the file is unlinked
        finally:
            os.unlink(path)

    def _fn(self, name):
        f = getattr(self.lib, name)
        f.restype = ctypes.c_ssize_t
        return f

    def encode(self, cname, struct_bytes, size):
        src = ctypes.create_string_buffer(bytes(struct_bytes), len(struct_bytes))
        dst = ctypes.create_string_buffer(b'\xee' * (size + 16), size + 16)
        f = self._fn(cname + '_encode')
        f.argtypes = [ctypes.c_char_p, ctypes.c_size_t, ctypes.c_char_p]
        r = f(dst, size, src)
        return r, dst.raw[:max(r, 0)], dst.raw[size:] == b'\xee' * 16

    def decode(self, cname, data, struct_size, fill=0):
        dst = ctypes.create_string_buffer(bytes([fill]) * struct_size, struct_size)
        src = ctypes.create_string_buffer(bytes(data), max(len(data), 1))
        f = self._fn(cname + '_decode')
        f.argtypes = [ctypes.c_char_p, ctypes.c_char_p, ctypes.c_size_t]
        r = f(dst, src, len(data))
        return r, dst.raw


DRIVER = r'''
#include <stdio.h>
#include <stdlib.h>
#include <string.h>
#include "%(ns)s.h"

static size_t unhex(const char *s, uint8_t **out)
{
    size_t n = strlen(s) / 2, i;
    unsigned v;
    *out = malloc(n);                 /* exact size: ASan sees any access beyond it */
    for (i = 0; i < n; i++) { sscanf(s + 2 * i, "%%2x", &v); (*out)[i] = (uint8_t)v; }
    return n;
}

static void hex(const char *tag, const void *p, size_t n)
{
    size_t i;
    printf("%%s ", tag);
    for (i = 0; i < n; i++) printf("%%02x", ((const uint8_t *)p)[i]);
    printf("\n");
}

int main(int argc, char **argv)
{
    struct %(c)s_t a, b;
    uint8_t *in, *out;
    size_t n;
    ssize_t r, r2;
    if (argc < 3) return 2;
    memset(&a, 0, sizeof(a));
    memset(&b, 0, sizeof(b));
    if (argv[1][0] == 'E') {          /* E <size> <struct image> : encode into exactly size bytes */
        size_t size = (size_t)atol(argv[2]);
        n = unhex(argv[3], &in);
        if (n != sizeof(a)) { printf("bad struct size %%zu != %%zu\n", n, sizeof(a)); return 2; }
        memcpy(&a, in, sizeof(a));
        out = malloc(size);
        r = %(c)s_encode(out, size, &a);
        printf("ret %%ld\n", (long)r);
        if (r > 0 && (size_t)r <= size) hex("bytes", out, (size_t)r); else printf("bytes \n");
        if (r >= 0) {
            r2 = %(c)s_decode(&b, out, (size_t)r);
            printf("ret2 %%ld\n", (long)r2);
            hex("struct", &b, sizeof(b));
        }
    } else {                          /* D <input bytes> : decode, re-encode, re-decode */
        n = unhex(argv[2], &in);
        r = %(c)s_decode(&a, in, n);
        printf("ret %%ld\n", (long)r);
        hex("struct", &a, sizeof(a));
        if (r >= 0) {
            out = malloc(n + 64);
            r2 = %(c)s_encode(out, n + 64, &a);
            printf("ret2 %%ld\n", (long)r2);
            if (r2 > 0) hex("bytes", out, (size_t)r2); else printf("bytes \n");
            if (r2 >= 0) {
                r = %(c)s_decode(&b, out, (size_t)r2);
                printf("ret3 %%ld\n", (long)r);
                hex("struct2", &b, sizeof(b));
            }
        }
    }
    return 0;
}
'''


def sanitized_run(header, source, namespace, cname, args, timeout=60):
    """build generated C + driver with ASan/UBSan in a temp dir under /var/tmp (removed afterwards),
    run it; returns dict(rc, out{key: str}, err)"""
    d = _tmpdir()
    try:
        with open(os.path.join(d, namespace + '.h'), 'w') as f:
            f.write(header)
        with open(os.path.join(d, namespace + '.c'), 'w') as f:
            f.write(source)
        with open(os.path.join(d, 'driver.c'), 'w') as f:
            f.write(DRIVER % dict(ns=namespace, c=cname))
        p = subprocess.run(['gcc', '-std=c99', '-g', '-fsanitize=address,undefined',
                            '-fno-sanitize-recover=all', '-D_POSIX_C_SOURCE=200809L',
                            namespace + '.c', 'driver.c', '-o', 'replay'],
                           cwd=d, capture_output=True, text=True)
        if p.returncode != 0:
            return dict(rc=None, out={}, err='build failed: ' + p.stderr[-800:])
        env = dict(os.environ, ASAN_OPTIONS='detect_leaks=0', UBSAN_OPTIONS='print_stacktrace=1')
        try:
            r = subprocess.run([os.path.join(d, 'replay')] + [str(a) for a in args], capture_output=True,
                               text=True, timeout=timeout, env=env)
        except subprocess.TimeoutExpired:
            return dict(rc='timeout', out={}, err='timeout after %ss' % timeout)
        out = {}
        for line in r.stdout.splitlines():
            k, _s, v = line.partition(' ')
            out[k] = v
        return dict(rc=r.returncode, out=out, err=r.stderr[-1200:])
    finally:
        shutil.rmtree(d, ignore_errors=True)
