"""OBJECT IDENTIFIER values with symbolic arcs."""
import z3
from symcore import E, Inconclusive
from pyfront import SymInt, SymText, IntToken, TOKEN_OPEN, TOKEN_CLOSE, SymBool


class SymOid(SymText):
    def __init__(self, arcs):
        self.arcs = arcs

    def split(self, sep=None):
        if sep != '.':
            raise Inconclusive('SymOid.split(%r)' % (sep,))
        return [IntToken(a) for a in self.arcs]

    def __len__(self):
        # the dotted text length is only ever compared with a SIZE constraint, which an
        # OBJECT IDENTIFIER cannot carry; any positive number is consistent
        return 2 * len(self.arcs) - 1

    def concretize(self, model):
        out = []
        for a in self.arcs:
            out.append(str(model.eval(a.e, model_completion=True).as_signed_long())
                       if isinstance(a, SymInt) else str(a))
        return '.'.join(out)

    def __eq__(self, o):
        if isinstance(o, SymOid) and len(o.arcs) == len(self.arcs):
            return SymBool(oid_equiv(self, o))
        if isinstance(o, str):
            return SymBool(oid_equiv(self, o))
        return False

    def __hash__(self):
        return 0x01d

    def rendered(self):
        """dotted text with one integer token per symbolic arc"""
        return '.'.join(E().registry_token(a) if isinstance(a, SymInt) else str(a) for a in self.arcs)

    def __format__(self, spec):
        if spec not in ('', 's'):
            raise Inconclusive('format spec %r on symbolic OBJECT IDENTIFIER' % spec)
        return self.rendered()

    def __str__(self):
        return self.rendered()

    def __repr__(self):
        return '<symoid %d>' % len(self.arcs)

    def lstrip(self, chars=None):
        if chars is not None and any(c in '0123456789.' for c in chars):
            raise Inconclusive('SymOid.lstrip(%r)' % (chars,))
        return self

    rstrip = strip = lstrip

    def encode(self, encoding='utf-8', errors='strict'):
        return self.rendered().encode(encoding)


def parse_rendered(text):
    """arcs of a dotted text that may contain integer token placeholders"""
    toks = E().registry.get('tokens', [])
    arcs = []
    for part in text.split('.'):
        if part.startswith(TOKEN_OPEN) and part.endswith(TOKEN_CLOSE):
            arcs.append(toks[int(part[1:-1])])
        else:
            arcs.append(int(part))
    return arcs


def oid_equiv(o, d):
    oa = o.arcs if isinstance(o, SymOid) else parse_rendered(o)
    if isinstance(d, SymOid):
        da = d.arcs
    elif isinstance(d, str):
        try:
            da = parse_rendered(d)
        except ValueError:
            return z3.BoolVal(False)
    else:
        return z3.BoolVal(False)
    if len(oa) != len(da):
        return z3.BoolVal(False)
    conds = []
    for x, y in zip(oa, da):
        r = (x == y)
        conds.append(r.e if isinstance(r, SymBool) else z3.BoolVal(bool(r)))
    return z3.And(conds)
