"""Bit buffer used by the reference models (x691, x696): a list of single-bit z3
expressions; works for concrete and symbolic (pyfront proxy) operands alike."""
import z3

from pyfront import SymInt, SymBool, SymBytes, fit, cell


def _bit_expr(b):
    if isinstance(b, SymBool):
        return z3.If(b.e, z3.BitVecVal(1, 1), z3.BitVecVal(0, 1))
    if isinstance(b, SymInt):
        return z3.Extract(0, 0, b.e)
    if z3.is_expr(b):
        return b
    return z3.BitVecVal(1 if b else 0, 1)


class BitBuf:
    def __init__(self):
        self.bits = []

    def __len__(self):
        return len(self.bits)

    def bit(self, b):
        self.bits.append(_bit_expr(b))
        return self

    def uint(self, v, n):
        """append v as an n-bit unsigned number (n concrete; v int or SymInt, 0 <= v < 2^n)"""
        if n == 0:
            return self
        if isinstance(v, SymInt):
            e = fit(v.e, max(n, v.e.size()))
            self.bits.extend(z3.Extract(i, i, e) for i in reversed(range(n)))
        else:
            v = int(v)
            self.bits.extend(z3.BitVecVal((v >> i) & 1, 1) for i in reversed(range(n)))
        return self

    def octets(self, data):
        for x in (data.c if isinstance(data, SymBytes) else data):
            c = x if z3.is_expr(x) else cell(x)
            self.bits.extend(z3.Extract(i, i, c) for i in reversed(range(8)))
        return self

    def align(self):
        self.bits.extend([z3.BitVecVal(0, 1)] * ((-len(self.bits)) % 8))
        return self

    def extend(self, other):
        self.bits.extend(other.bits)
        return self

    def cells(self):
        """octets (BV8 expressions) after zero padding to an octet boundary"""
        bits = self.bits + [z3.BitVecVal(0, 1)] * ((-len(self.bits)) % 8)
        return [z3.simplify(z3.Concat(*bits[i:i + 8])) for i in range(0, len(bits), 8)]

    def symbytes(self):
        return SymBytes(self.cells())

    def concrete(self):
        """bytes, when every bit is concrete"""
        out = bytearray()
        for c in self.cells():
            if not z3.is_bv_value(c):
                raise ValueError('symbolic bit in buffer')
            out.append(c.as_long())
        return bytes(out)
