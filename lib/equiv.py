"""Equivalence of two compiled codec objects over all symbolic values (C13, C19, C07, C18)."""
import z3

from lib import codec as C
from lib.codec import asn1tools
from lib.symvalue import struct_eq, Mismatch, concretize, jsonable
from pyfront import SymBytes, unshimmed
from symcore import HarnessError, Inconclusive


def outcome(fn, *a):
    """('ok', result) | ('lib', exception class name, location text) | ('foreign', class name)"""
    try:
        return ('ok', fn(*a))
    except C.LIB_ERRORS as e:
        return ('lib', type(e).__name__, str(e).split(':')[0] if ':' in str(e) else '')
    except Inconclusive:
        raise
    except Exception as e:
        return ('foreign', type(e).__name__)


def same_bytes(ctx, label, x, y):
    if len(x) != len(y):
        ctx.violation(label + '-length', '%d vs %d octets' % (len(x), len(y)))
        return False
    r = (SymBytes(x) == y)
    return ctx.prove(label, r)


def compare_codecs(ctx, ctA, ctB, v, what, decode=True, xval=True):
    """ctA / ctB: CompiledType objects for the same abstract type.  Proves: same encode outcome
    (bytes or error class+location); decode of those bytes gives equal values under both."""
    a = outcome(ctA.encode, v)
    b = outcome(ctB.encode, v)
    if a[0] != b[0] or (a[0] != 'ok' and a[1:] != b[1:]):
        ctx.violation(what + '-encode-outcome-differs', '%r vs %r' % (a if a[0] != 'ok' else 'bytes',
                                                                       b if b[0] != 'ok' else 'bytes'))
        return False
    if a[0] != 'ok':
        ctx.note('both-raise-' + a[1])
        return True
    ea, eb = a[1], b[1]
    if xval:
        m = ctx.eng.get_model()
        cv = concretize(v, m)
        want = ea.concrete(m) if isinstance(ea, SymBytes) else bytes(ea)
        with unshimmed():
            got = bytes(ctA.encode(cv))
        if got != want:
            raise HarnessError('xval mismatch %r: symbolic %s concrete %s' % (cv, want.hex(), got.hex()))
        ctx.res.xval += 1
        ctx.sample({'job': ctx.job['id'], 'value': jsonable(cv), 'encoded': got.hex()})
    if not same_bytes(ctx, what + '-same-bytes', ea, eb):
        return False
    if decode:
        da = outcome(ctA.decode, ea)
        db = outcome(ctB.decode, ea)
        if da[0] != db[0] or (da[0] != 'ok' and da[1:] != db[1:]):
            ctx.violation(what + '-decode-outcome-differs', '%r vs %r' % (da[:1] + da[2:] if da[0] == 'ok' else da,
                                                                           db[:1] + db[2:] if db[0] == 'ok' else db))
            return False
        if da[0] == 'ok':
            conds = []
            try:
                struct_eq(da[1], db[1], conds)
            except Mismatch as e:
                ctx.violation(what + '-decoded-values-differ', str(e)[:160])
                return False
            if conds:
                if not ctx.prove(what + '-same-decoded-value', z3.And(conds)):
                    return False
    ctx.note('equivalent')
    return True
