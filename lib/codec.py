"""Helpers shared by the codec harnesses: which asn1tools modules get shims, hash
candidate collection, compile helpers, exception classification."""
import sys
import types

import os as _os
REPO = _os.environ.get('VERIF_REPO', '/repo')
if sys.path[:1] != [REPO]:
    sys.path.insert(0, REPO)

from pyfront import instrument
INSTRUMENTED = instrument.install()

import asn1tools
from asn1tools import codecs as codecs_init
from asn1tools.codecs import (ber, der, per, uper, oer, jer, xer, gser, type_checker,
                              constraints_checker, permitted_alphabet)
from asn1tools.codecs import compiler as ccompiler
from asn1tools import compiler as top_compiler

import pyfront
from pyfront import SymInt, SymBytes, SymStr, SymBool
from symcore import Engine, Inconclusive, HarnessError

CODEC_MODS = [ber, der, per, uper, oer, ccompiler, type_checker, constraints_checker, codecs_init,
              top_compiler]
TEXT_MODS = [jer, xer, gser]
BINARY_CODECS = ['ber', 'der', 'per', 'uper', 'oer']

LIB_ERRORS = (asn1tools.EncodeError, asn1tools.DecodeError, asn1tools.ConstraintsError)


def functions_of(*mods):
    out = []
    for m in mods:
        out.append(m.__name__ + '.*')
    return out


def _code_consts(code, ints, byts, strs, seen):
    if code in seen:
        return
    seen.add(code)
    for c in code.co_consts:
        if isinstance(c, bool) or c is None:
            continue
        if isinstance(c, int):
            ints.add(c)
        elif isinstance(c, bytes):
            byts.add(c)
        elif isinstance(c, str):
            if len(c) <= 3:
                strs.add(c)
        elif isinstance(c, (tuple, frozenset)):
            for x in c:
                if isinstance(x, int) and not isinstance(x, bool):
                    ints.add(x)
                elif isinstance(x, bytes):
                    byts.add(x)
        elif isinstance(c, types.CodeType):
            _code_consts(c, ints, byts, strs, seen)


def module_constants(mods):
    ints, byts, strs, seen = set(), set(), set(), set()
    for m in mods:
        for obj in list(m.__dict__.values()):
            if isinstance(obj, types.FunctionType) and obj.__module__ == m.__name__:
                _code_consts(obj.__code__, ints, byts, strs, seen)
            elif isinstance(obj, type) and obj.__module__ == m.__name__:
                for f in obj.__dict__.values():
                    f = getattr(f, '__func__', f)
                    if isinstance(f, types.FunctionType):
                        _code_consts(f.__code__, ints, byts, strs, seen)
    return ints, byts, strs


def graph_keys(root, limit=200000):
    """all int / bytes / str keys of dicts and members of sets reachable from root"""
    ints, byts, strs = set(), set(), set()
    seen = set()
    stack = [root]
    n = 0
    while stack:
        o = stack.pop()
        if id(o) in seen:
            continue
        seen.add(id(o))
        n += 1
        if n > limit:
            break
        if isinstance(o, dict):
            for k, v in o.items():
                if isinstance(k, bool):
                    pass
                elif isinstance(k, int):
                    ints.add(k)
                elif isinstance(k, (bytes, bytearray)):
                    byts.add(bytes(k))
                elif isinstance(k, str):
                    strs.add(k)
                stack.append(v)
        elif isinstance(o, (list, tuple, set, frozenset)):
            for x in o:
                if isinstance(o, (set, frozenset)):
                    if isinstance(x, int) and not isinstance(x, bool):
                        ints.add(x)
                    elif isinstance(x, bytes):
                        byts.add(x)
                    elif isinstance(x, str):
                        strs.add(x)
                stack.append(x)
        elif isinstance(o, (str, bytes, bytearray, int, float, type(None), types.FunctionType,
                            types.ModuleType, type)):
            continue
        else:
            d = getattr(o, '__dict__', None)
            if d is not None:
                stack.append(d)
            for s in getattr(type(o), '__slots__', ()) or ():
                if hasattr(o, s):
                    stack.append(getattr(o, s))
    return ints, byts, strs


_MODCONST = {}


class Candidates:
    def __init__(self, *roots, mods=None):
        mods = mods or (CODEC_MODS + TEXT_MODS)
        key = tuple(m.__name__ for m in mods)
        if key not in _MODCONST:
            _MODCONST[key] = module_constants(mods)
        ints, byts, strs = (set(x) for x in _MODCONST[key])
        for r in roots:
            i, b, s = graph_keys(r)
            ints |= i
            byts |= b
            strs |= s
        self.ints = tuple(sorted(ints))
        self.bytes = tuple(sorted(byts))
        self.strs = tuple(sorted(strs))

    def attach(self, ctx):
        eng = ctx.eng
        eng.hash_ints = self.ints
        eng.hash_bytes = self.bytes
        eng.hash_strs = self.strs


def classify(exc):
    """'lib' for the library's own Encode/Decode/Constraints errors, else 'foreign'"""
    return 'lib' if isinstance(exc, LIB_ERRORS) else 'foreign'
