"""Unit-level ("kernel") harnesses: one operation of the bit/octet buffers from an
arbitrary valid pre-state, compared with a bit-list reference model.  The pre-state is
constructed directly (drive the unit, not the program), so states that whole-value
harnesses cannot reach within their bounds (e.g. a PER encoder that has already spilled
into chunks) are covered."""
import z3

from pyfront import SymInt, SymBytes, SymBool, unsigned, need, fit


def _bits_of(value, n):
    """n bits (MSB first) of a non-negative int/SymInt as BV1 expressions"""
    if n == 0:
        return []
    if isinstance(value, SymInt):
        e = fit(value.e, max(n, value.e.size()))
        return [z3.Extract(i, i, e) for i in reversed(range(n))]
    return [z3.BitVecVal((int(value) >> i) & 1, 1) for i in reversed(range(n))]


def _sym_value(ctx, name, nbits):
    if nbits == 0:
        return 0
    return unsigned(ctx.bv(name, nbits))


def per_encoder_step(ctx, mod, aligned):
    """per.Encoder / uper.Encoder: arbitrary state (0-2 spilled chunks of any bit length,
    a tail of 0..12 bits), then one or two operations; as_bytearray() must equal the model."""
    enc = mod.Encoder()
    model = []
    big = ctx.job.get('tier') == 'thorough'
    nchunks = ctx.choose('nchunks', 3)
    for i in range(nchunks):
        nb = (1 + ctx.choose('chunk%d.nbits' % i, 12 if big else 8)) if (i == 0 or big) else 5
        v = _sym_value(ctx, 'chunk%d' % i, nb)
        enc.chunks.append([v, nb])
        enc.chunks_number_of_bits += nb
        model += _bits_of(v, nb)
    nb = ctx.choose('tail.nbits', 13 if big else 9)
    v = _sym_value(ctx, 'tail', nb)
    enc.value = v
    enc.number_of_bits = nb
    model += _bits_of(v, nb)
    nops = 1 + ctx.choose('nops', 2)
    trace = []
    for k in range(nops):
        op = ctx.choose('op%d' % k, 5)
        if op == 0:
            b = _sym_value(ctx, 'op%d.bit' % k, 1)
            enc.append_bit(b)
            model += _bits_of(b, 1)
            trace.append('append_bit')
        elif op == 1:
            n = (1 + ctx.choose('op%d.n' % k, 9)) if big else (1, 7, 8, 9)[ctx.choose('op%d.n' % k, 4)]
            x = _sym_value(ctx, 'op%d.v' % k, n)
            enc.append_non_negative_binary_integer(x, n)
            model += _bits_of(x, n)
            trace.append('append_non_negative_binary_integer/%d' % n)
        elif op == 2:
            enc.align_always()
            model += [z3.BitVecVal(0, 1)] * ((-len(model)) % 8)
            trace.append('align_always')
        elif op == 3:
            enc.align()
            if aligned:
                model += [z3.BitVecVal(0, 1)] * ((-len(model)) % 8)
            trace.append('align')
        else:
            x = ctx.bytes('op%d.b' % k, 1)
            enc.append_bytes(x)
            model += [z3.Extract(i, i, x.c[0]) for i in reversed(range(8))]
            trace.append('append_bytes')
    total = enc.chunks_number_of_bits + enc.number_of_bits
    if total != len(model):
        return trace, None, 'bit count %r, model %d' % (total, len(model))
    out = enc.as_bytearray()
    padded = model + [z3.BitVecVal(0, 1)] * ((-len(model)) % 8)
    want = [z3.Concat(*padded[i:i + 8]) for i in range(0, len(padded), 8)]
    if len(out) != len(want):
        return trace, None, 'as_bytearray gives %d octets, model %d' % (len(out), len(want))
    cells = out.c if isinstance(out, SymBytes) else [z3.BitVecVal(b, 8) for b in out]
    cond = z3.And([a == b for a, b in zip(cells, want)]) if want else z3.BoolVal(True)
    return trace, cond, None


def oer_encoder_step(ctx, mod):
    enc = mod.Encoder()
    big = ctx.job.get('tier') == 'thorough'
    nb = ctx.choose('tail.nbits', 20 if big else 10)
    v = _sym_value(ctx, 'tail', nb)
    enc.value = v
    enc.number_of_bits = nb
    model = _bits_of(v, nb)
    trace = []
    for k in range(1 + ctx.choose('nops', 2)):
        op = ctx.choose('op%d' % k, 4)
        if op == 0:
            b = _sym_value(ctx, 'op%d.bit' % k, 1)
            enc.append_bit(b)
            model += _bits_of(b, 1)
            trace.append('append_bit')
        elif op == 1:
            n = (1 + ctx.choose('op%d.n' % k, 9)) if big else (1, 7, 8, 9)[ctx.choose('op%d.n' % k, 4)]
            x = _sym_value(ctx, 'op%d.v' % k, n)
            enc.append_non_negative_binary_integer(x, n)
            model += _bits_of(x, n)
            trace.append('append_non_negative_binary_integer/%d' % n)
        elif op == 2:
            enc.align()
            model += [z3.BitVecVal(0, 1)] * ((-len(model)) % 8)
            trace.append('align')
        else:
            x = ctx.bytes('op%d.b' % k, 1)
            enc.append_bytes(x)
            model += [z3.Extract(i, i, x.c[0]) for i in reversed(range(8))]
            trace.append('append_bytes')
    if enc.number_of_bits != len(model):
        return trace, None, 'bit count %r, model %d' % (enc.number_of_bits, len(model))
    enc.align()
    model += [z3.BitVecVal(0, 1)] * ((-len(model)) % 8)
    out = enc.as_bytearray()
    want = [z3.Concat(*model[i:i + 8]) for i in range(0, len(model), 8)]
    if len(out) != len(want):
        return trace, None, 'as_bytearray gives %d octets, model %d' % (len(out), len(want))
    cells = out.c if isinstance(out, SymBytes) else [z3.BitVecVal(b, 8) for b in out]
    cond = z3.And([a == b for a, b in zip(cells, want)]) if want else z3.BoolVal(True)
    return trace, cond, None


def length_determinant_roundtrip(ctx, mod, which):
    """encode a symbolic length n < 2^32 (content-free) and read it back"""
    n = ctx.int('n', 0, (1 << 32) - 1)
    enc = mod.Encoder()
    if which == 'oer':
        enc.append_length_determinant(n)
        dec = mod.Decoder(enc.as_bytearray())
        got = dec.read_length_determinant()
        left = dec.number_of_bits
        return (got == n), left
    raise ValueError(which)
