"""Symbolic ASN.1 values driven by the *parsed* specification dictionary.

``Gen.value(ctx, tdesc)`` builds a Python value of the shape asn1tools expects,
with symbolic leaves (SymInt / SymBytes / SymStr) and shape choices (presence of
OPTIONAL/DEFAULT members, CHOICE alternative, list lengths, ENUMERATED item,
BOOLEAN) explored by forking.  ``equiv`` builds the z3 formula "decoded value is
the same abstract value" with the equivalences of the property statement.
``concretize`` evaluates a value tree under a solver model.

The interpretation of the parsed dictionary here (constraint bounds, defaults,
named bits) is written independently of asn1tools' compiler.
"""
import itertools
import re
import math
import z3

from symcore import Inconclusive, HarnessError
from pyfront import SymInt, SymBool, SymBytes, SymStr, to_z3bool, cell_to_int, need, fit

STRING_TYPES = {
    'IA5String': ('ascii', 0x7f), 'VisibleString': ('ascii', 0x7f), 'NumericString': ('ascii', 0x7f),
    'PrintableString': ('ascii', 0x7f), 'UTF8String': ('utf-8', 0x10ffff),
    'BMPString': ('utf-16-be', 0xffff), 'UniversalString': ('utf-32-be', 0x10ffff),
    'GeneralString': ('latin-1', 0xff), 'GraphicString': ('latin-1', 0xff),
    'TeletexString': ('latin-1', 0xff), 'ObjectDescriptor': ('latin-1', 0xff),
}
DEFAULT_ALPHABETS = {
    'NumericString': ' 0123456789',
    'PrintableString': "ABCDEFGHIJKLMNOPQRSTUVWXYZabcdefghijklmnopqrstuvwxyz0123456789 '()+,-./:=?",
    'IA5String': ''.join(chr(i) for i in range(128)),
    'VisibleString': ''.join(chr(i) for i in range(32, 127)),
}


def _runs(alphabet):
    """sorted code point runs [(a, b)] of a string of characters"""
    cps = sorted(set(ord(c) for c in alphabet))
    runs = []
    for c in cps:
        if runs and runs[-1][1] == c - 1:
            runs[-1][1] = c
        else:
            runs.append([c, c])
    return [tuple(r) for r in runs]


def from_alphabet(td):
    """characters admitted by a FROM constraint (single characters and ranges), or None"""
    f = td.get('from')
    if not f:
        return None
    if None in f:
        return None          # extensible permitted alphabet: not checked
    out = set()
    for item in f:
        if isinstance(item, tuple):
            for c in range(ord(item[0]), ord(item[1]) + 1):
                out.add(chr(c))
        else:
            out.update(item)
    return ''.join(sorted(out))


class Bounds:
    def __init__(self, int_abs=1 << 40, n_len=2, depth=3, str_len=2, oid_arcs=3, arc_max=1 << 20,
                 real='special', free=False, margin=1 << 17, free_len_cap=5, complete_additions=False):
        self.int_abs = int_abs
        self.n_len = n_len
        self.depth = depth
        self.str_len = str_len
        self.oid_arcs = oid_arcs
        self.arc_max = arc_max
        self.real = real
        # free: values are NOT confined to the declared constraints (C11/C12): integers range
        # `margin` beyond both bounds, lengths from 0 to one past the upper bound
        self.free = free
        self.margin = margin
        self.free_len_cap = free_len_cap
        # complete_additions: mandatory extension additions (and groups with a mandatory member)
        # are always present, i.e. only values of the *current* version of the type (text codecs
        # refuse values of earlier versions with an EncodeError)
        self.complete_additions = complete_additions

    def as_dict(self):
        return dict(vars(self))


class Spec:
    """read-only view of a parsed specification dictionary"""

    def __init__(self, parsed):
        self.parsed = parsed

    def lookup(self, kind, name, module):
        m = self.parsed[module]
        if name in m[kind]:
            return m[kind][name], module
        for imod, names in m.get('imports', {}).items():
            if name in names:
                return self.lookup(kind, name, imod)
        raise KeyError(name)

    def resolve(self, td, module):
        """follow type references; returns (descriptor with builtin type, module, chain)"""
        chain = []
        seen = 0
        while td['type'] not in BUILTIN:
            seen += 1
            if seen > 50:
                raise HarnessError('reference loop')
            ref, module = self.lookup('types', td['type'], module)
            chain.append(td)
            # constraints on the reference override/narrow those of the referenced type
            merged = dict(ref)
            for k in ('restricted-to', 'size', 'from'):
                if k in td:
                    merged[k] = td[k]
            td = merged
        if td['type'] in ('SEQUENCE', 'SET') and any(
                isinstance(m, dict) and 'components-of' in m for m in td['members']):
            td = dict(td)
            td['members'] = self._expand_components_of(td['members'], module)
        return td, module, chain

    def _expand_components_of(self, members, module):
        out = []
        for m in members:
            if isinstance(m, dict) and 'components-of' in m:
                ref, rmod, _c = self.resolve({'type': m['components-of']}, module)
                for mm in ref['members']:
                    if mm is None:
                        break          # X.680 25.5: only the root components are included
                    out.append(mm)
            else:
                out.append(m)
        return out

    def int_value(self, v, module, td=None):
        if isinstance(v, int):
            return v
        if isinstance(v, str):
            if td is not None:
                for n, num in td.get('named-numbers', {}).items() if isinstance(td.get('named-numbers'), dict) else []:
                    if n == v:
                        return num
            val, _ = self.lookup('values', v, module)
            return self.int_value(val['value'], module)
        raise HarnessError('unsupported bound %r' % (v,))


BUILTIN = {'INTEGER', 'BOOLEAN', 'NULL', 'ENUMERATED', 'BIT STRING', 'OCTET STRING', 'REAL',
           'OBJECT IDENTIFIER', 'SEQUENCE', 'SET', 'CHOICE', 'SEQUENCE OF', 'SET OF',
           'UTCTime', 'GeneralizedTime', 'DATE', 'TIME-OF-DAY', 'DATE-TIME', 'ANY', 'EXTERNAL',
           'ANY DEFINED BY'} | set(STRING_TYPES)


def int_range(spec, td, module):
    """(lo, hi, extensible) from a single value / single range constraint; None = unbounded"""
    r = td.get('restricted-to')
    if not r:
        return None, None, False
    ext = None in r
    first = r[0]
    if isinstance(first, tuple):
        lo, hi = first
    else:
        lo = hi = first
    lo = None if lo == 'MIN' else spec.int_value(lo, module, td)
    hi = None if hi == 'MAX' else spec.int_value(hi, module, td)
    return lo, hi, ext


def size_range(spec, td, module):
    r = td.get('size')
    if not r:
        return None, None, False
    ext = None in r
    first = r[0]
    if isinstance(first, tuple):
        lo, hi = first
    else:
        lo = hi = first
    lo = 0 if lo == 'MIN' else spec.int_value(lo, module)
    hi = None if hi == 'MAX' else spec.int_value(hi, module)
    return lo, hi, ext


def members_of(td):
    """[(member, is_addition)] flattened; groups flattened"""
    out = []
    state = 0
    for m in td['members']:
        if m is None:
            state += 1
            continue
        if isinstance(m, list):
            for mm in m:
                out.append((mm, True))
        else:
            out.append((m, state == 1))
    return out


def members_split(td):
    """root members, additions (each addition a member or a list = group), trailing root"""
    root, adds = [], []
    state = 0
    for m in td['members']:
        if m is None:
            state += 1
            continue
        if state == 0 or state >= 2:
            root.append(m)
        else:
            adds.append(m)
    return root, adds, state > 0


def enum_items(td):
    out = []
    ext = False
    for v in td['values']:
        if v is None:
            ext = True
            continue
        out.append((v[0], v[1], ext))
    return out, (None in td['values'])


class Gen:
    def __init__(self, parsed, bounds=None, numeric_enums=False, tie=None):
        self.spec = Spec(parsed)
        self.b = bounds or Bounds()
        self.numeric_enums = numeric_enums
        # tie: regex; optional members of one SEQUENCE/SET whose names match share a single
        # presence flag (bounds the 2^n presence patterns of many-addition templates)
        self.tie = re.compile(tie) if tie else None

    # ------------------------------------------------------------------ build
    def value(self, ctx, td, module, path='v', depth=0):
        spec = self.spec
        rtd, rmod, _ = spec.resolve(td, module)
        t = rtd['type']
        b = self.b
        if depth > b.depth:
            raise Inconclusive('value nesting deeper than bound')
        if t == 'INTEGER':
            lo, hi, ext = int_range(spec, rtd, rmod)
            if b.free:
                lo2 = (lo if lo is not None else (hi if hi is not None else 0)) - b.margin
                hi2 = (hi if hi is not None else (lo if lo is not None else 0)) + b.margin
                return ctx.int(path, lo2, hi2)
            if ext or lo is None:
                lo2 = -b.int_abs
            else:
                lo2 = lo
            if ext or hi is None:
                hi2 = b.int_abs
            else:
                hi2 = hi
            if lo is not None and lo > hi2:
                hi2 = lo + b.int_abs
            if hi is not None and hi < lo2:
                lo2 = hi - b.int_abs
            return ctx.int(path, lo2, hi2)
        if t == 'BOOLEAN':
            return ctx.flag(path)
        if t == 'NULL':
            return None
        if t == 'ENUMERATED':
            items, _ = enum_items(rtd)
            k = ctx.choose(path, len(items))
            return items[k][1] if self.numeric_enums else items[k][0]
        if t == 'OCTET STRING':
            n = self._length(ctx, path, size_range(spec, rtd, rmod), b.n_len)
            return ctx.bytes(path, n)
        if t == 'BIT STRING':
            lo, hi, ext = size_range(spec, rtd, rmod)
            maxbits = 8 * b.n_len
            if b.free:
                ext, lo = True, 0
                hi = (hi + 1) if hi is not None else maxbits
            lo2 = lo or 0
            hi2 = (hi if b.free else maxbits) if (hi is None or ext) else min(hi, max(maxbits, lo2))
            if lo2 > hi2:
                hi2 = lo2
            if ext:
                lo2 = 0
            nbits = ctx.int(path + '.nbits', lo2, hi2)
            nbmin, nbmax = (lo2 + 7) // 8, (hi2 + 7) // 8
            nbytes = nbmin + ctx.choose(path + '.nbytes', nbmax - nbmin + 1)
            # minimal number of octets for the bit count (extra octets are outside the bound)
            ctx.assume(SymBool(z3.And(to_z3bool(nbits <= 8 * nbytes),
                                      to_z3bool(nbits > 8 * (nbytes - 1)))))
            return (ctx.bytes(path, nbytes), nbits)
        if t in STRING_TYPES:
            enc, maxcp = STRING_TYPES[t]
            n = self._length(ctx, path, size_range(spec, rtd, rmod), b.str_len)
            cps = []
            inherent = DEFAULT_ALPHABETS.get(t)
            for i in range(n):
                c = ctx.bv('%s[%d]' % (path, i), SymStr.CPW)
                if inherent is not None:
                    # characters of the type's own alphabet (X.680 table 8); what a FROM
                    # constraint further removes is up to the constraint checker
                    ctx.eng.assume(z3.Or([z3.And(z3.UGE(c, a), z3.ULE(c, b2))
                                          for a, b2 in _runs(inherent)]))
                else:
                    ctx.eng.assume(z3.And(z3.ULE(c, maxcp),
                                          z3.Not(z3.And(z3.UGE(c, 0xd800), z3.ULE(c, 0xdfff)))))
                cps.append(c)
            return SymStr(cps)
        if t in ('SEQUENCE', 'SET'):
            out = {}
            tied = None
            deep = depth >= b.depth
            root, adds, _ext = members_split(rtd)

            def member(m, forced_absent=False):
                """returns True when the member is present in the value"""
                nonlocal tied
                name = m['name']
                optional = m.get('optional', False) or ('default' in m)
                if forced_absent:
                    return False
                if optional:
                    if not self._fits(m, rmod, depth + 1):
                        return False
                    if self.tie is not None and self.tie.match(name):
                        if tied is None:
                            tied = ctx.flag('%s.<tied>?' % path)
                        if not tied:
                            return False
                    elif not ctx.flag('%s.%s?' % (path, name)):
                        return False
                out[name] = self.value(ctx, m, rmod, '%s.%s' % (path, name), depth + 1)
                return True
            for m in root:
                member(m)
            # extension additions: the value is a value of *some version* of the type, i.e.
            # once a mandatory addition (or a group with a mandatory member) is absent every
            # later addition is absent too
            cut = False
            for a in adds:
                if cut:
                    break
                if isinstance(a, list):
                    mandatory = [m for m in a if not (m.get('optional') or 'default' in m)]
                    present = (b.complete_additions and bool(mandatory)) or ctx.flag('%s.[[%s]]?' % (path, a[0]['name']))
                    if present:
                        for m in a:
                            member(m)
                    elif mandatory:
                        cut = True
                else:
                    mand = not (a.get('optional') or 'default' in a)
                    if mand and b.complete_additions:
                        out[a['name']] = self.value(ctx, a, rmod, '%s.%s' % (path, a['name']), depth + 1)
                    elif mand:
                        if self.tie is not None and self.tie.match(a['name']):
                            if tied is None:
                                tied = ctx.flag('%s.<tied>?' % path)
                            present = tied
                        else:
                            present = ctx.flag('%s.%s?' % (path, a['name']))
                        if present:
                            out[a['name']] = self.value(ctx, a, rmod, '%s.%s' % (path, a['name']), depth + 1)
                        else:
                            cut = True
                    else:
                        member(a)
            return out
        if t == 'CHOICE':
            ms = members_of(rtd)
            ms = [x for x in ms if self._fits(x[0], rmod, depth + 1)]
            if not ms:
                raise Inconclusive('value nesting deeper than bound')
            k = ctx.choose(path + '!', len(ms))
            m = ms[k][0]
            return (m['name'], self.value(ctx, m, rmod, '%s.%s' % (path, m['name']), depth + 1))
        if t in ('SEQUENCE OF', 'SET OF'):
            cap = b.n_len
            if not self._fits(rtd['element'], rmod, depth + 1):
                cap = 0
            n = self._length(ctx, path, size_range(spec, rtd, rmod), cap)
            return [self.value(ctx, rtd['element'], rmod, '%s[%d]' % (path, i), depth + 1)
                    for i in range(n)]
        if t == 'OBJECT IDENTIFIER':
            return self._oid(ctx, path)
        if t == 'REAL':
            return self._real(ctx, path)
        raise Inconclusive('type %s outside the symbolic value generator' % t)

    def mindepth(self, td, module, _busy=None):
        """least nesting depth any value of the type needs (inf for unavoidable recursion)"""
        _busy = _busy or ()
        rtd, rmod, _c = self.spec.resolve(td, module)
        t = rtd['type']
        key = (id(rtd.get('members', rtd.get('element'))), t)
        if t not in ('SEQUENCE', 'SET', 'CHOICE', 'SEQUENCE OF', 'SET OF'):
            return 0
        if key in _busy:
            return float('inf')
        busy = _busy + (key,)
        if t in ('SEQUENCE', 'SET'):
            root, _adds, _e = members_split(rtd)
            ds = [self.mindepth(m, rmod, busy) for m in root
                  if not (m.get('optional') or 'default' in m)]
            return 1 + max(ds) if ds else 0
        if t == 'CHOICE':
            return 1 + min(self.mindepth(m, rmod, busy) for m, _a in members_of(rtd))
        lo, _hi, ext = size_range(self.spec, rtd, rmod)
        if not lo or ext:
            return 0
        return 1 + self.mindepth(rtd['element'], rmod, busy)

    def _fits(self, td, module, depth):
        """can a value of td be placed at nesting depth `depth` within the bound?"""
        return depth + self.mindepth(td, module) <= self.b.depth

    def _length(self, ctx, path, rng, cap):
        lo, hi, ext = rng
        if self.b.free:
            top = cap
            if hi is not None:
                top = min(hi + 1, self.b.free_len_cap)
            elif lo:
                top = min(lo + 1, self.b.free_len_cap)
            return ctx.choose(path + '#', top + 1)
        lo = lo or 0
        if ext:
            lo, hi = 0, None
        if hi is None or hi > max(cap, lo):
            hi = max(cap, lo)
        return lo + ctx.choose(path + '#', hi - lo + 1)

    def _oid(self, ctx, path):
        from lib.oid import SymOid
        n = 2 + ctx.choose(path + '#', self.b.oid_arcs - 1)
        a0 = ctx.int(path + '.0', 0, 2)
        arcs = [a0]
        for i in range(1, n):
            arcs.append(ctx.int('%s.%d' % (path, i), 0, self.b.arc_max))
        # X.660: second arc < 40 under roots 0 and 1
        ctx.assume(SymBool(z3.Or(to_z3bool(a0 == 2), to_z3bool(arcs[1] < 40))))
        return SymOid(arcs)

    def _real(self, ctx, path):
        vals = [0.0, 1.0, -1.5, float('inf'), float('-inf'), 1e-300, 3.0e38, 0.1]
        k = ctx.choose(path, len(vals))
        return vals[k]


# ---------------------------------------------------------------------------
def concretize(v, model):
    """value tree -> plain python value under a z3 model"""
    if isinstance(v, SymInt):
        return model.eval(v.e, model_completion=True).as_signed_long()
    if isinstance(v, SymBool):
        return z3.is_true(model.eval(v.e, model_completion=True))
    if isinstance(v, SymBytes):
        return v.concrete(model)
    if isinstance(v, SymStr):
        return v.concrete(model)
    if isinstance(v, dict):
        return {k: concretize(x, model) for k, x in v.items()}
    if isinstance(v, list):
        return [concretize(x, model) for x in v]
    if isinstance(v, tuple):
        return tuple(concretize(x, model) for x in v)
    if hasattr(v, 'concretize'):
        return v.concretize(model)
    if isinstance(v, bytearray):
        return bytes(v)
    return v


def jsonable(v):
    if isinstance(v, (bytes, bytearray)):
        return {'hex': bytes(v).hex()}
    if isinstance(v, dict):
        return {k: jsonable(x) for k, x in v.items()}
    if isinstance(v, list):
        return [jsonable(x) for x in v]
    if isinstance(v, tuple):
        return {'tuple': [jsonable(x) for x in v]}
    if isinstance(v, float):
        return {'float': repr(v)}
    return v


def unjson(v):
    if isinstance(v, dict):
        if set(v) == {'hex'}:
            return bytes.fromhex(v['hex'])
        if set(v) == {'tuple'}:
            return tuple(unjson(x) for x in v['tuple'])
        if set(v) == {'float'}:
            return float(v['float'])
        return {k: unjson(x) for k, x in v.items()}
    if isinstance(v, list):
        return [unjson(x) for x in v]
    return v


# ---------------------------------------------------------------------------
# equivalence of a decoded value with the original
# ---------------------------------------------------------------------------
class Mismatch(Exception):
    pass


def _leaf_eq(a, b):
    r = (a == b)
    if r is NotImplemented:
        return z3.BoolVal(False)
    if isinstance(r, SymBool):
        return r.e
    return z3.BoolVal(bool(r))


def _bit(data, i):
    """bit i (0 = MSB of first octet) of bytes-like as BV1 expr"""
    byte = data[i // 8]
    if isinstance(byte, SymInt):
        return z3.Extract(7 - i % 8, 7 - i % 8, byte.e)
    return z3.BitVecVal((int(byte) >> (7 - i % 8)) & 1, 1)


def _bits_equiv(a, b, named, W=None):
    (da, na), (db, nb) = a, b
    W = max([x.e.size() for x in (na, nb) if isinstance(x, SymInt)] +
            [need(int(x), int(x)) for x in (na, nb) if not isinstance(x, SymInt)] + [16]) + 1

    def nexpr(n):
        return fit(n.e, W) if isinstance(n, SymInt) else z3.BitVecVal(int(n), W)
    na_e, nb_e = nexpr(na), nexpr(nb)
    maxbits = max(8 * len(da), 8 * len(db))
    conds = []
    if not named:
        conds.append(na_e == nb_e)
    for i in range(maxbits):
        ba = _bit(da, i) if i < 8 * len(da) else z3.BitVecVal(0, 1)
        bb = _bit(db, i) if i < 8 * len(db) else z3.BitVecVal(0, 1)
        ia = z3.If(z3.BitVecVal(i, W) < na_e, ba, z3.BitVecVal(0, 1))
        ib = z3.If(z3.BitVecVal(i, W) < nb_e, bb, z3.BitVecVal(0, 1))
        conds.append(ia == ib)
    # number of bits may not exceed the data
    return z3.And(conds) if conds else z3.BoolVal(True)


class Equiv:
    def __init__(self, gen, W):
        self.gen = gen
        self.spec = gen.spec
        self.W = W

    def default_value(self, m, rtd, rmod):
        """expected decoded representation of a DEFAULT, computed from the parsed text"""
        d = m['default']
        t = rtd['type']
        if t == 'BIT STRING':
            if isinstance(d, list):   # named bit list
                nb = {n: int(p) for n, p in rtd.get('named-bits', [])}
                if not d:
                    return (b'', 0)
                top = max(nb[n] for n in d)
                val = bytearray((top + 8) // 8)
                for n in d:
                    val[nb[n] // 8] |= 0x80 >> (nb[n] % 8)
                return (bytes(val), top + 1)
            if isinstance(d, str) and d.startswith('0b'):
                bits = d[2:]
                n = len(bits)
                if n == 0:
                    return (b'', 0)
                v = int(bits, 2) << ((8 - n % 8) % 8)
                return (v.to_bytes((n + 7) // 8, 'big'), n)
            if isinstance(d, str) and d.startswith('0x'):
                h = d[2:]
                if len(h) % 2:
                    h += '0'
                return (bytes.fromhex(h), 4 * len(d[2:]))
            if isinstance(d, tuple):
                return d
            raise Inconclusive('BIT STRING default form %r' % (d,))
        if t == 'OCTET STRING':
            if isinstance(d, str) and d.startswith('0x'):
                h = d[2:]
                if len(h) % 2:
                    h += '0'
                return bytes.fromhex(h)
            if isinstance(d, str) and d.startswith('0b'):
                bits = d[2:]
                bits += '0' * ((8 - len(bits) % 8) % 8)
                return int(bits, 2).to_bytes(len(bits) // 8, 'big') if bits else b''
            if isinstance(d, (bytes, bytearray)):
                return bytes(d)
            raise Inconclusive('OCTET STRING default form %r' % (d,))
        if t == 'ENUMERATED':
            items, _ = enum_items(rtd)
            for name, num, _e in items:
                if d == name or d == num:
                    return num if self.gen.numeric_enums else name
            raise Inconclusive('ENUMERATED default %r' % (d,))
        if t == 'INTEGER':
            return self.spec.int_value(d, rmod, rtd) if not isinstance(d, int) else d
        if t == 'BOOLEAN':
            if isinstance(d, bool):
                return d
            if d in ('TRUE', 'FALSE'):
                return d == 'TRUE'
        if t == 'REAL' and isinstance(d, (int, float)):
            return float(d)
        if t in STRING_TYPES and isinstance(d, str):
            return d
        if t == 'NULL':
            return None
        raise Inconclusive('default %r of %s outside the oracle' % (d, t))

    def equiv(self, orig, dec, td, module):
        """z3 Bool: dec is the abstract value orig; raises Mismatch(reason) on shape mismatch"""
        conds = []
        self._eq(orig, dec, td, module, conds, 'v')
        return z3.And(conds) if conds else z3.BoolVal(True)

    def _eq(self, o, d, td, module, conds, path):
        rtd, rmod, _ = self.spec.resolve(td, module)
        t = rtd['type']
        if t in ('SEQUENCE', 'SET'):
            if not isinstance(d, dict):
                raise Mismatch('%s: expected dict, got %r' % (path, type(d).__name__))
            names = set()
            for m, is_add in members_of(rtd):
                name = m['name']
                names.add(name)
                if name in o:
                    if name not in d:
                        raise Mismatch('%s.%s: member lost' % (path, name))
                    self._eq(o[name], d[name], m, rmod, conds, path + '.' + name)
                elif 'default' in m:
                    if name not in d:
                        raise Mismatch('%s.%s: absent DEFAULT member not restored' % (path, name))
                    mt, mm, _ = self.spec.resolve(m, rmod)
                    dv = self.default_value(m, mt, mm)
                    self._eq(dv, d[name], m, rmod, conds, path + '.' + name)
                elif name in d:
                    raise Mismatch('%s.%s: member appeared' % (path, name))
            extra = set(d) - names
            if extra:
                raise Mismatch('%s: unknown members %s' % (path, sorted(extra)))
            return
        if t == 'CHOICE':
            if not (isinstance(d, tuple) and len(d) == 2):
                raise Mismatch('%s: expected (name, value)' % path)
            if d[0] != o[0]:
                raise Mismatch('%s: alternative %r decoded as %r' % (path, o[0], d[0]))
            for m, _a in members_of(rtd):
                if m['name'] == o[0]:
                    self._eq(o[1], d[1], m, rmod, conds, path + '.' + o[0])
                    return
            raise Mismatch('%s: unknown alternative' % path)
        if t in ('SEQUENCE OF', 'SET OF'):
            if not isinstance(d, list) or len(d) != len(o):
                raise Mismatch('%s: list length %d decoded as %r' % (path, len(o), d if not isinstance(d, list) else len(d)))
            if t == 'SEQUENCE OF' or len(o) <= 1:
                for i, (x, y) in enumerate(zip(o, d)):
                    self._eq(x, y, rtd['element'], rmod, conds, '%s[%d]' % (path, i))
                return
            alts = []
            for perm in itertools.permutations(range(len(o))):
                cs = []
                try:
                    for i, j in enumerate(perm):
                        self._eq(o[i], d[j], rtd['element'], rmod, cs, '%s[%d]' % (path, i))
                except Mismatch:
                    continue
                alts.append(z3.And(cs) if cs else z3.BoolVal(True))
            if not alts:
                raise Mismatch('%s: SET OF elements do not match in any order' % path)
            conds.append(z3.Or(alts))
            return
        if t == 'BIT STRING':
            if not (isinstance(d, tuple) and len(d) == 2):
                raise Mismatch('%s: expected (bytes, nbits)' % path)
            conds.append(_bits_equiv(o, d, 'named-bits' in rtd, self.W))
            return
        if t == 'NULL':
            if d is not None:
                raise Mismatch('%s: NULL decoded as %r' % (path, d))
            return
        if t == 'BOOLEAN':
            if isinstance(d, SymBool):
                conds.append(d.e if o else z3.Not(d.e))
                return
            if type(d) is not bool or d != o:
                raise Mismatch('%s: BOOLEAN %r decoded as %r' % (path, o, d))
            return
        if t == 'REAL':
            if isinstance(o, float) and isinstance(d, float):
                if (math.isnan(o) and math.isnan(d)) or o == d:
                    return
            raise Mismatch('%s: REAL %r decoded as %r' % (path, o, d))
        if t == 'ENUMERATED':
            if isinstance(d, (SymInt, int)) and isinstance(o, int) and not isinstance(o, bool):
                conds.append(_leaf_eq(o, d))
                return
            if type(d) is not type(o) or d != o:
                raise Mismatch('%s: ENUMERATED %r decoded as %r' % (path, o, d))
            return
        if t == 'OBJECT IDENTIFIER':
            from lib.oid import oid_equiv
            conds.append(oid_equiv(o, d))
            return
        if t == 'INTEGER':
            if not isinstance(d, (int, SymInt)) or isinstance(d, bool):
                raise Mismatch('%s: INTEGER decoded as %r' % (path, type(d).__name__))
            conds.append(_leaf_eq(o, d))
            return
        if t == 'OCTET STRING':
            if not isinstance(d, (bytes, bytearray, SymBytes)):
                raise Mismatch('%s: OCTET STRING decoded as %r' % (path, type(d).__name__))
            if len(d) != len(o):
                raise Mismatch('%s: OCTET STRING length %d decoded as %d' % (path, len(o), len(d)))
            conds.append(_leaf_eq(o if isinstance(o, SymBytes) else SymBytes(o), d))
            return
        if t in STRING_TYPES:
            if not isinstance(d, (str, SymStr)):
                raise Mismatch('%s: string decoded as %r' % (path, type(d).__name__))
            if len(d) != len(o):
                raise Mismatch('%s: string length %d decoded as %d' % (path, len(o), len(d)))
            conds.append(_leaf_eq(SymStr.of(o), d))
            return
        raise Inconclusive('equivalence for type %s' % t)


# ---------------------------------------------------------------------------
# independent interpreter of the parsed constraints (C11): does a value violate a
# non-extensible single-value / single-range / SIZE / FROM constraint?
# ---------------------------------------------------------------------------
class ConstraintOracle:
    def __init__(self, gen):
        self.gen = gen
        self.spec = gen.spec

    def violates(self, v, td, module):
        """z3 Bool: some component of v is outside a constraint the tool interprets"""
        out = []
        self._walk(v, td, module, out)
        return z3.Or(out) if out else z3.BoolVal(False)

    def _rng(self, x, lo, hi):
        conds = []
        if lo is not None:
            conds.append(to_z3bool(x < lo))
        if hi is not None:
            conds.append(to_z3bool(x > hi))
        return conds

    def _walk(self, v, td, module, out):
        rtd, rmod, _c = self.spec.resolve(td, module)
        t = rtd['type']
        if t == 'INTEGER':
            lo, hi, ext = int_range(self.spec, rtd, rmod)
            if not ext and isinstance(v, (int, SymInt)):
                out.extend(self._rng(v, lo, hi))
            return
        if t in ('OCTET STRING',) or t in STRING_TYPES:
            lo, hi, ext = size_range(self.spec, rtd, rmod)
            if 'size' in rtd and not ext:
                out.extend(self._rng(len(v), lo, hi))
            if t in STRING_TYPES:
                alpha = from_alphabet(rtd)
                if alpha is not None and isinstance(v, (str, SymStr)):
                    for c in SymStr.of(v).cp:
                        e = SymStr._e(c)
                        out.append(z3.Not(z3.Or([z3.And(z3.UGE(e, a), z3.ULE(e, b2))
                                                 for a, b2 in _runs(alpha)])))
            return
        if t == 'BIT STRING':
            lo, hi, ext = size_range(self.spec, rtd, rmod)
            if 'size' in rtd and not ext:
                out.extend(self._rng(v[1], lo, hi))
            return
        if t in ('SEQUENCE OF', 'SET OF'):
            lo, hi, ext = size_range(self.spec, rtd, rmod)
            if 'size' in rtd and not ext:
                out.extend(self._rng(len(v), lo, hi))
            for x in v:
                self._walk(x, rtd['element'], rmod, out)
            return
        if t in ('SEQUENCE', 'SET'):
            for m, _a in members_of(rtd):
                if m['name'] in v:
                    self._walk(v[m['name']], m, rmod, out)
            return
        if t == 'CHOICE':
            for m, _a in members_of(rtd):
                if m['name'] == v[0]:
                    self._walk(v[1], m, rmod, out)
            return


# ---------------------------------------------------------------------------
# generic structural equality of two decoded values (same library, two codec objects)
# ---------------------------------------------------------------------------
def struct_eq(a, b, conds, path='v'):
    """appends z3 conditions for a == b; raises Mismatch on a shape/type difference"""
    if isinstance(a, dict) or isinstance(b, dict):
        if not (isinstance(a, dict) and isinstance(b, dict)) or set(a) != set(b):
            raise Mismatch('%s: %r vs %r' % (path, a, b))
        for k in a:
            struct_eq(a[k], b[k], conds, '%s.%s' % (path, k))
        return
    if isinstance(a, (list, tuple)) or isinstance(b, (list, tuple)):
        if type(a) is not type(b) or len(a) != len(b):
            raise Mismatch('%s: %r vs %r' % (path, a, b))
        for i, (x, y) in enumerate(zip(a, b)):
            struct_eq(x, y, conds, '%s[%d]' % (path, i))
        return
    if isinstance(a, (bool, type(None))) or isinstance(b, (bool, type(None))):
        if type(a) is not type(b) or a != b:
            if isinstance(a, SymBool) or isinstance(b, SymBool):
                conds.append(_leaf_eq(a, b))
                return
            raise Mismatch('%s: %r vs %r' % (path, a, b))
        return
    if isinstance(a, float) and isinstance(b, float):
        if not (a == b or (math.isnan(a) and math.isnan(b))):
            raise Mismatch('%s: %r vs %r' % (path, a, b))
        return
    kinds = []
    for x in (a, b):
        if isinstance(x, (int, SymInt)):
            kinds.append('int')
        elif isinstance(x, (bytes, bytearray, SymBytes)):
            kinds.append('bytes')
        elif isinstance(x, (str, SymStr)):
            kinds.append('str')
        else:
            kinds.append(type(x).__name__)
    if kinds[0] != kinds[1]:
        raise Mismatch('%s: %s %r vs %s %r' % (path, kinds[0], a, kinds[1], b))
    if kinds[0] in ('bytes', 'str'):
        if len(a) != len(b):
            raise Mismatch('%s: length %d vs %d' % (path, len(a), len(b)))
        if kinds[0] == 'bytes':
            a = a if isinstance(a, SymBytes) else SymBytes(a)
        else:
            a = SymStr.of(a)
    conds.append(_leaf_eq(a, b))
