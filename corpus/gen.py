"""Generated template family: every leaf type variant in every structural position.

The hand-written corpus (corpus/__init__.py) grew by one template per missed seeded change
(DESIGN.md section 13: most misses were a missing *shape*, not a missing value).  This family
closes that dimension systematically: LEAVES x CONTAINERS, deterministic, each template tiny.
ids: ``g/<container>/<leaf>``; feats: {'gen', container, leaf-kind}.
"""

LEAVES = [
    # (id, kind, type text, DEFAULT literal or None)
    ('bool', 'bool', 'BOOLEAN', 'TRUE'),
    ('null', 'null', 'NULL', None),
    ('int', 'int', 'INTEGER', '-3'),
    ('int-0-7', 'int', 'INTEGER (0..7)', '3'),
    ('int-m5-300', 'int', 'INTEGER (-5..300)', '256'),
    ('int-0-255', 'int', 'INTEGER (0..255)', '128'),
    ('int-0-256', 'int', 'INTEGER (0..256)', '256'),
    ('int-m128-127', 'int', 'INTEGER (-128..127)', '-128'),
    ('int-m129-127', 'int', 'INTEGER (-129..127)', '-129'),
    ('int-0-65535', 'int', 'INTEGER (0..65535)', '256'),
    ('int-0-65536', 'int', 'INTEGER (0..65536)', '65536'),
    ('int-u32', 'int', 'INTEGER (0..4294967295)', '65536'),
    ('int-ext', 'int', 'INTEGER (0..10, ...)', '11'),
    ('int-min', 'int', 'INTEGER (MIN..7)', '-200'),
    ('int-max', 'int', 'INTEGER (3..MAX)', '300'),
    ('int-single', 'int', 'INTEGER (5)', None),
    ('int-named', 'int', 'INTEGER { one(1), ten(10) } (0..10)', '10'),
    ('enum', 'enum', 'ENUMERATED { a, b, c }', 'b'),
    ('enum-neg', 'enum', 'ENUMERATED { below(-1), nominal(0), above(2) }', 'below'),
    ('enum-wide-neg', 'enum', 'ENUMERATED { lo(-200), mid(3), hi(100) }', 'lo'),
    ('enum-gaps', 'enum', 'ENUMERATED { u(5), v(2), w(9), x(128), y(40000) }', 'x'),
    ('enum-ext', 'enum', 'ENUMERATED { a, b, ..., c, d }', 'c'),
    ('enum-one', 'enum', 'ENUMERATED { only }', None),
    ('bits', 'bits', 'BIT STRING', "'101'B"),
    ('bits-5', 'bits', 'BIT STRING (SIZE(5))', "'10100'B"),
    ('bits-9', 'bits', 'BIT STRING (SIZE(9))', None),
    ('bits-1-12', 'bits', 'BIT STRING (SIZE(1..12))', "'1'B"),
    ('bits-named', 'bits', 'BIT STRING { a(0), b(3), c(9) }', '{ b }'),
    ('bits-ext', 'bits', 'BIT STRING (SIZE(0..3, ...))', None),
    ('octets', 'octets', 'OCTET STRING', "'0102'H"),
    ('octets-2', 'octets', 'OCTET STRING (SIZE(2))', "'0102'H"),
    ('octets-1-3', 'octets', 'OCTET STRING (SIZE(1..3))', "'AA'H"),
    ('octets-ext', 'octets', 'OCTET STRING (SIZE(0..2, ...))', None),
    ('ia5', 'str', 'IA5String', '"x"'),
    ('ia5-1-3', 'str', 'IA5String (SIZE(1..3))', '"ab"'),
    ('ia5-from', 'str', 'IA5String (SIZE(0..3)) (FROM("a".."e"))', '"b"'),
    ('visible', 'str', 'VisibleString (SIZE(0..2))', None),
    ('numeric', 'str', 'NumericString (SIZE(0..3))', '"12"'),
    ('printable', 'str', 'PrintableString (SIZE(0..2))', None),
    ('utf8', 'str', 'UTF8String', '"y"'),
    ('bmp', 'str', 'BMPString (SIZE(0..2))', None),
    ('universal', 'str', 'UniversalString (SIZE(0..2))', None),
    ('oid', 'oid', 'OBJECT IDENTIFIER', None),
    ('real', 'real', 'REAL', None),
    ('seq', 'struct', 'SEQUENCE { p INTEGER (0..7), q BOOLEAN OPTIONAL }', None),
    ('seq-ext', 'struct', 'SEQUENCE { p BOOLEAN, ..., q INTEGER (0..300) OPTIONAL }', None),
    ('choice', 'struct', 'CHOICE { p INTEGER (0..7), q NULL }', None),
    ('seqof', 'struct', 'SEQUENCE (SIZE(0..2)) OF INTEGER (0..7)', None),
]

CONTAINERS = [
    ('top', 'A ::= %(t)s'),
    ('member', 'A ::= SEQUENCE { x %(t)s, z BOOLEAN }'),
    ('optional', 'A ::= SEQUENCE { x %(t)s OPTIONAL, z BOOLEAN }'),
    ('default', 'A ::= SEQUENCE { x %(t)s DEFAULT %(d)s, z BOOLEAN }'),
    ('addition', 'A ::= SEQUENCE { z BOOLEAN, ..., x %(t)s }'),
    ('addition-opt', 'A ::= SEQUENCE { z BOOLEAN, ..., w NULL OPTIONAL, x %(t)s OPTIONAL }'),
    ('group', 'A ::= SEQUENCE { z BOOLEAN, ..., [[ x %(t)s, y BOOLEAN OPTIONAL ]] }'),
    ('after-ext', 'A ::= SEQUENCE { z BOOLEAN, ..., w NULL, ..., x %(t)s }'),
    ('set', 'A ::= SET { x %(t)s, z BOOLEAN OPTIONAL }'),
    ('choice', 'A ::= CHOICE { z BOOLEAN, x %(t)s }'),
    ('choice-ext', 'A ::= CHOICE { z BOOLEAN, ..., x %(t)s }'),
    ('seqof', 'A ::= SEQUENCE (SIZE(0..2)) OF %(t)s'),
    ('setof', 'A ::= SET OF %(t)s'),
    ('ref', 'A ::= SEQUENCE { x R, y R OPTIONAL }\nR ::= %(t)s'),
    # explicit / implicit member tags (the tag wrapper must forward DEFAULT / OPTIONAL handling)
    ('explicit', 'A ::= SEQUENCE { x [5] EXPLICIT %(t)s, z [6] BOOLEAN OPTIONAL }'),
    ('explicit-default', 'A ::= SEQUENCE { x [0] EXPLICIT %(t)s DEFAULT %(d)s, z BOOLEAN }'),
    ('implicit-default', 'A ::= SEQUENCE { x [0] IMPLICIT %(t)s DEFAULT %(d)s, z BOOLEAN }'),
]

# use-site constraints on a shared referenced type (two members with the same name and reference)
SHARED = [
    ('int', 'INTEGER (0..100)', '(10..20)'),
    ('octets', 'OCTET STRING (SIZE (0..3))', '(SIZE (2))'),
    ('ia5', 'IA5String (SIZE (0..3))', '(SIZE (1))'),
    ('bits', 'BIT STRING (SIZE (0..12))', '(SIZE (4))'),
    ('seqof', 'SEQUENCE (SIZE (0..3)) OF BOOLEAN', '(SIZE (1))'),
]

QUICK_LEAVES = {'bool', 'int-0-7', 'int-m5-300', 'int-ext', 'enum-neg', 'enum-ext', 'bits-5', 'bits-named', 'octets-1-3',
                'ia5-1-3', 'utf8', 'seq-ext', 'choice'}
QUICK_CONTAINERS = {'default', 'addition', 'group', 'after-ext', 'choice-ext', 'seqof', 'setof', 'ref', 'explicit-default'}


def _mod(body, tags):
    return 'T DEFINITIONS %s ::= BEGIN\n%s\nEND\n' % (tags, body)


def build():
    out = []
    for cid, ctext in CONTAINERS:
        for lid, kind, ltext, dflt in LEAVES:
            if cid.endswith('default') and dflt is None:
                continue
            if cid.startswith('implicit') and lid == 'choice':
                continue      # an IMPLICIT tag on a CHOICE is not legal
            if cid == 'top' and kind != 'struct':
                continue      # single-leaf templates exist in the hand-written corpus
            if cid in ('seqof', 'setof') and lid == 'seqof':
                continue
            body = ctext % dict(t=ltext, d=dflt)
            feats = {'gen', 'g-' + cid, 'k-' + kind}
            if lid in QUICK_LEAVES and cid in QUICK_CONTAINERS and not (lid == 'bits-named' and cid in ('ref', 'seqof', 'setof')):
                feats.add('genq')      # (two named-bit strings: ~23 000 paths per codec, thorough tier only)
            if kind == 'real':
                feats.add('real')
            out.append(dict(id='g/%s/%s' % (cid, lid), text=_mod(body, 'AUTOMATIC TAGS'), type='A', module='T',
                            feats=feats, tie=None, quick={}))
    for sid, base, narrow in SHARED:
        for tags in ('', 'AUTOMATIC TAGS'):
            body = ('A ::= SEQUENCE { n Fixed, l Free }\nFixed ::= SEQUENCE { data R %s }\n'
                    'Free ::= SEQUENCE { data R }\nR ::= %s' % (narrow, base))
            out.append(dict(id='g/shared%s/%s' % ('-auto' if tags else '', sid), text=_mod(body, tags), type='A',
                            module='T', feats={'gen', 'genq', 'g-shared', 'k-' + sid}, tie=None, quick={}))
    return out


GENERATED = build()
