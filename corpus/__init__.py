"""The finite family of ASN.1 specification templates ("programs" dimension).

Each template: id, module text, type under test, feature tags.  Generated
deterministically; the list is part of the stated bound of every check.
"""


def _mod(body, tags='AUTOMATIC TAGS', name='T', extra=''):
    return '%s DEFINITIONS %s ::= BEGIN\n%s\nEND\n%s' % (name, tags, body, extra)


TEMPLATES = []


def T(id, body, type='A', feats=(), tags='AUTOMATIC TAGS', extra='', module='T', tie=None, quick=None):
    """quick: bound overrides applied in the quick tier (keeps heavy templates affordable)"""
    TEMPLATES.append(dict(id=id, text=_mod(body, tags, module, extra), type=type, module=module,
                          feats=set(feats), tie=tie, quick=quick or {}))


# ---- single-feature -----------------------------------------------------------
T('bool', 'A ::= BOOLEAN', feats={'basic'})
T('null', 'A ::= NULL', feats={'basic'})
T('int', 'A ::= INTEGER', feats={'basic', 'int'})
T('int-0-7', 'A ::= INTEGER (0..7)', feats={'basic', 'int'})
T('int-m5-300', 'A ::= INTEGER (-5..300)', feats={'basic', 'int'})
T('int-0-255', 'A ::= INTEGER (0..255)', feats={'int'})
T('int-1-256', 'A ::= INTEGER (1..256)', feats={'int'})
T('int-0-256', 'A ::= INTEGER (0..256)', feats={'int'})
T('int-0-65535', 'A ::= INTEGER (0..65535)', feats={'int'})
T('int-0-65536', 'A ::= INTEGER (0..65536)', feats={'int'})
T('int-m128-127', 'A ::= INTEGER (-128..127)', feats={'int'})
T('int-m129-127', 'A ::= INTEGER (-129..127)', feats={'int'})
T('int-u32', 'A ::= INTEGER (0..4294967295)', feats={'int'})
T('int-u32p', 'A ::= INTEGER (0..4294967296)', feats={'int'})
T('int-s64', 'A ::= INTEGER (-9223372036854775808..9223372036854775807)', feats={'int'})
T('int-ext', 'A ::= INTEGER (0..10, ...)', feats={'basic', 'int', 'ext'})
T('int-ext-neg', 'A ::= INTEGER (-3..300, ...)', feats={'int', 'ext'})
T('int-min', 'A ::= INTEGER (MIN..7)', feats={'int'})
T('int-max', 'A ::= INTEGER (-3..MAX)', feats={'basic', 'int'})
T('int-max0', 'A ::= INTEGER (0..MAX)', feats={'int'})
T('int-single', 'A ::= INTEGER (5)', feats={'int'})
T('int-valref', 'lo INTEGER ::= -2\nhi INTEGER ::= 9\nA ::= INTEGER (lo..hi)', feats={'int'})
T('int-named', 'A ::= INTEGER { one(1), ten(10) } (one..ten)', feats={'int'})
T('int-refchain', 'A ::= B\nB ::= C (2..9)\nC ::= INTEGER (0..100)', feats={'int', 'ref'})
T('enum', 'A ::= ENUMERATED { a, b, c }', feats={'basic', 'enum'})
T('enum-vals', 'A ::= ENUMERATED { a(-1), b(127), c(128), d(40000) }', feats={'enum'})
T('enum-ext', 'A ::= ENUMERATED { a, b, ..., c, d }', feats={'basic', 'enum', 'ext'})
T('octets', 'A ::= OCTET STRING', feats={'basic', 'octets'})
T('octets-fixed', 'A ::= OCTET STRING (SIZE(2))', feats={'octets'})
T('octets-range', 'A ::= OCTET STRING (SIZE(1..3))', feats={'basic', 'octets'})
T('octets-ext', 'A ::= OCTET STRING (SIZE(1..2, ...))', feats={'octets', 'ext'})
T('bits', 'A ::= BIT STRING', feats={'basic', 'bits'})
T('bits-fixed', 'A ::= BIT STRING (SIZE(5))', feats={'bits'})
T('bits-range', 'A ::= BIT STRING (SIZE(1..12))', feats={'bits'})
T('bits-named', 'A ::= BIT STRING { a(0), b(3), c(9) }', feats={'basic', 'bits', 'named'})
T('bits-named-size', 'A ::= BIT STRING { a(0), b(3) } (SIZE(4..12))', feats={'bits', 'named'})
T('seq-basic', 'A ::= SEQUENCE { a INTEGER, b BOOLEAN }', feats={'basic', 'seq'})
T('seq-opt', 'A ::= SEQUENCE { a INTEGER (0..300) OPTIONAL, b BOOLEAN DEFAULT TRUE, c INTEGER DEFAULT 7, '
  'd NULL OPTIONAL, e ENUMERATED { x, y, z } DEFAULT y }', feats={'basic', 'seq', 'opt'})
T('seq-ext', 'A ::= SEQUENCE { a INTEGER (0..7), ..., b BOOLEAN, c INTEGER (0..300) OPTIONAL }',
  feats={'basic', 'seq', 'ext'})
T('seq-ext-group', 'A ::= SEQUENCE { a BOOLEAN, ..., [[ b INTEGER (0..7), c BOOLEAN OPTIONAL ]], d INTEGER }',
  feats={'seq', 'ext', 'group'})
T('seq-ext-mixed', 'A ::= SEQUENCE { a BOOLEAN, ..., b INTEGER (0..300), [[ c BOOLEAN, d OCTET STRING (SIZE(0..1)) OPTIONAL ]], '
  'e NULL }', feats={'seq', 'ext', 'group'})
T('seq-ext-tail', 'A ::= SEQUENCE { a BOOLEAN, ..., b INTEGER (0..7), ..., z INTEGER (0..3) }',
  feats={'seq', 'ext'})
# more than 4096 bits before a second append: the PER/UPER encoder spills its accumulator into chunks
T('seq-ext-spill', 'A ::= SEQUENCE { a BOOLEAN, ..., big SEQUENCE { o OCTET STRING (SIZE (520)), n INTEGER (0..255), '
  'p BOOLEAN }, t INTEGER (0..300) OPTIONAL }', feats={'seq', 'ext', 'spill'})
T('seq-ext-empty', 'A ::= SEQUENCE { a INTEGER (0..7), ... }', feats={'seq', 'ext'})
for _n in (7, 8, 9):
    # presence of x0..x(n-2) is tied to one flag (see Gen.tie); the last one is free
    T('seq-ext-%d' % _n, 'A ::= SEQUENCE { r BOOLEAN, ..., %s, y NULL }'
      % ', '.join('x%d NULL' % i for i in range(_n - 1)), feats={'seq', 'ext', 'manyadd'},
      tie=r'x\d+$')
T('set-basic', 'A ::= SET { a INTEGER (0..7), b BOOLEAN, c NULL OPTIONAL }', feats={'basic', 'set'})
T('set-opt-middle', 'A ::= SET { a INTEGER (0..7), b BOOLEAN OPTIONAL, c INTEGER (0..7) DEFAULT 7, d NULL OPTIONAL }',
  feats={'set', 'opt'})
T('set-tags', 'A ::= SET { a [5] INTEGER (0..7), b [1] BOOLEAN, c [APPLICATION 0] INTEGER (0..3) }',
  feats={'set', 'tag'}, tags='IMPLICIT TAGS')
T('set-classes', 'A ::= SET { a [0] INTEGER (0..7), b [APPLICATION 31] INTEGER (0..7), c [PRIVATE 1] BOOLEAN, d [40] NULL }',
  feats={'set', 'tag'}, tags='IMPLICIT TAGS')
T('setof-choice', 'A ::= SET OF CHOICE { a [0] OCTET STRING (SIZE(0..2)), b [1] BOOLEAN }', feats={'setof', 'of', 'choice'},
  tags='IMPLICIT TAGS')
T('choice', 'A ::= CHOICE { a INTEGER (0..7), b BOOLEAN, c NULL }', feats={'basic', 'choice'})
T('choice-ext', 'A ::= CHOICE { a INTEGER (0..7), b BOOLEAN, ..., c INTEGER (0..300), d NULL }',
  feats={'basic', 'choice', 'ext'})
T('seqof', 'A ::= SEQUENCE OF INTEGER (0..300)', feats={'basic', 'of'})
T('seqof-size', 'A ::= SEQUENCE (SIZE(1..3)) OF BOOLEAN', feats={'of'})
T('seqof-fixed', 'A ::= SEQUENCE (SIZE(2)) OF INTEGER (0..7)', feats={'of'})
T('seqof-ext', 'A ::= SEQUENCE (SIZE(1..2, ...)) OF INTEGER (0..7)', feats={'of', 'ext'})
T('setof', 'A ::= SET OF INTEGER (0..300)', feats={'basic', 'of', 'setof'})
T('setof-int', 'A ::= SET OF INTEGER', feats={'of', 'setof'})
T('ia5', 'A ::= IA5String', feats={'basic', 'str'})
T('ia5-size', 'A ::= IA5String (SIZE(1..3))', feats={'str'})
T('ia5-from', 'A ::= IA5String (FROM("a".."d"))', feats={'str', 'from'})
T('ia5-from5', 'A ::= IA5String (SIZE(0..3)) (FROM("a".."e"))', feats={'str', 'from'})
T('visible', 'A ::= VisibleString (SIZE(0..2))', feats={'str'})
T('numeric', 'A ::= NumericString (SIZE(0..3))', feats={'str'})
T('printable', 'A ::= PrintableString (SIZE(0..2))', feats={'str'})
T('utf8', 'A ::= UTF8String', feats={'basic', 'str', 'utf8'})
T('utf8-size', 'A ::= UTF8String (SIZE(2))', feats={'str', 'utf8'})
T('bmp', 'A ::= BMPString (SIZE(0..2))', feats={'str'})
T('universal', 'A ::= UniversalString (SIZE(0..2))', feats={'str'})
T('general', 'A ::= GeneralString', feats={'str'})
T('oid', 'A ::= OBJECT IDENTIFIER', feats={'basic', 'oid'})
T('real', 'A ::= REAL', feats={'basic', 'real'})

# ---- tags ---------------------------------------------------------------------
T('tag-explicit', 'A ::= SEQUENCE { a [0] INTEGER, b [1] BOOLEAN OPTIONAL }', feats={'tag', 'seq'},
  tags='EXPLICIT TAGS')
T('tag-implicit', 'A ::= SEQUENCE { a [0] INTEGER, b [1] BOOLEAN OPTIONAL }', feats={'tag', 'seq'},
  tags='IMPLICIT TAGS')
T('tag-big', 'A ::= SEQUENCE { a [30] INTEGER (0..7), b [31] BOOLEAN, c [127] NULL, d [128] INTEGER (0..7), '
  'e [16383] BOOLEAN, f [16384] NULL }', feats={'tag', 'seq'}, tags='IMPLICIT TAGS')
T('tag-app', 'A ::= [APPLICATION 5] EXPLICIT SEQUENCE { a [PRIVATE 2] INTEGER (0..7), b B }\n'
  'B ::= [APPLICATION 9] IMPLICIT OCTET STRING (SIZE(0..2))', feats={'tag', 'seq'}, tags='')
T('tag-choice', 'A ::= SEQUENCE { a [0] CHOICE { p INTEGER (0..7), q BOOLEAN }, b [1] INTEGER (0..7) OPTIONAL }',
  feats={'tag', 'choice'}, tags='IMPLICIT TAGS')

# ---- combinations -------------------------------------------------------------
T('combo-uper6', 'A ::= SEQUENCE { a INTEGER (0..300), b BOOLEAN OPTIONAL, d ENUMERATED { x, y, z } DEFAULT y, '
  'e SEQUENCE (SIZE(0..2)) OF INTEGER (-5..5), f CHOICE { p INTEGER (0..7), q BOOLEAN }, g INTEGER }',
  feats={'combo'})
T('combo-ext-nest', 'A ::= SET OF SEQUENCE { r BOOLEAN, ..., [[ x INTEGER (0..10, ...), y BOOLEAN ]], '
  'z INTEGER (0..3) OPTIONAL }', feats={'combo', 'ext', 'setof'}, quick=dict(n_len=1))
T('combo-choice-seq', 'A ::= CHOICE { s SEQUENCE { a INTEGER (0..7), ..., b BOOLEAN }, '
  'l SEQUENCE (SIZE(0..2)) OF CHOICE { p NULL, q INTEGER (1..256) }, ..., o OCTET STRING (SIZE(1..2)) }',
  feats={'combo', 'ext', 'choice'})
T('combo-ref', 'A ::= SEQUENCE { a B, b B OPTIONAL, c SEQUENCE OF B }\nB ::= SEQUENCE { x C DEFAULT 3, y BOOLEAN }\n'
  'C ::= INTEGER (0..15)', feats={'combo', 'ref'}, quick=dict(n_len=1))
T('combo-recursive', 'A ::= SEQUENCE { v INTEGER (0..7), next A OPTIONAL }', feats={'combo', 'rec'})
T('combo-rec-choice', 'A ::= CHOICE { leaf INTEGER (0..7), pair SEQUENCE { l A, r A } }',
  feats={'combo', 'rec', 'choice'})
T('combo-bits-default', 'A ::= SEQUENCE { f BIT STRING { a(0), b(1), c(2) } DEFAULT { b }, '
  'g OCTET STRING DEFAULT \'0102\'H, h BOOLEAN }', feats={'combo', 'opt', 'bits'})
T('combo-ext-implied', 'A ::= SEQUENCE { a INTEGER (0..7), b ENUMERATED { x, y } }',
  feats={'combo', 'ext'}, tags='AUTOMATIC TAGS EXTENSIBILITY IMPLIED')
T('combo-components-of', 'A ::= SEQUENCE { a BOOLEAN, COMPONENTS OF B, z INTEGER (0..3) }\n'
  'B ::= SEQUENCE { p INTEGER (0..7), q BOOLEAN OPTIONAL }', feats={'combo'})
T('combo-set-choice', 'A ::= SET { a CHOICE { p INTEGER (0..7), q BOOLEAN }, b INTEGER (0..7), '
  'c SET OF BOOLEAN }', feats={'combo', 'set'})
T('combo-str-seq', 'A ::= SEQUENCE { s IA5String (SIZE(0..2)), u UTF8String (SIZE(0..1)) OPTIONAL, '
  'n INTEGER (0..7) }', feats={'combo', 'str'})
T('combo-import', 'IMPORTS B FROM U;\nA ::= SEQUENCE { a B, b INTEGER (0..7) }', feats={'combo', 'ref'},
  extra='U DEFINITIONS AUTOMATIC TAGS ::= BEGIN\nB ::= SEQUENCE { x INTEGER (0..300), y BOOLEAN OPTIONAL }\nEND\n')
T('combo-depth3', 'A ::= SEQUENCE { l SEQUENCE (SIZE(0..1)) OF SEQUENCE { c CHOICE { i INTEGER (0..10, ...), '
  'o OCTET STRING (SIZE(0..1)) }, ..., e BOOLEAN } }', feats={'combo', 'ext'})
T('combo-oer-enum', 'A ::= SEQUENCE { a BOOLEAN, b ENUMERATED { x, y } }', feats={'combo', 'enum'})
T('combo-seqof-seq', 'A ::= SEQUENCE { a BOOLEAN, b SEQUENCE OF INTEGER, c INTEGER OPTIONAL }',
  feats={'combo', 'of'}, quick=dict(int_abs=1 << 9))

# ---- constraint shapes (C11/C12) -----------------------------------------------
T('c11-nested', 'A ::= SEQUENCE { a CHOICE { p INTEGER (0..7), q IA5String (SIZE(1..2)) }, '
  'l SEQUENCE (SIZE(1..2)) OF INTEGER (-3..3), ..., [[ g INTEGER (10..20) ]] }', feats={'constraint'})
T('c11-minmax', 'A ::= SEQUENCE { a INTEGER (MIN..5), b INTEGER (-5..MAX), c INTEGER (MIN..MAX) }',
  feats={'constraint'})
T('c11-ref', 'A ::= SEQUENCE { a B (1..3), b B, c C }\nB ::= INTEGER (0..10)\nC ::= B (4..5)',
  feats={'constraint', 'ref'})
T('c11-named', 'A ::= SEQUENCE { a INTEGER { lo(2), hi(9) } (lo..hi), b INTEGER { z(0) } (z) }',
  feats={'constraint'})
T('c11-size-valref', 'n INTEGER ::= 2\nA ::= SEQUENCE { o OCTET STRING (SIZE(1..n)), '
  'b BIT STRING (SIZE(n)), s SEQUENCE (SIZE(n)) OF BOOLEAN }', feats={'constraint'})
T('c11-strings', 'A ::= SEQUENCE { n NumericString (SIZE(1..2)), p PrintableString (FROM("A".."C")), '
  'v VisibleString (SIZE(2)) (FROM("a".."b")), u UTF8String (SIZE(0..1)) }', feats={'constraint', 'str'})
T('c11-ext', 'A ::= SEQUENCE { a INTEGER (0..7, ...), s IA5String (SIZE(1, ...)), '
  'l SEQUENCE (SIZE(1..2, ...)) OF INTEGER (0..1) }', feats={'constraint', 'ext'})

T('c12-choice-ext', 'A ::= SEQUENCE { d CHOICE { u INTEGER (0..3), ..., x B, y SEQUENCE OF B }, k INTEGER (0..7) }\n'
  'B ::= SEQUENCE { m INTEGER (0..300), e E OPTIONAL }\nE ::= ENUMERATED { one, two }',
  feats={'constraint', 'path', 'ext'})
# members with the same identifier and the same referenced type in different contexts (the compiler
# caches compiled referenced types per (module, type, member name))
T('shared-range', 'A ::= SEQUENCE { n Narrow, l Listed }\nNarrow ::= SEQUENCE { level Level (10..20) }\n'
  'Listed ::= SEQUENCE { level Level }\nLevel ::= INTEGER (0..100)', feats={'combo', 'ref', 'constraint'}, tags='')
T('shared-size', 'A ::= SEQUENCE { n Fixed, l Free }\nFixed ::= SEQUENCE { data T (SIZE (2)) }\n'
  'Free ::= SEQUENCE { data T }\nT ::= OCTET STRING (SIZE (0..3))', feats={'combo', 'ref', 'constraint'}, tags='')
T('c12-paths', 'A ::= SEQUENCE { a INTEGER (0..7), b SEQUENCE (SIZE(0..2)) OF B, c CHOICE { p INTEGER (0..3), q E }, ..., '
  '[[ g SEQUENCE OF CHOICE { r B, s BOOLEAN } ]] }\nB ::= SEQUENCE { x INTEGER (0..300), e E OPTIONAL }\n'
  'E ::= ENUMERATED { one, two }', feats={'constraint', 'path'})
T('c13-enum-default', 'A ::= SEQUENCE { e ENUMERATED { x(3), y(7), z(9) } DEFAULT y, f E DEFAULT b, n INTEGER (0..7) }\n'
  'E ::= ENUMERATED { a, b, ..., c }', feats={'enum', 'opt'})
T('defaults-by-ref', 'A ::= SEQUENCE { b B DEFAULT TRUE, f B DEFAULT FALSE, i I DEFAULT 5, e E DEFAULT two, '
  'o O DEFAULT \'0102\'H, bs BS DEFAULT { one }, z INTEGER (0..7) }\nB ::= BOOLEAN\nI ::= INTEGER (0..20)\n'
  'E ::= ENUMERATED { one, two }\nO ::= OCTET STRING (SIZE(0..2))\nBS ::= BIT STRING { one(1), three(3) }',
  feats={'heavy'})
T('defaults-by-ref-small', 'A ::= SEQUENCE { b B DEFAULT TRUE, f B DEFAULT FALSE, e E DEFAULT two }\nB ::= BOOLEAN\n'
  'E ::= ENUMERATED { one, two }', feats={'ref', 'opt'})
T('components-of-chain', 'Gamma ::= SEQUENCE { g BOOLEAN, h INTEGER (0..7) OPTIONAL }\n'
  'Beta ::= SEQUENCE { COMPONENTS OF Gamma, b INTEGER (0..3) }\n'
  'A ::= SEQUENCE { a BOOLEAN, COMPONENTS OF Beta, z NULL }', feats={'combo'})
T('combo-default-shared', 'A ::= SEQUENCE { lo Low, hi High }\n'
  'Low ::= SEQUENCE { id INTEGER (0..7), level Level DEFAULT 1 }\n'
  'High ::= SEQUENCE { id INTEGER (0..7), level Level DEFAULT 9 }\nLevel ::= INTEGER (0..15)',
  feats={'combo', 'ref', 'opt'}, tags='')

BY_ID = {t['id']: t for t in TEMPLATES}


# one type name defined differently in two modules whose names sort in the opposite order of the text
# (a dictionary written by pformat and read back iterates its modules alphabetically)
_TWO = ('Zulu DEFINITIONS IMPLICIT TAGS ::= BEGIN\nMsg ::= SEQUENCE { body [0] Body, n INTEGER (0..7) }\n'
        'Body ::= CHOICE { a BOOLEAN, b INTEGER (0..7) }\nEND\n'
        'Alpha DEFINITIONS IMPLICIT TAGS ::= BEGIN\nReq ::= SEQUENCE { body [0] Body, n INTEGER (0..7) }\n'
        'Body ::= SEQUENCE { x BOOLEAN }\nEND\n')
TEMPLATES.append(dict(id='two-modules-same-name-choice', text=_TWO, type='Msg', module='Zulu', feats={'modules'}, tie=None, quick={}))
TEMPLATES.append(dict(id='two-modules-same-name-seq', text=_TWO, type='Req', module='Alpha', feats={'modules'}, tie=None, quick={}))
BY_ID = {t['id']: t for t in TEMPLATES}


def select(feats=None, ids=None, exclude=()):
    out = []
    for t in TEMPLATES:
        if ids is not None and t['id'] not in ids:
            continue
        if feats is not None and not (t['feats'] & set(feats)):
            continue
        if t['feats'] & set(exclude):
            continue
        out.append(t)
    return out


# ---- generated family (leaf variant x structural position): corpus/gen.py ------------------------
from corpus.gen import GENERATED  # noqa: E402
for _t in GENERATED:
    BY_ID[_t['id']] = _t


def generated(quick=False, exclude=()):
    """templates of the generated family; quick: the curated 'genq' subset"""
    return [t for t in GENERATED if ('genq' in t['feats'] or not quick) and not (t['feats'] & set(exclude))]


def job_tier(t, tier):
    """bounds tier of a template job: in a thorough run the bulk of the generated family is
    explored at the quick bounds (732 templates x codecs); its curated subset and the
    hand-written templates get the thorough bounds"""
    if tier == 'thorough' and 'gen' in t['feats'] and 'genq' not in t['feats']:
        return 'quick'
    return tier
