#!/usr/bin/env python3
"""validate MANIFEST.json and every evidence file against the schemas in /root/.vp"""
import json, sys, glob
try:
    import jsonschema
except ImportError:
    sys.path.insert(0, '/opt/veriftools/pyvenv/lib/python3.11/site-packages')
    import jsonschema
ok = True
m = json.load(open('/verif/MANIFEST.json'))
try:
    jsonschema.validate(m, json.load(open('/root/.vp/MANIFEST.schema.json')))
    print('MANIFEST ok: %d checks, %d not_applicable' % (len(m['checks']), len(m.get('not_applicable', []))))
except jsonschema.ValidationError as e:
    ok = False
    print('MANIFEST INVALID:', e.message, list(e.path))
es = json.load(open('/root/.vp/EVIDENCE.schema.json'))
for f in sorted(glob.glob('/verif/evidence/*.json')):
    try:
        jsonschema.validate(json.load(open(f)), es)
    except jsonschema.ValidationError as e:
        ok = False
        print(f, 'INVALID:', e.message[:200], list(e.path))
props = [json.loads(l)['id'] for l in open('/verif/properties.jsonl')]
claimed = {c['property_id'] for c in m['checks']}
na = {x['property_id'] for x in m.get('not_applicable', [])}
for p in props:
    if (p in claimed) == (p in na):
        ok = False
        print('property', p, 'claimed=%s not_applicable=%s' % (p in claimed, p in na))
print('all ok' if ok else 'PROBLEMS')
sys.exit(0 if ok else 1)
