#!/usr/bin/env python3
"""seed_import.py <PROP> <k> [base dir] [seed name] : confirm /tmp/mut/<PROP>.out/m<k> in the scratch worktree /tmp/mut/<PROP>
(demo passes on HEAD, fails with the patch, pinned suite still passes) and, if confirmed, store it as
/verif/seeded/<PROP>-<k>/ (patch.diff, demo.py, meta.json)."""
import json, os, shutil, sys
sys.path.insert(0, os.path.dirname(os.path.abspath(__file__)))
import seed_eval

prop, k = sys.argv[1], sys.argv[2]
base = sys.argv[3] if len(sys.argv) > 3 else '/tmp/mut'
name = sys.argv[4] if len(sys.argv) > 4 else '%s-%s' % (prop, k)
src = '%s/%s.out/m%s' % (base, prop, k)
wt = '%s/%s' % (base, prop)
res = seed_eval.confirm(src, wt)
print(json.dumps(res, indent=1))
if not res.get('ok'):
    sys.exit(1)
dst = os.path.join(seed_eval.VERIF, 'seeded', name)
os.makedirs(dst, exist_ok=True)
shutil.copy(os.path.join(src, 'patch.diff'), dst)
shutil.copy(os.path.join(src, 'demo.py'), dst)
readme = open(os.path.join(src, 'README.md')).read() if os.path.exists(os.path.join(src, 'README.md')) else ''
meta = {
    'property': prop,
    'summary_and_needs': readme[:6000],
    'files': sorted({l[6:].strip() for l in open(os.path.join(src, 'patch.diff')) if l.startswith('+++ b/')}),
    'confirmed': {'demo_exit_on_head': res['demo_on_head'], 'demo_exit_with_patch': res['demo_with_patch'],
                  'pinned_suite_with_patch': '486/486 stable tests pass',
                  'how': 'tools/seed_eval.py confirm in a scratch worktree (removed afterwards)'},
    'checks_run': [],
}
json.dump(meta, open(os.path.join(dst, 'meta.json'), 'w'), indent=1)
print('stored', dst)
