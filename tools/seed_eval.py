#!/usr/bin/env python3
"""Confirm a seeded defect and run checks against it.

  seed_eval.py confirm <mutant_dir> <scratch_worktree>   -> demo fails with patch, passes without,
                                                             pinned suite still passes with patch
  seed_eval.py run <seeded_id> <check_id> [tier]          -> apply /verif/seeded/<id>/patch.diff to /repo,
                                                             run ./check, restore /repo
"""
import json, os, subprocess, sys, time

VERIF = os.path.dirname(os.path.dirname(os.path.abspath(__file__)))


def sh(cmd, cwd=None, env=None, timeout=3600):
    p = subprocess.run(cmd, shell=True, cwd=cwd, env=env, capture_output=True, text=True, timeout=timeout)
    return p.returncode, p.stdout + p.stderr


def confirm(mdir, wt):
    out = {}
    env = dict(os.environ, PYTHONPATH=wt)
    rc, _ = sh('git checkout -- asn1tools && git status --short | grep -v MUTANTS', cwd=wt)
    rc0, o0 = sh('/venv/bin/python %s/demo.py' % mdir, cwd=wt, env=env, timeout=600)
    out['demo_on_head'] = rc0
    rc, o = sh('git apply %s/patch.diff' % mdir, cwd=wt)
    if rc != 0:
        out['apply'] = o
        return out
    rc1, o1 = sh('/venv/bin/python %s/demo.py' % mdir, cwd=wt, env=env, timeout=600)
    out['demo_with_patch'] = rc1
    out['demo_output'] = o1[-400:]
    b = json.load(open('/root/.vp/BASELINE.json'))
    xml = '/var/tmp/seed_%d.xml' % os.getpid()
    sh('/venv/bin/python -m pytest -q -p no:cacheprovider --timeout=900 --junitxml=%s' % xml, cwd=wt)
    import xml.etree.ElementTree as ET
    passed = set()
    for tc in ET.parse(xml).getroot().iter('testcase'):
        if not any(c.tag in ('failure', 'error', 'skipped') for c in tc):
            passed.add('%s::%s' % (tc.get('classname'), tc.get('name')))
    os.unlink(xml)
    out['suite_missing'] = [t for t in b['stable_pass'] if t not in passed]
    sh('git checkout -- asn1tools', cwd=wt)
    out['ok'] = (rc0 == 0 and rc1 != 0 and not out['suite_missing'])
    return out


def run(seed, check, tier='quick', inplace=False):
    """run a check against the seeded defect.  Default: in a scratch worktree of /repo with the
    patch applied (VERIF_REPO points the check at it), removed afterwards; --inplace applies the
    patch to /repo itself and restores it (what the brief prescribes; same result)."""
    patch = os.path.join(VERIF, 'seeded', seed, 'patch.diff')
    t = time.time()
    if inplace:
        rc, o = sh('git -C /repo status --short')
        if o.strip():
            print('refusing: /repo not clean'); return 3
        rc, o = sh('git -C /repo apply %s' % patch)
        if rc:
            print('apply failed', o); return 3
        try:
            rc, o = sh('./check %s --tier %s' % (check, tier), cwd=VERIF, timeout=7200)
        finally:
            sh('git -C /repo checkout -- .')
    else:
        wt = '/var/tmp/seedwt_%s_%d' % (seed, os.getpid())
        rc, o = sh('git -C /repo worktree add -q --detach %s HEAD && git -C %s apply %s' % (wt, wt, patch))
        if rc:
            print('worktree/apply failed', o); sh('git -C /repo worktree remove --force %s' % wt); return 3
        try:
            env = dict(os.environ, VERIF_REPO=wt, VERIF_EVIDENCE_DIR='/var/tmp/seed_evidence_%d' % os.getpid())
            rc, o = sh('./check %s --tier %s' % (check, tier), cwd=VERIF, env=env, timeout=7200)
        finally:
            sh('git -C /repo worktree remove --force %s' % wt)
            sh('rm -rf /var/tmp/seed_evidence_%d' % os.getpid())
    lines = [l for l in o.splitlines() if l.startswith(('VIOLATION', '  label', 'KNOWN', 'INCONCLUSIVE', 'HARNESS', check))]
    print('\n'.join(lines[:12]))
    print('seed=%s check=%s tier=%s exit=%d wall=%.0fs' % (seed, check, tier, rc, time.time() - t))
    return rc


if __name__ == '__main__':
    if sys.argv[1] == 'confirm':
        print(json.dumps(confirm(sys.argv[2], sys.argv[3]), indent=1))
    else:
        args = [a for a in sys.argv[2:] if a != '--inplace']
        sys.exit(run(*args, inplace='--inplace' in sys.argv))
