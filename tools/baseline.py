#!/usr/bin/env python3
"""Run the repository's pinned test suite (guard OFF) and compare with BASELINE.json."""
import json, os, subprocess, sys, tempfile
import xml.etree.ElementTree as ET

b = json.load(open('/root/.vp/BASELINE.json'))
fd, out = tempfile.mkstemp(suffix='.xml', dir='/var/tmp')
os.close(fd)
env = dict(os.environ)
env.pop('ASN1TOOLS_VERIF', None)
cmd = b['cmd'].replace('<file>', out)
subprocess.run(cmd, shell=True, env=env, stdout=subprocess.DEVNULL, stderr=subprocess.DEVNULL)
passed = set()
for tc in ET.parse(out).getroot().iter('testcase'):
    if not any(c.tag in ('failure', 'error', 'skipped') for c in tc):
        passed.add('%s::%s' % (tc.get('classname'), tc.get('name')))
os.unlink(out)
missing = [t for t in b['stable_pass'] if t not in passed]
print('baseline: %d/%d stable tests pass' % (len(b['stable_pass']) - len(missing), len(b['stable_pass'])))
for t in missing[:20]:
    print('  FAIL', t)
sys.exit(1 if missing else 0)
