"""Independent model of ITU-T X.690: DER encoder driven by the *parsed* specification
(own tagging, length, ordering and canonical-form logic), the TLV tree it produces, and a
BER re-serialiser of that tree (forms X.690 allows but DER forbids).

Written from the standard; clause numbers in comments.  Works on ordinary values and on
pyfront proxies (symbolic content, concrete shape).
"""
import itertools
import math
import struct
import z3

from lib.symvalue import (Spec, members_split, members_of, enum_items, int_range, size_range, STRING_TYPES,
                          Equiv, BUILTIN)
from pyfront import SymInt, SymBool, SymBytes, SymStr, encode_str, cell, to_z3bool
from symcore import Inconclusive

UNIVERSAL = {'BOOLEAN': 1, 'INTEGER': 2, 'BIT STRING': 3, 'OCTET STRING': 4, 'NULL': 5, 'OBJECT IDENTIFIER': 6,
             'ObjectDescriptor': 7, 'REAL': 9, 'ENUMERATED': 10, 'UTF8String': 12, 'SEQUENCE': 16, 'SEQUENCE OF': 16,
             'SET': 17, 'SET OF': 17, 'NumericString': 18, 'PrintableString': 19, 'TeletexString': 20,
             'IA5String': 22, 'GraphicString': 25, 'VisibleString': 26, 'GeneralString': 27, 'UniversalString': 28,
             'BMPString': 30}
CLASS_BITS = {'UNIVERSAL': 0x00, 'APPLICATION': 0x40, 'CONTEXT': 0x80, 'PRIVATE': 0xc0}
CLASS_ORDER = {'UNIVERSAL': 0, 'APPLICATION': 1, 'CONTEXT': 2, 'PRIVATE': 3}
STRING_ENCODING = {k: v[0] for k, v in STRING_TYPES.items()}


class Node:
    """one TLV: tag = (class, number); either children (constructed) or content cells"""

    def __init__(self, tag, children=None, content=None, kind=None):
        self.tag = tag
        self.children = children
        self.content = content
        self.kind = kind          # 'string' | 'bits' | 'set' | None : what a BER rewrite may do with it

    @property
    def constructed(self):
        return self.children is not None


# ---- 8.1.2 identifier octets, 8.1.3 length octets ------------------------------------------
def tag_octets(tag, constructed):
    cls, num = tag
    first = CLASS_BITS[cls] | (0x20 if constructed else 0)
    if num < 31:
        return [first | num]                       # 8.1.2.2-3
    out = []
    n = num
    while True:                                    # 8.1.2.4: base 128, first octet not 0x80
        out.insert(0, n & 0x7f)
        n = n >> 7
        if not (n > 0):
            break
    return [first | 0x1f] + [0x80 | b for b in out[:-1]] + [out[-1]]


def length_octets(n):
    if n < 128:
        return [n]                                 # 8.1.3.4 short form
    out = []
    while n > 0:
        out.insert(0, n & 0xff)
        n = n >> 8
    return [0x80 | len(out)] + out                 # 8.1.3.5 long form, minimal (10.1)


def _c(x):
    if z3.is_expr(x):
        return x
    if isinstance(x, (SymInt, SymBool)):
        return cell(x)
    return z3.BitVecVal(int(x), 8)


def serialise(node):
    """DER serialisation of a TLV tree -> list of BV8 cells"""
    if node.constructed:
        body = []
        for ch in node.children:
            body.extend(serialise(ch))
    else:
        body = [_c(b) for b in node.content]
    return [_c(b) for b in tag_octets(node.tag, node.constructed)] + [_c(b) for b in length_octets(len(body))] + body


# ---- tags (X.680 31, 25.7-25.8 automatic tagging) ----------------------------------------
class Tagger:
    def __init__(self, spec, textual_order=False):
        self.spec = spec
        # textual_order=True numbers automatic tags in textual order (NOT what X.680 25.8 says);
        # used only to classify a known deviation of the library
        self.textual_order = textual_order

    def module_default(self, module):
        return self.spec.parsed[module].get('tags') or 'EXPLICIT'

    def tags(self, td, module):
        """tags of a type as referenced: list outer->inner; all but the last are EXPLICIT
        wrappers.  Empty list: untagged CHOICE."""
        t = td['type']
        if t in BUILTIN:
            inner = [] if t in ('CHOICE', 'ANY') else [('UNIVERSAL', UNIVERSAL[t])]
        else:
            ref, rmod = self.spec.lookup('types', t, module)
            inner = self.tags(ref, rmod)
        own = td.get('tag')
        if own:
            cls = own.get('class') or 'CONTEXT'
            kind = own.get('kind')
            if kind is None:
                d = self.module_default(module)
                kind = 'EXPLICIT' if d == 'EXPLICIT' else 'IMPLICIT'
            # 31.2.7: IMPLICIT on an untagged CHOICE (or open type) is EXPLICIT
            if kind == 'IMPLICIT' and inner:
                inner = [(cls, own['number'])] + inner[1:]
            else:
                inner = [(cls, own['number'])] + inner
        return inner

    def member_tagged(self, rtd, rmod):
        """members with automatic tags applied when the rule of 25.3/25.8 fires: returns
        [(member_descriptor_with_tag, is_addition)] in textual order"""
        ms = members_of(rtd)
        if self.module_default(rmod) != 'AUTOMATIC':
            return ms
        raw = [m for m in rtd['members'] if m is not None]
        flat = []
        for m in raw:
            flat.extend(m if isinstance(m, list) else [m])
        if any('tag' in m for m in flat if 'components-of' not in m):
            return ms
        # 25.8: components of the extension root are tagged first, then the additions,
        # each in textual order
        order = [i for i, (m, a) in enumerate(ms) if not a] + [i for i, (m, a) in enumerate(ms) if a]
        if self.textual_order:
            order = list(range(len(ms)))
        out = list(ms)
        for n, i in enumerate(order):
            m, a = ms[i]
            m2 = dict(m)
            m2['tag'] = {'number': n, 'class': 'CONTEXT', 'kind': 'IMPLICIT'}
            out[i] = (m2, a)
        return out


def canonical_key(tag):
    return (CLASS_ORDER[tag[0]], tag[1])


# ---- contents ---------------------------------------------------------------------------------
def int_contents(v):
    """8.3: two's complement, minimal number of octets (8.3.2)"""
    if not isinstance(v, SymInt):
        v = int(v)
        n = 1
        while not (-(1 << (8 * n - 1)) <= v < (1 << (8 * n - 1))):
            n += 1
        return [(v >> (8 * (n - 1 - i))) & 0xff for i in range(n)]
    n = 1
    while True:
        lo, hi = -(1 << (8 * n - 1)), (1 << (8 * n - 1)) - 1
        inside = (v >= lo) & (v <= hi) if isinstance((v >= lo), SymBool) else ((v >= lo) and (v <= hi))
        if bool(inside):
            break
        n += 1
        if n > 40:
            raise Inconclusive('integer wider than 320 bits in the DER model')
    out = []
    for i in range(n):
        b = (v >> (8 * (n - 1 - i))) & 0xff
        out.append(cell(b))
    return out


def subidentifier(v):
    """8.19.2: base 128, most significant first, minimal"""
    if not isinstance(v, SymInt):
        v = int(v)
        out = [v & 0x7f]
        v >>= 7
        while v:
            out.insert(0, 0x80 | (v & 0x7f))
            v >>= 7
        return out
    n = 1
    while not bool(v < (1 << (7 * n))):
        n += 1
    out = []
    for i in range(n):
        b = (v >> (7 * (n - 1 - i))) & 0x7f
        if i < n - 1:
            b = b | 0x80
        out.append(cell(b))
    return out


def real_contents(x):
    """8.5 with the DER restrictions of 11.3 (base 2, mantissa odd)"""
    if x == 0.0:
        if math.copysign(1.0, x) < 0:
            return [0x43]                          # 8.5.9 minus zero
        return []
    if math.isinf(x):
        return [0x40 if x > 0 else 0x41]
    if math.isnan(x):
        return [0x42]
    sign = 0x40 if x < 0 else 0
    m, e = math.frexp(abs(x))
    m = int(m * (1 << 53))
    e -= 53
    while m % 2 == 0:
        m >>= 1
        e += 1
    eo = int_contents(e)
    if len(eo) > 3:
        raise Inconclusive('REAL exponent')
    mo = []
    while m:
        mo.insert(0, m & 0xff)
        m >>= 8
    first = 0x80 | sign | (len(eo) - 1)
    return [first] + eo + mo


class DerModel:
    def __init__(self, parsed, numeric_enums=False, textual_auto_tags=False):
        self.spec = Spec(parsed)
        self.tagger = Tagger(self.spec, textual_auto_tags)
        self.numeric_enums = numeric_enums
        from lib.symvalue import Gen
        self._eq = Equiv(Gen(parsed, numeric_enums=numeric_enums), 0)

    # -- public -----------------------------------------------------------------------------
    def tree(self, value, type_name, module):
        td = self.spec.parsed[module]['types'][type_name]
        return self.node(value, td, module)

    def encode(self, value, type_name, module):
        return SymBytes(serialise(self.tree(value, type_name, module)))

    # -- TLV tree of a value ------------------------------------------------------------------
    def node(self, v, td, module):
        tags = self.tagger.tags(td, module)
        rtd, rmod, _c2 = self.spec.resolve(td, module)
        if rtd['type'] == 'CHOICE':
            inner = self.choice_node(v, rtd, rmod)
            for t in reversed(tags):
                inner = Node(t, children=[inner])          # explicit wrappers (31.2.7)
            return inner
        base = self.base_node(v, rtd, rmod, tags[-1])
        for t in reversed(tags[:-1]):
            base = Node(t, children=[base])
        return base

    def choice_node(self, v, rtd, rmod):
        for m, _a in self.tagger.member_tagged(rtd, rmod):
            if m['name'] == v[0]:
                return self.node(v[1], m, rmod)
        raise Inconclusive('unknown alternative in model')

    def is_default(self, v, m, rmod):
        """11.5: a component equal to its DEFAULT is not encoded"""
        mt, mm, _c2 = self.spec.resolve(m, rmod)
        dv = self._eq.default_value(m, mt, mm)
        conds = []
        from lib.symvalue import Mismatch
        try:
            self._eq._eq(dv, v, m, rmod, conds, 'd')
        except Mismatch:
            return False
        if not conds:
            return True
        return bool(SymBool(z3.And(conds)))

    def base_node(self, v, rtd, rmod, tag):
        t = rtd['type']
        if t == 'BOOLEAN':
            return Node(tag, content=[0xff if v else 0x00])                 # 11.1
        if t == 'INTEGER':
            return Node(tag, content=int_contents(v))
        if t == 'ENUMERATED':
            items, _e = enum_items(rtd)
            num = v if self.numeric_enums else dict((n, x) for n, x, _ in items)[v]
            return Node(tag, content=int_contents(num))
        if t == 'NULL':
            return Node(tag, content=[])
        if t == 'REAL':
            return Node(tag, content=real_contents(v))
        if t == 'OCTET STRING':
            return Node(tag, content=list(SymBytes(v).c), kind='string')      # 10.2 primitive
        if t in STRING_ENCODING:
            return Node(tag, content=list(encode_str(SymStr.of(v), STRING_ENCODING[t]).c), kind='string')
        if t == 'BIT STRING':
            return Node(tag, content=self.bits_contents(v, 'named-bits' in rtd), kind='bits')
        if t == 'OBJECT IDENTIFIER':
            arcs = v.arcs if hasattr(v, 'arcs') else [int(a) for a in v.split('.')]
            first = arcs[0] * 40 + arcs[1]                                   # 8.19.4
            content = subidentifier(first)
            for a in arcs[2:]:
                content += subidentifier(a)
            return Node(tag, content=content)
        if t in ('SEQUENCE', 'SET'):
            kids = []
            tagged = self.tagger.member_tagged(rtd, rmod)
            if self.tagger.textual_order:
                # (classification of the library's known deviation only) root components
                # are emitted before the extension additions
                tagged = [x for x in tagged if not x[1]] + [x for x in tagged if x[1]]
            for m, _a in tagged:
                if m['name'] not in v:
                    continue
                if 'default' in m and self.is_default(v[m['name']], m, rmod):
                    continue
                kids.append((m, self.node(v[m['name']], m, rmod)))
            if t == 'SET':
                # 10.3: canonical order of the tags (for an untagged CHOICE component: the
                # smallest tag of its alternatives, 8.6 of X.680)
                def key(mk):
                    m, n = mk
                    tg = self.tagger.tags(m, rmod)
                    if tg:
                        return canonical_key(tg[0])
                    mt, mm, _c3 = self.spec.resolve(m, rmod)
                    return min(canonical_key(self.tagger.tags(a, mm)[0])
                               for a, _x in self.tagger.member_tagged(mt, mm))
                kids.sort(key=key)
            return Node(tag, children=[n for _m, n in kids], kind='set' if t == 'SET' else None)
        if t == 'SEQUENCE OF':
            return Node(tag, children=[self.node(x, rtd['element'], rmod) for x in v])
        if t == 'SET OF':
            encs = [self.node(x, rtd['element'], rmod) for x in v]
            return Node(tag, children=self.sort_set_of(encs))
        raise Inconclusive('type %s outside the X.690 model' % t)

    def bits_contents(self, v, named):
        """8.6 + 11.2: unused bits zero; for named-bit strings trailing 0 bits removed"""
        data, nbits = v
        if isinstance(nbits, SymInt):
            nbits = int(nbits)
        nbytes = (nbits + 7) // 8
        cells = []
        for i in range(nbytes):
            b = data[i]
            if i == nbytes - 1 and nbits % 8:
                b = b & (0xff << (8 - nbits % 8) & 0xff)
            cells.append(b)
        if named:
            # 11.2.2: strip trailing zero bits
            n = nbits
            while n > 0:
                byte = cells[(n - 1) // 8]
                bit = (byte >> (7 - (n - 1) % 8)) & 1
                if bool(bit == 1) if isinstance(bit, SymInt) else bit == 1:
                    break
                n -= 1
            nbits = n
            nbytes = (nbits + 7) // 8
            cells = cells[:nbytes]
        unused = (8 - nbits % 8) % 8
        return [unused] + [cell(c) for c in cells]

    def sort_set_of(self, nodes):
        """11.6: ascending order of the encodings compared as octet strings, the shorter one
        padded with trailing 0-octets"""
        encs = [(serialise(n), n) for n in nodes]
        out = []
        for e, n in encs:            # insertion sort with symbolic comparisons (forks)
            i = 0
            while i < len(out) and not self._less(e, out[i][0]):
                i += 1
            out.insert(i, (e, n))
        return [n for _e, n in out]

    @staticmethod
    def _less(a, b):
        n = max(len(a), len(b))
        a2 = a + [z3.BitVecVal(0, 8)] * (n - len(a))
        b2 = b + [z3.BitVecVal(0, 8)] * (n - len(b))
        res = z3.BoolVal(False)
        for x, y in reversed(list(zip(a2, b2))):
            res = z3.If(x == y, res, z3.ULT(x, y))
        return bool(SymBool(z3.simplify(res)))


# ---- independent TLV reader (structural re-read of an encoding) ------------------------------
def read_tlv(cells, pos=0):
    """parses one definite-length TLV with concrete identifier/length octets; returns
    (tag_octets, constructed, header_len, content_len, end)"""
    def conc(i):
        c = z3.simplify(cells[i]) if z3.is_expr(cells[i]) else cells[i]
        if z3.is_expr(c):
            if not z3.is_bv_value(c):
                raise ValueError('symbolic identifier/length octet at %d' % i)
            return c.as_long()
        return c
    start = pos
    b = conc(pos)
    pos += 1
    tag = [b]
    if b & 0x1f == 0x1f:
        while True:
            x = conc(pos)
            pos += 1
            tag.append(x)
            if not x & 0x80:
                break
    l0 = conc(pos)
    pos += 1
    if l0 < 0x80:
        length = l0
    else:
        k = l0 & 0x7f
        if k == 0 or l0 == 0xff:
            raise ValueError('not a definite length')
        length = 0
        for _ in range(k):
            length = (length << 8) | conc(pos)
            pos += 1
        if length < 128 or (k > 1 and (length >> (8 * (k - 1))) == 0):
            raise ValueError('non-minimal length')
    if pos + length > len(cells):
        raise ValueError('content exceeds data')
    return tag, bool(tag[0] & 0x20), pos - start, length, pos + length


def check_structure(cells):
    """the whole byte string is exactly one well-formed definite minimal-length TLV tree"""
    def rec(pos, end):
        while pos < end:
            tag, constructed, hl, cl, nxt = read_tlv(cells, pos)
            if nxt > end:
                raise ValueError('child exceeds parent')
            if constructed:
                rec(pos + hl, nxt)
            pos = nxt
    tag, constructed, hl, cl, nxt = read_tlv(cells, 0)
    if nxt != len(cells):
        raise ValueError('trailing octets')
    if constructed:
        rec(hl, nxt)
    return True


# ---- BER re-serialisation (C04) -----------------------------------------------------------------
def padded_length(n, extra):
    """8.1.3.5: long form; `extra` leading zero octets (allowed in BER, forbidden in DER)"""
    out = []
    m = n
    while m:
        out.insert(0, m & 0xff)
        m >>= 8
    if not out:
        out = [0]
    body = [0] * extra + out
    return [0x80 | len(body)] + body


class Rewriter:
    """serialises a TLV tree in forms X.690 allows for BER; the choices come from a
    chooser callback chooser(name, n) -> 0..n-1 (symbolic fork in the harness)."""

    def __init__(self, choose, max_rewrites=2):
        self.choose = choose
        self.budget = max_rewrites
        self.count = 0
        self.log = []

    def _pick(self, what, n):
        if self.budget <= 0 or n <= 1:
            return 0
        k = self.choose('rw%d.%s' % (self.count, what), n)
        self.count += 1
        if k:
            self.budget -= 1
            self.log.append('%s=%d' % (what, k))
        return k

    def length(self, n, constructed):
        """0 minimal definite; 1..2 padded long form; 3 indefinite (constructed only)"""
        k = self._pick('len', 4 if constructed else 3)
        if k == 0:
            return [_c(b) for b in length_octets(n)], []
        if k in (1, 2):
            return [_c(b) for b in padded_length(n, k - 1)], []
        return [_c(0x80)], [_c(0), _c(0)]                                     # 8.1.3.6, 8.1.5

    def emit(self, node):
        if node.constructed:
            kids = list(node.children)
            if node.kind == 'set' and len(kids) > 1:
                n = len(kids)
                if n <= 4:
                    perms = list(itertools.permutations(range(n)))            # every order (<= 24)
                else:
                    idx = list(range(n))
                    perms = [tuple(idx), tuple(reversed(idx)), tuple(idx[1:] + idx[:1]), tuple(idx[-1:] + idx[:-1]),
                             tuple([idx[1], idx[0]] + idx[2:]), tuple(idx[:-2] + [idx[-1], idx[-2]])]
                k = self._pick('perm', len(perms))
                kids = [kids[i] for i in perms[k]]                           # 8.11: any order in BER
            body = []
            for ch in kids:
                body.extend(self.emit(ch))
            ln, eoc = self.length(len(body), True)
            return [_c(b) for b in tag_octets(node.tag, True)] + ln + body + eoc
        if node.kind in ('string', 'bits'):
            k = self._pick('seg', 3)
            if k:
                return self.segmented(node, nested=(k == 2))
        ln, eoc = self.length(len(node.content), False)
        return [_c(b) for b in tag_octets(node.tag, False)] + ln + [_c(b) for b in node.content]

    def segmented(self, node, nested):
        """8.7.3 / 8.6.4 / 8.23.6: constructed encoding of a string: a series of OCTET STRING
        (resp. BIT STRING) segments, possibly themselves constructed"""
        seg_tag = ('UNIVERSAL', 3 if node.kind == 'bits' else 4)
        content = [_c(b) for b in node.content]
        if node.kind == 'bits':
            unused, data = content[0], content[1:]
            cut = self.choose('rw%d.cut' % self.count, len(data) + 1) if len(data) else 0
            self.count += 1
            # 8.6.4: only the last segment may have unused bits
            parts = [[_c(0)] + data[:cut], [unused] + data[cut:]] if cut else [[unused] + data]
        else:
            cut = self.choose('rw%d.cut' % self.count, len(content) + 1)
            self.count += 1
            parts = [content[:cut], content[cut:]]
            if not content:
                # 8.7.3.2 note: zero, one or more segments
                parts = [[], []][:self.choose('rw%d.nseg' % self.count, 3)]
                self.count += 1
        segs = []
        for i, p in enumerate(parts):
            prim = [_c(b) for b in tag_octets(seg_tag, False)] + [_c(b) for b in length_octets(len(p))] + p
            if nested and i == 0 and node.kind != 'bits':
                prim = [_c(b) for b in tag_octets(seg_tag, True)] + [_c(b) for b in length_octets(len(prim))] + prim
            segs.extend(prim)
        ln, eoc = self.length(len(segs), True)
        return [_c(b) for b in tag_octets(node.tag, True)] + ln + segs + eoc
