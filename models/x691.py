"""Independent executable model of ITU-T X.691 (PER), encoder only: BASIC-PER ALIGNED
(asn1tools codec 'per') and UNALIGNED ('uper').

    encode(parsed, module, type_name, value, aligned, numeric_enums=False) -> BitBuf

Written from the rules of the Recommendation, driven by the *parsed* specification dictionary
(asn1tools.parse_string); it shares no code with asn1tools' codecs.  The same code runs on plain
Python values and on the pyfront proxies (SymInt / SymBytes / SymStr leaves, concrete shape).

Clause numbers in the comments are those of X.691 (08/2015).  Editions up to 07/2002 number the
same clauses one lower from "Encoding procedures" onwards:

    2015  10.3 PER-visible constraints ............ 2002   9.3
    2015  11.x encoding procedures ................ 2002  10.x   (11.5 = 10.5, 11.9 = 10.9 ...)
    2015  12 BOOLEAN 13 INTEGER 14 ENUMERATED 15 REAL 16 BIT STRING 17 OCTET STRING 18 NULL
          19 SEQUENCE 20 SEQUENCE OF 21 SET 22 SET OF 23 CHOICE 24 OBJECT IDENTIFIER
                                      ............. 2002  11 ... 23
    2015  30 restricted character strings ......... 2002  27     (30.5.4 = 27.5.4)

"[X.680 n]" / "[X.690 n]" refer to ITU-T X.680 / X.690 (08/2015).

Choices where BASIC-PER leaves a sender's option (the model produces the CANONICAL-PER form):
  * 19.5  a component equal to its DEFAULT value is not encoded;
  * 16.2  named-bit BIT STRINGs are sent with the smallest size that satisfies the constraint;
  * 22    SET OF elements are sent in the order of the value (BASIC-PER); with canonical=True the
          encodings are sorted (only for concrete values).

Two places where the text of the Recommendation leaves room and the model follows common practice:
  * 11.1.4 / 11.9: an octet-aligned bit-field that is EMPTY (a string of length zero after a
    bit-field length determinant) is added without padding bits (see `align_field`); set
    PAD_EMPTY_ALIGNED_FIELDS = True for the literal reading "padding precedes every octet-aligned
    bit-field";
  * 13.2.6 a): the length of an INTEGER in the indefinite-length case of 11.5.7.4 is a constrained
    whole number 1..k with k = octets needed for ("ub" - "lb"), the largest offset ever encoded.

Every decision an implementation could plausibly take differently is a small method of `_Per`
(`align_field`, `int_semi_constrained`, `choice_root_order`, `kmstring_aligned`, `omit_default`,
...), so that a test can subclass the model to reproduce a deviating implementation exactly.

Known limits (NotImplementedError): time types, ANY, EXTERNAL, EMBEDDED PDV, CHARACTER STRING,
information objects, parameterised types, more than 64K OPTIONAL components (19.3).
The parsed dictionary flattens a constraint specification into lists per kind ('restricted-to',
'size', 'from'); a list is read as the UNION of its elements, constraints of different kinds in one
descriptor as an INTERSECTION, and constraints met along a chain of type references as a serial
application (innermost first).
"""
import math
import os
import sys
from types import SimpleNamespace

_ROOT = os.path.dirname(os.path.dirname(os.path.abspath(__file__)))
if _ROOT not in sys.path:
    sys.path.insert(0, _ROOT)

from pyfront import SymInt, SymBool, SymBytes, SymStr, ord_shim, encode_str     # noqa: E402
from symcore import Inconclusive, HarnessError                                  # noqa: E402
from lib.bits import BitBuf                                                     # noqa: E402
from lib.symvalue import Spec, BUILTIN, Equiv, members_split, enum_items         # noqa: E402

K16 = 16384
K64 = 65536

# 11.1.4: "any octet-aligned bit-fields shall be concatenated after (zero to seven) zero bits ...".
# Read literally this pads before an EMPTY octet-aligned bit-field as well.  Widely deployed
# implementations do not (as far as the author recalls them, none could be consulted while writing:
# the Objective Systems runtime in ooh323c aligns only "if (len > 0)", Wireshark's PER dissector
# notes "there is no string at all, so don't do any byte alignment"), and asn1tools' own test
# vectors expect no padding before an empty character string.  The model follows that practice;
# set the constant to True for the literal reading.  Only an empty BIT STRING / OCTET STRING /
# known-multiplier string whose length determinant is a bit-field (constrained, ub < 64K) is affected.
PAD_EMPTY_ALIGNED_FIELDS = False


class EncodeError(Exception):
    """the value is not a value of the type as far as PER needs to know (outside a PER-visible,
    non-extensible constraint; missing mandatory component; unknown alternative ...)"""


# =============================================================================================
# Type tables
# =============================================================================================
# [X.680 8.6] canonical order of tags: class UNIVERSAL < APPLICATION < context-specific < PRIVATE,
# then by number
CLASS_RANK = {'UNIVERSAL': 0, 'APPLICATION': 1, 'CONTEXT': 2, 'PRIVATE': 3}

# [X.680 table 1] universal class tag assignments
UNIVERSAL_TAG = {
    'BOOLEAN': 1, 'INTEGER': 2, 'BIT STRING': 3, 'OCTET STRING': 4, 'NULL': 5, 'OBJECT IDENTIFIER': 6,
    'ObjectDescriptor': 7, 'EXTERNAL': 8, 'REAL': 9, 'ENUMERATED': 10, 'EMBEDDED PDV': 11,
    'UTF8String': 12, 'RELATIVE-OID': 13, 'SEQUENCE': 16, 'SEQUENCE OF': 16, 'SET': 17, 'SET OF': 17,
    'NumericString': 18, 'PrintableString': 19, 'TeletexString': 20, 'VideotexString': 21,
    'IA5String': 22, 'UTCTime': 23, 'GeneralizedTime': 24, 'GraphicString': 25, 'VisibleString': 26,
    'GeneralString': 27, 'UniversalString': 28, 'CHARACTER STRING': 29, 'BMPString': 30,
    'DATE': 31, 'TIME-OF-DAY': 32, 'DATE-TIME': 33,
}
# [X.680 41.3 / 41.4] synonyms
ALIASES = {'ISO646String': 'VisibleString', 'T61String': 'TeletexString'}

# 30.1: known-multiplier character string types and the characters of the unconstrained type
# (runs of character values, [X.680 41 table 8/9]; 30.5.3: the value of a character is its
# ISO 646 / ISO 10646 code)
KNOWN_MULTIPLIER = {
    'NumericString': [(0x20, 0x20), (0x30, 0x39)],
    'PrintableString': [(0x20, 0x20), (0x27, 0x29), (0x2b, 0x2f), (0x30, 0x3a), (0x3d, 0x3d), (0x3f, 0x3f),
                        (0x41, 0x5a), (0x61, 0x7a)],
    'VisibleString': [(0x20, 0x7e)],
    'IA5String': [(0x00, 0x7f)],
    'BMPString': [(0x0000, 0xffff)],
    'UniversalString': [(0x00000000, 0xffffffff)],
}
# 30.6: the other restricted character string types are carried as the octets of their BER
# contents [X.690 8.23]; asn1tools' str <-> octets convention for them:
OCTET_CODED_STRINGS = {'UTF8String': 'utf-8', 'GeneralString': 'latin-1', 'GraphicString': 'latin-1',
                       'TeletexString': 'latin-1', 'VideotexString': 'latin-1', 'ObjectDescriptor': 'latin-1'}

_CONSTRAINT_KEYS = ('restricted-to', 'size', 'from', 'with-components')


def _is_int(x):
    return isinstance(x, (int, SymInt)) and not isinstance(x, bool)


def _runs_len(runs):
    return sum(b - a + 1 for a, b in runs)


def _runs_norm(runs):
    out = []
    for a, b in sorted(runs):
        if out and a <= out[-1][1] + 1:
            out[-1][1] = max(out[-1][1], b)
        else:
            out.append([a, b])
    return [tuple(r) for r in out]


def _runs_and(x, y):
    out = []
    for a, b in x:
        for c, d in y:
            lo, hi = max(a, c), min(b, d)
            if lo <= hi:
                out.append((lo, hi))
    return _runs_norm(out)


# =============================================================================================
class _Per:
    def __init__(self, parsed, aligned, numeric_enums=False, canonical=False):
        self.parsed = parsed
        self.spec = Spec(parsed)
        self.aligned = aligned
        self.numeric_enums = numeric_enums
        self.canonical = canonical
        self._dv = SimpleNamespace(spec=self.spec, gen=SimpleNamespace(numeric_enums=numeric_enums))

    # -----------------------------------------------------------------------------------------
    # Type references, PER-visible constraints (clause 10.3)
    # -----------------------------------------------------------------------------------------
    def deref(self, td, module):
        """follow type references: [(descriptor, module)], outermost first, last = built-in type"""
        chain = []
        for _ in range(100):
            if 'parameters' in td or 'actual-parameters' in td:
                raise NotImplementedError('parameterised type')
            name = ALIASES.get(td['type'], td['type'])
            if name != td['type']:
                td = dict(td, type=name)
            chain.append((td, module))
            if name in BUILTIN or name in UNIVERSAL_TAG:
                return chain
            try:
                td, module = self.spec.lookup('types', name, module)
            except KeyError:
                raise NotImplementedError('type %r' % (name,))
        raise EncodeError('type reference loop')

    def _bound(self, x, module, btd):
        """a bound / single value of an INTEGER or SIZE constraint -> int"""
        if isinstance(x, bool) or not isinstance(x, (int, str)):
            raise NotImplementedError('constraint element %r' % (x,))
        try:
            return self.spec.int_value(x, module, btd)
        except (KeyError, HarnessError):
            raise NotImplementedError('constraint bound %r' % (x,))

    def _union(self, elements, plo, phi, module, btd, kind):
        """(lo, hi) spanned by the root elements of one constraint (None = unbounded); MIN / MAX
        stand for the bounds of the parent type [X.680 51.4]"""
        lo, hi, first = None, None, True
        for el in elements:
            if isinstance(el, tuple):
                a, b = el
                a = plo if a == 'MIN' else self._bound(a, module, btd)
                b = phi if b == 'MAX' else self._bound(b, module, btd)
            elif isinstance(el, dict):
                # contained subtype [X.680 51.3]: the root values of the referenced type
                sub = self.deref(el, module)
                a, b, _e = (self.int_constraint(sub) if kind == 'restricted-to' else self.size_constraint(sub))
            else:
                a = b = self._bound(el, module, btd)
            if first:
                lo, hi, first = a, b, False
            else:
                lo = None if (lo is None or a is None) else min(lo, a)
                hi = None if (hi is None or b is None) else max(hi, b)
        return lo, hi

    def _serial(self, chain, kind, lo, hi):
        """effective (lo, hi, extensible) of the constraints of one kind met along the chain.

        10.3.18: constraints are applied serially, innermost first; a later constraint removes the
        extensibility (and the extension additions) of the earlier ones, PER-visible or not;
        10.3.19: the visible parts of one constraint intersect with the parent type."""
        ext = False
        btd = chain[-1][0]
        for td, module in reversed(chain):
            r = td.get(kind)
            if r:
                root = []
                for el in r:
                    if el is None:
                        break                       # extension additions are not part of the root
                    root.append(el)
                a, b = self._union(root, lo, hi, module, btd, kind)
                if a is not None:
                    lo = a if lo is None else max(lo, a)
                if b is not None:
                    hi = b if hi is None else min(hi, b)
                ext = None in r
            elif any(td.get(k) for k in _CONSTRAINT_KEYS):
                ext = False
        return lo, hi, ext

    def int_constraint(self, chain):
        """10.3.16: value constraints on INTEGER are PER-visible -> (lb, ub, extensible)"""
        return self._serial(chain, 'restricted-to', None, None)

    def size_constraint(self, chain):
        """10.3.8 / 10.3.9 effective size constraint -> (lb, ub, extensible), ub None = unbounded"""
        return self._serial(chain, 'size', 0, None)

    def alphabet(self, chain, t):
        """10.3.10 / 10.3.11 effective permitted alphabet of a known-multiplier type, as sorted runs"""
        runs = KNOWN_MULTIPLIER[t]
        for td, _module in reversed(chain):
            f = td.get('from')
            if not f:
                continue
            if any(not isinstance(el, tuple) for el in f):
                continue        # 10.3.10: an extensible permitted-alphabet constraint is not PER-visible
            allowed = _runs_norm([(ord(a), ord(b)) for a, b in f])
            runs = _runs_and(runs, allowed)
        if not runs:
            raise EncodeError('empty permitted alphabet')
        return runs

    def extension_marker(self, btd, module, key):
        """10.3.20; [X.680 13.4]: EXTENSIBILITY IMPLIED adds a marker to every ENUMERATED, SEQUENCE,
        SET and CHOICE of the module that has none"""
        if None in btd[key]:
            return True
        return bool(self.parsed[module].get('extensibility-implied'))

    # -----------------------------------------------------------------------------------------
    # Tags [X.680 8.6, 25.7-25.9 (automatic tagging), 31.2]
    # -----------------------------------------------------------------------------------------
    def members(self, btd, module):
        """member list of a SEQUENCE / SET after the COMPONENTS OF transformation [X.680 25.5]"""
        ms = btd['members']
        if any(isinstance(m, dict) and 'components-of' in m for m in ms):
            ms = self.spec._expand_components_of(ms, module)
        return ms

    def _automatic(self, btd, module):
        """[X.680 25.7 / 29.5]: automatic tagging applies when the module selects it and no
        component (textually, before COMPONENTS OF is expanded) carries a tag"""
        if self.parsed[module].get('tags') != 'AUTOMATIC':
            return False
        for m in btd['members']:
            for mm in (m if isinstance(m, list) else [m]):
                if isinstance(mm, dict) and 'tag' in mm:
                    return False
        return True

    def outer_tag(self, td, module):
        """(class rank, number) of the outermost tag of a type; an untagged CHOICE counts with the
        smallest tag of its root alternatives (21.1, 23.1 and [X.680 8.6])"""
        for td, module in self.deref(td, module):
            if 'tag' in td:
                tg = td['tag']
                return (CLASS_RANK[tg.get('class', 'CONTEXT')], tg['number'])
        t = td['type']
        if t == 'CHOICE':
            root, _adds, _m = members_split(td)
            return min(self.member_tags(td, module, root))
        if t not in UNIVERSAL_TAG:
            raise NotImplementedError('tag of %s' % t)
        return (0, UNIVERSAL_TAG[t])

    def member_tags(self, btd, module, wanted):
        """tags of the components `wanted` (descriptors taken from the type's member list)"""
        if self._automatic(btd, module):
            # [X.680 25.8]: [0], [1], ... over the root components, then the extension additions
            root, adds, _m = members_split(dict(btd, members=self.members(btd, module)))
            order = list(root)
            for a in adds:
                order.extend(a if isinstance(a, list) else [a])
            pos = {id(m): i for i, m in enumerate(order)}
            return [(CLASS_RANK['CONTEXT'], pos[id(m)]) for m in wanted]
        return [self.outer_tag(m, module) for m in wanted]

    # =========================================================================================
    # Clause 11: encoding procedures
    # =========================================================================================
    def align(self, buf):
        """11.1.4: an octet-aligned bit-field is preceded by 0..7 zero bits (ALIGNED variant only)"""
        if self.aligned:
            buf.align()

    def align_field(self, buf, nitems, kind):
        """start of an octet-aligned bit-field holding `nitems` items; kind: 'octets' (OCTET STRING,
        open type, integer / REAL / OID octets), 'bits' (BIT STRING), 'chars' (known-multiplier
        string).  See PAD_EMPTY_ALIGNED_FIELDS for the empty field."""
        if nitems > 0 or PAD_EMPTY_ALIGNED_FIELDS:
            self.align(buf)

    def complete(self, buf):
        """11.1: complete encoding of an outermost value: a whole number of octets, and at least one"""
        if len(buf) == 0:
            buf.uint(0, 8)                                   # 11.1.3 / 11.1.4 empty -> one zero octet
        buf.align()                                          # trailing zero bits (both variants)
        return buf

    def open_type(self, buf, encode_into):
        """11.2: the complete encoding of the contained value, as octets with a length determinant"""
        inner = BitBuf()
        encode_into(inner)
        self.complete(inner)
        n = len(inner) // 8

        def emit(out, a, b):
            out.bits.extend(inner.bits[8 * a:8 * b])
        self.with_length(buf, n, 0, None, emit, 'octets')    # 11.2.2: unconstrained length, 11.9

    def nn_octets(self, v):
        """11.3.6: octets of the minimum-octets non-negative-binary-integer encoding (zero: one)"""
        n = int((v.bit_length() + 7) // 8)
        return n if n > 0 else 1

    def tc_octets(self, v):
        """11.4.6: octets of the minimum-octets 2's-complement-binary-integer encoding"""
        if v < 0:
            m = -1 - v
        else:
            m = v
        return int((m.bit_length() + 8) // 8)                # bit_length + sign bit, rounded up

    def constrained(self, buf, v, lb, ub):
        """11.5 constrained whole number"""
        rng = ub - lb + 1
        if rng == 1:                                         # 11.5.4
            return
        d = v - lb
        nbits = (rng - 1).bit_length()
        if not self.aligned:                                 # 11.5.6: minimum number of bits
            buf.uint(d, nbits)
        elif rng <= 255:                                     # 11.5.7.1 bit-field
            buf.uint(d, nbits)
        elif rng == 256:                                     # 11.5.7.2 one octet, aligned
            buf.align()
            buf.uint(d, 8)
        elif rng <= K64:                                     # 11.5.7.3 two octets, aligned
            buf.align()
            buf.uint(d, 16)
        else:                                                # 11.5.7.4 indefinite length case
            n = self.nn_octets(d)
            # 13.2.6 a): length as a constrained whole number 1 .. octets that hold the range
            self.constrained(buf, n, 1, ((ub - lb).bit_length() + 7) // 8)
            buf.align()
            buf.uint(d, 8 * n)

    def normally_small(self, buf, n):
        """11.6 normally small non-negative whole number"""
        if n <= 63:                                          # 11.6.1
            buf.bit(0)
            buf.uint(n, 6)
        else:                                                # 11.6.2
            buf.bit(1)
            self.semi_constrained(buf, n, 0)

    def _int_octets(self, buf, d, n):
        """n octets holding d (binary / 2's complement), with the unconstrained length of 11.9"""
        tmp = BitBuf().uint(d, 8 * n)

        def emit(out, a, b):
            out.bits.extend(tmp.bits[8 * a:8 * b])
        self.with_length(buf, n, 0, None, emit, 'octets')

    def semi_constrained(self, buf, v, lb):
        """11.7 semi-constrained whole number (13.2.6 b: preceded by its length in octets)"""
        d = v - lb
        self._int_octets(buf, d, self.nn_octets(d))

    def unconstrained(self, buf, v):
        """11.8 unconstrained whole number (13.2.6 b)"""
        self._int_octets(buf, v, self.tc_octets(v))

    def unconstrained_length(self, buf, n):
        """11.9.3.6 / 11.9.3.7 (11.9.4.2): one or two octets for a length below 16K"""
        self.align(buf)
        if n <= 127:
            buf.uint(n, 8)                                   # 0nnnnnnn
        else:
            buf.uint(0x8000 | n, 16)                         # 10nnnnnn nnnnnnnn

    def normally_small_length(self, buf, n):
        """11.9.3.4 / 11.9.4.2 normally small length (n >= 1)"""
        if n <= 64:
            buf.bit(0)
            buf.uint(n - 1, 6)
        else:
            buf.bit(1)
            if n >= K16:
                raise NotImplementedError('normally small length >= 16K')
            self.unconstrained_length(buf, n)

    def with_length(self, buf, n, lb, ub, emit, align_items):
        """11.9: n items preceded by their length determinant.  lb / ub: PER-visible bounds of the
        count (ub None: unbounded); emit(buf, a, b) adds items a..b-1; align_items: None, or the kind
        of octet-aligned bit-field (see align_field) the items form in the ALIGNED variant"""
        if ub is not None and ub < K64:
            # 11.9.3.3 / 11.9.4.1: constrained whole number lb..ub (nothing when lb = ub)
            if n < lb or n > ub:
                raise EncodeError('length %d outside %d..%d' % (n, lb, ub))
            self.constrained(buf, n, lb, ub)
            if align_items:
                self.align_field(buf, n, align_items)
            emit(buf, 0, n)
            return
        done = 0
        while True:
            rest = n - done
            if rest < K16:                                   # 11.9.3.6 / 11.9.3.7
                self.unconstrained_length(buf, rest)
                if align_items:
                    self.align_field(buf, rest, align_items)
                emit(buf, done, n)
                return
            m = min(rest // K16, 4)                          # 11.9.3.8: 11mmmmmm, m x 16K items follow,
            self.align(buf)                                  # then a further length (possibly 0)
            buf.uint(0xc0 | m, 8)
            if align_items:
                self.align_field(buf, m * K16, align_items)
            emit(buf, done, done + m * K16)
            done += m * K16

    # =========================================================================================
    # Types
    # =========================================================================================
    def encode_type(self, buf, td, module, value):
        chain = self.deref(td, module)
        btd, bmod = chain[-1]
        t = btd['type']
        if t == 'BOOLEAN':
            self.enc_boolean(buf, value)
        elif t == 'INTEGER':
            self.enc_integer(buf, value, chain)
        elif t == 'ENUMERATED':
            self.enc_enumerated(buf, value, btd, bmod)
        elif t == 'REAL':
            self.enc_real(buf, value)
        elif t == 'BIT STRING':
            self.enc_bitstring(buf, value, chain)
        elif t == 'OCTET STRING':
            self.enc_octetstring(buf, value, chain)
        elif t == 'NULL':
            pass                                             # 18: no encoding
        elif t in ('SEQUENCE', 'SET'):
            self.enc_sequence(buf, value, btd, bmod, t == 'SET')
        elif t in ('SEQUENCE OF', 'SET OF'):
            self.enc_sequence_of(buf, value, chain, t == 'SET OF')
        elif t == 'CHOICE':
            self.enc_choice(buf, value, btd, bmod)
        elif t == 'OBJECT IDENTIFIER':
            self.enc_oid(buf, value)
        elif t in KNOWN_MULTIPLIER:
            self.enc_known_multiplier(buf, value, chain, t)
        elif t in OCTET_CODED_STRINGS:
            self.enc_other_string(buf, value, t)
        else:
            raise NotImplementedError('type %s' % t)

    # ---- 12 BOOLEAN -------------------------------------------------------------------------
    def enc_boolean(self, buf, value):
        if not isinstance(value, (bool, SymBool)):
            raise EncodeError('BOOLEAN value %r' % (value,))
        buf.bit(value)                                       # 12.2: single bit, 1 = TRUE

    # ---- 13 INTEGER -------------------------------------------------------------------------
    def enc_integer(self, buf, value, chain):
        if not _is_int(value):
            raise EncodeError('INTEGER value %r' % (value,))
        lb, ub, ext = self.int_constraint(chain)
        inside = (lb is None or value >= lb) and (ub is None or value <= ub)
        if ext:                                              # 13.1
            if inside:
                buf.bit(0)
            else:
                buf.bit(1)
                self.unconstrained(buf, value)               # as if the constraint were absent
                return
        elif not inside:
            raise EncodeError('INTEGER outside its non-extensible constraint')
        if lb is not None and ub is not None:
            self.constrained(buf, value, lb, ub)             # 13.2.1 (single value: empty), 13.2.2
        elif lb is not None:
            self.int_semi_constrained(buf, value, lb)        # 13.2.3
        else:
            self.unconstrained(buf, value)                   # 13.2.4 (also when only ub is set)

    def int_semi_constrained(self, buf, value, lb):
        """13.2.3: only a lower bound: the offset from it as a semi-constrained whole number (11.7)"""
        self.semi_constrained(buf, value, lb)

    # ---- 14 ENUMERATED ----------------------------------------------------------------------
    def enc_enumerated(self, buf, value, btd, bmod):
        items, _marker = enum_items(btd)
        marker = self.extension_marker(btd, bmod, 'values')
        # 14.1: root enumerations indexed in ascending order of their values; additions in the
        # order of definition ([X.680 20.4] requires that to be ascending as well)
        root = sorted((num, name) for name, num, add in items if not add)
        adds = [(num, name) for name, num, add in items if add]
        key = 0 if (self.numeric_enums and not isinstance(value, str)) else 1
        r_idx = [i for i, it in enumerate(root) if it[key] == value]
        a_idx = [i for i, it in enumerate(adds) if it[key] == value]
        if not marker:
            if not r_idx:
                raise EncodeError('ENUMERATED value %r' % (value,))
            self.enum_index(buf, r_idx[0], len(root))                # 14.2
        elif r_idx:
            buf.bit(0)                                               # 14.3, root
            self.enum_index(buf, r_idx[0], len(root))
        elif a_idx:
            buf.bit(1)                                               # 14.3, addition
            self.normally_small(buf, a_idx[0])
        else:
            raise EncodeError('ENUMERATED value %r' % (value,))

    def enum_index(self, buf, index, count):
        """14.2: the index as a value of INTEGER (0..count-1), i.e. a constrained whole number"""
        self.constrained(buf, index, 0, count - 1)

    # ---- 15 REAL ----------------------------------------------------------------------------
    def real_octets(self, value):
        return real_contents(value)

    def enc_real(self, buf, value):
        # 15.1 / 15.2: contents octets of CER/DER [X.690 11.3], as octets with a length determinant
        octs = self.real_octets(value)

        def emit(out, a, b):
            out.octets(bytes(octs[a:b]))
        self.with_length(buf, len(octs), 0, None, emit, 'octets')

    # ---- 16 BIT STRING ----------------------------------------------------------------------
    @staticmethod
    def _bit(data, i):
        return (data[i // 8] >> (7 - i % 8)) & 1

    def enc_bitstring(self, buf, value, chain):
        data, nbits = value
        n = int(nbits)
        if n > 8 * len(data) or n < 0:
            raise EncodeError('BIT STRING: %d bits in %d octets' % (n, len(data)))
        lb, ub, ext = self.size_constraint(chain)
        if chain[-1][0].get('named-bits'):
            # 16.2 / 16.3 ([X.680 22.7]): trailing 0 bits are removed, then 0 bits are added up to
            # the lower bound: the smallest size that carries the value and satisfies the constraint
            while n > 0 and not self._bit(data, n - 1):
                n -= 1
            pad = max(lb - n, 0)
        else:
            pad = 0
        total = n + pad

        def emit(out, a, b):
            for i in range(a, b):
                out.bit(self._bit(data, i) if i < n else 0)
        inside = lb <= total and (ub is None or total <= ub)
        if ext:                                              # 16.6
            buf.bit(0 if inside else 1)
            if not inside:
                self.with_length(buf, total, 0, None, emit, 'bits')  # as if unconstrained
                return
        elif not inside:
            raise EncodeError('BIT STRING size %d outside %r..%r' % (total, lb, ub))
        if ub == 0:                                          # 16.8
            return
        if lb == ub and ub <= 16:                            # 16.9: bit-field, never aligned
            emit(buf, 0, total)
        elif lb == ub and ub < K64:                          # 16.10: octet-aligned, no length
            self.align(buf)
            emit(buf, 0, total)
        else:                                                # 16.11
            self.with_length(buf, total, lb, ub, emit, 'bits')

    # ---- 17 OCTET STRING --------------------------------------------------------------------
    def enc_octetstring(self, buf, value, chain):
        if not isinstance(value, (bytes, bytearray, SymBytes)):
            raise EncodeError('OCTET STRING value %r' % (value,))
        self._octets(buf, value, *self.size_constraint(chain))

    def _octets(self, buf, value, lb, ub, ext):
        n = len(value)

        def emit(out, a, b):
            out.octets(value[a:b])
        inside = lb <= n and (ub is None or n <= ub)
        if ext:                                              # 17.3
            buf.bit(0 if inside else 1)
            if not inside:
                self.with_length(buf, n, 0, None, emit, 'octets')
                return
        elif not inside:
            raise EncodeError('OCTET STRING size %d outside %r..%r' % (n, lb, ub))
        if ub == 0:                                          # 17.5
            return
        if lb == ub and ub <= 2:                             # 17.6: bit-field, never aligned
            emit(buf, 0, n)
        elif lb == ub and ub < K64:                          # 17.7: octet-aligned, no length
            self.align(buf)
            emit(buf, 0, n)
        else:                                                # 17.8
            self.with_length(buf, n, lb, ub, emit, 'octets')

    # ---- 19 SEQUENCE, 21 SET ----------------------------------------------------------------
    def _present(self, value, m, module, addition=False):
        """is the component to be encoded as present?"""
        if m['name'] not in value:
            return False
        if 'default' in m and self.omit_default(value[m['name']], m, module, addition):
            return False
        return True

    def omit_default(self, v, m, module, addition):
        """19.5: a component whose value is its DEFAULT value is not encoded (CANONICAL-PER: always;
        BASIC-PER: always for simple types, sender's option otherwise - the model always omits).
        The rule is not restricted to the extension root (`addition`: False for a root component,
        True for an extension addition, 'group' for a component of an extension addition group)."""
        return self.is_default(v, m, module)

    def group_present(self, value, group, module):
        """19.9 NOTE: an extension addition group is absent iff all its components are absent"""
        return any(self._present(value, m, module, 'group') for m in group)

    def enc_sequence(self, buf, value, btd, bmod, is_set, as_group=None):
        if not isinstance(value, dict):
            raise EncodeError('SEQUENCE/SET value %r' % (value,))
        if as_group is not None:
            root, adds, marker = list(as_group), [], False   # 19.9: a group is encoded as a SEQUENCE
        else:
            root, adds, _m = members_split(dict(btd, members=self.members(btd, bmod)))
            marker = self.extension_marker(btd, bmod, 'members')
            if is_set:
                # 21.1: root components in the canonical order of their tags; additions keep
                # the order of definition
                tags = self.member_tags(btd, bmod, root)
                root = [m for _t, _i, m in sorted(zip(tags, range(len(root)), root), key=lambda x: x[:2])]
        in_add = 'group' if as_group is not None else False
        add_present = []
        for a in adds:
            if isinstance(a, list):
                add_present.append(self.group_present(value, a, bmod))
            else:
                add_present.append(self._present(value, a, bmod, True))
        if marker:
            buf.bit(1 if any(add_present) else 0)            # 19.1 extension bit
        present = [self._present(value, m, bmod, in_add) for m in root]
        optional = [bool(m.get('optional')) or 'default' in m for m in root]
        if sum(optional) >= K64:
            raise NotImplementedError('19.3: more than 64K optional components')
        for p, o in zip(present, optional):                  # 19.2 preamble: one bit per OPTIONAL /
            if o:                                            # DEFAULT component, 1 = present
                buf.bit(1 if p else 0)
        for m, p, o in zip(root, present, optional):         # 19.4
            if p:
                self.encode_type(buf, m, bmod, value[m['name']])
            elif not o:
                raise EncodeError('mandatory component %s missing' % m['name'])
        if not any(add_present):
            return
        # 19.7: number of extension additions as a normally small length, then one bit each
        self.normally_small_length(buf, len(adds))
        for p in add_present:
            buf.bit(1 if p else 0)
        for a, p in zip(adds, add_present):
            if not p:
                continue
            if isinstance(a, list):                          # 19.9 extension addition group
                self.open_type(buf, lambda b, a=a: self.enc_sequence(b, value, None, bmod, False, as_group=a))
            else:                                            # 19.8 open type field
                self.open_type(buf, lambda b, a=a: self.encode_type(b, a, bmod, value[a['name']]))

    # ---- 20 SEQUENCE OF, 22 SET OF ----------------------------------------------------------
    def enc_sequence_of(self, buf, value, chain, is_set):
        if not isinstance(value, list):
            raise EncodeError('SEQUENCE OF value %r' % (value,))
        btd, bmod = chain[-1]
        lb, ub, ext = self.size_constraint(chain)
        n = len(value)
        items = value
        if is_set and self.canonical and n > 1:
            # 22.1 (CANONICAL-PER only): ascending order of the component encodings, compared as
            # octet strings after padding with 0 bits
            def key(v):
                b = BitBuf()
                self.encode_type(b, btd['element'], bmod, v)
                return b.concrete()
            items = sorted(value, key=key)

        def emit(out, a, b):
            for v in items[a:b]:
                self.encode_type(out, btd['element'], bmod, v)
        inside = lb <= n and (ub is None or n <= ub)
        if ext:                                              # 20.4
            buf.bit(0 if inside else 1)
            if not inside:
                self.with_length(buf, n, 0, None, emit, None)
                return
        elif not inside:
            raise EncodeError('SEQUENCE OF size %d outside %r..%r' % (n, lb, ub))
        self.with_length(buf, n, lb, ub, emit, None)         # 20.5 (fixed: no length), 20.6

    # ---- 23 CHOICE --------------------------------------------------------------------------
    def enc_choice(self, buf, value, btd, bmod):
        if not (isinstance(value, tuple) and len(value) == 2):
            raise EncodeError('CHOICE value %r' % (value,))
        name, inner = value
        root, adds, _m = members_split(btd)
        marker = self.extension_marker(btd, bmod, 'members')
        ext_alts = []
        for a in adds:                                       # version brackets only group alternatives
            ext_alts.extend(a if isinstance(a, list) else [a])
        root = self.choice_root_order(btd, bmod, root)
        r_idx = [i for i, m in enumerate(root) if m['name'] == name]
        a_idx = [i for i, m in enumerate(ext_alts) if m['name'] == name]
        if r_idx:
            if marker:
                buf.bit(0)                                   # 23.5
            self.constrained(buf, r_idx[0], 0, len(root) - 1)        # 23.4 (single: nothing), 23.6
            self.encode_type(buf, root[r_idx[0]], bmod, inner)
        elif a_idx and marker:
            buf.bit(1)                                       # 23.5
            self.normally_small(buf, a_idx[0])               # 23.8
            alt = ext_alts[a_idx[0]]
            self.open_type(buf, lambda b: self.encode_type(b, alt, bmod, inner))
        else:
            raise EncodeError('CHOICE alternative %r' % (name,))

    def choice_root_order(self, btd, bmod, root):
        """23.1 / 23.2: the root alternatives are indexed in the canonical order of their tags
        [X.680 8.6] (an untagged CHOICE alternative counts with its smallest tag)"""
        tags = self.member_tags(btd, bmod, root)
        return [m for _t, _i, m in sorted(zip(tags, range(len(root)), root), key=lambda x: x[:2])]

    # ---- 24 OBJECT IDENTIFIER ---------------------------------------------------------------
    def enc_oid(self, buf, value):
        octs = BitBuf()
        n = oid_contents(octs, value)                        # [X.690 8.19] contents octets

        def emit(out, a, b):
            out.bits.extend(octs.bits[8 * a:8 * b])
        self.with_length(buf, n, 0, None, emit, 'octets')    # 24.2

    # ---- 30 restricted character strings ----------------------------------------------------
    def enc_known_multiplier(self, buf, value, chain, t):
        if not isinstance(value, (str, SymStr)):
            raise EncodeError('%s value %r' % (t, value))
        lb, ub, ext = self.size_constraint(chain)            # 30.2 effective size constraint
        runs = self.alphabet(chain, t)                       # 30.2 effective permitted alphabet
        n = len(value)
        inside = lb <= n and (ub is None or n <= ub)
        if ext:                                              # 30.4
            buf.bit(0 if inside else 1)
            if not inside:
                lb, ub = 0, None                             # no effective size constraint and the
                runs = KNOWN_MULTIPLIER[t]                   # alphabet of the unconstrained type
        elif not inside:
            raise EncodeError('%s size %d outside %r..%r' % (t, n, lb, ub))
        b = self.char_bits(_runs_len(runs))                  # 30.5.2
        reindex = self.reindexed(runs, b, t)                 # 30.5.4
        chars = list(value)

        def emit(out, a, e):
            for c in chars[a:e]:
                out.uint(self._char_value(ord_shim(c), runs, reindex), b)
        fixed = ub is not None and lb == ub and ub < K64
        aligned = self.kmstring_aligned(fixed, ub, b)
        if fixed:                                            # 30.5.6: no length determinant
            if aligned:
                self.align_field(buf, n, 'chars')
            emit(buf, 0, n)
        else:                                                # 30.5.7: with length determinant
            self.with_length(buf, n, lb, ub, emit, 'chars' if aligned else None)

    def char_bits(self, N):
        """30.5.2: N characters in the effective permitted alphabet.  B = smallest integer with
        2^B >= N: bits per character in the UNALIGNED variant; ALIGNED: B2 = smallest power of 2
        that is >= B (1, 2, 4, 8, 16, 32; a one-character alphabet has B = 0 and B2 = 1)"""
        b = (N - 1).bit_length()
        if self.aligned:
            b2 = 1
            while b2 < b:
                b2 *= 2
            b = b2
        return b

    def reindexed(self, runs, b, t):
        """30.5.4: a character is encoded as its value if the largest value of the effective
        permitted alphabet fits in b bits (ub <= 2^b - 1); otherwise as its index (from 0) in the
        canonical order of that alphabet"""
        return runs[-1][1] > (1 << b) - 1

    def kmstring_aligned(self, fixed, ub, b):
        """is the bit-field of the characters octet-aligned (ALIGNED variant)?
        30.5.6 (fixed size aub): yes if aub x b is greater than 16;
        30.5.7 (with length determinant): yes if aub x b is greater than or equal to 16 (or aub is unset)"""
        if ub is None:
            return True
        return ub * b > 16 if fixed else ub * b >= 16

    @staticmethod
    def _char_value(v, runs, reindex):
        base = 0
        for a, e in runs:
            if v < a:
                break
            if v <= e:
                return (v - a + base) if reindex else v
            base += e - a + 1
        raise EncodeError('character outside the permitted alphabet')

    def enc_other_string(self, buf, value, t):
        # 30.6: not a known-multiplier type: constraints are not PER-visible (10.3.6); octets of the
        # BER contents with an unconstrained length
        enc = OCTET_CODED_STRINGS[t]
        if isinstance(value, SymStr):
            octs = encode_str(value, enc)
        elif isinstance(value, str):
            octs = value.encode(enc)
        else:
            raise EncodeError('%s value %r' % (t, value))
        self._octets(buf, octs, 0, None, False)

    # -----------------------------------------------------------------------------------------
    # DEFAULT values (19.5)
    # -----------------------------------------------------------------------------------------
    def default_of(self, m, chain):
        """the DEFAULT value of a component in the value conventions of the model; _Unknown when the
        parsed dictionary does not carry it in a usable form"""
        btd, bmod = chain[-1]
        t = btd['type']
        d = m['default']
        if t in ('SEQUENCE OF', 'SET OF'):
            if d == []:
                return []
            raise _Unknown()
        if t in ('SEQUENCE', 'SET'):
            if d == []:
                return {}
            raise _Unknown()
        if t == 'REAL' and isinstance(d, str):
            try:
                return float(d)
            except ValueError:
                raise _Unknown()
        if t == 'OBJECT IDENTIFIER':
            if isinstance(d, list) and all(isinstance(x, int) for x in d):
                return '.'.join(str(x) for x in d)
            raise _Unknown()
        if t == 'CHOICE':
            raise _Unknown()
        try:
            return Equiv.default_value(self._dv, m, btd, bmod)
        except (Inconclusive, HarnessError, KeyError, ValueError, TypeError):
            raise _Unknown()

    def is_default(self, v, m, module):
        chain = self.deref(m, module)
        try:
            d = self.default_of(m, chain)
            return self.same(v, d, chain)
        except _Unknown:
            return False        # 19.5: encoding a value equal to the DEFAULT is then the sender's option

    def same(self, v, d, chain):
        """is v the abstract value d?"""
        btd, bmod = chain[-1]
        t = btd['type']
        if t in ('BOOLEAN', 'INTEGER', 'ENUMERATED'):
            if isinstance(v, str) != isinstance(d, str):
                return False
            return bool(v == d)
        if t == 'NULL':
            return True
        if t == 'REAL':
            return float(v) == float(d) and math.copysign(1, v) == math.copysign(1, d)
        if t == 'OCTET STRING' or t in KNOWN_MULTIPLIER or t in OCTET_CODED_STRINGS:
            if len(v) != len(d):
                return False
            if isinstance(v, bytearray):
                v = bytes(v)
            return bool(v == d)
        if t == 'BIT STRING':
            (vd, vn), (dd, dn) = v, d
            vn, dn = int(vn), int(dn)
            if not btd.get('named-bits') and vn != dn:
                return False
            for i in range(max(vn, dn)):
                x = self._bit(vd, i) if i < vn else 0
                y = self._bit(dd, i) if i < dn else 0
                if x != y:
                    return False
            return True
        if t == 'OBJECT IDENTIFIER':
            va, da = oid_arcs(v), oid_arcs(d)
            return len(va) == len(da) and all(bool(x == y) for x, y in zip(va, da))
        if t in ('SEQUENCE OF', 'SET OF'):
            if len(v) != len(d):
                return False
            sub = self.deref(btd['element'], bmod)
            return all(self.same(x, y, sub) for x, y in zip(v, d))
        if t in ('SEQUENCE', 'SET'):
            for m in self.members(btd, bmod):
                for mm in (m if isinstance(m, list) else [m]):
                    if mm is None:
                        continue
                    name = mm['name']
                    sub = self.deref(mm, bmod)
                    x, y = v.get(name, _ABSENT), d.get(name, _ABSENT)
                    if 'default' in mm:
                        dv = self.default_of(mm, sub)
                        x = dv if x is _ABSENT else x
                        y = dv if y is _ABSENT else y
                    if (x is _ABSENT) != (y is _ABSENT):
                        return False
                    if x is not _ABSENT and not self.same(x, y, sub):
                        return False
            return True
        raise _Unknown()


_ABSENT = object()


class _Unknown(Exception):
    pass


# =============================================================================================
# Contents octets borrowed from X.690 (REAL: 8.5 + 11.3, OBJECT IDENTIFIER: 8.19)
# =============================================================================================
def real_contents(x):
    """[X.690 8.5, 11.3] contents octets of a REAL value held as a Python float (base 2)"""
    if isinstance(x, int) and not isinstance(x, bool):
        x = float(x)
    if not isinstance(x, float):
        raise EncodeError('REAL value %r' % (x,))
    if x != x:
        return [0x42]                                        # 8.5.9 NOT-A-NUMBER
    if x == math.inf:
        return [0x40]                                        # 8.5.9 PLUS-INFINITY
    if x == -math.inf:
        return [0x41]                                        # 8.5.9 MINUS-INFINITY
    if x == 0.0:
        if math.copysign(1.0, x) < 0:
            return [0x43]                                    # 8.5.9 minus zero
        return []                                            # 8.5.2 plus zero: no contents octets
    sign = 1 if x < 0 else 0
    m, e = math.frexp(abs(x))                                # |x| = m * 2^e, 0.5 <= m < 1
    n = int(m * (1 << 53))                                   # exact: 53-bit significand
    e -= 53
    while n % 2 == 0:                                        # 11.3.1: mantissa odd (base 2, F = 0)
        n //= 2
        e += 1
    if e < 0:
        elen = ((-1 - e).bit_length() + 8) // 8
    else:
        elen = (e.bit_length() + 8) // 8                     # 8.5.7.4: two's complement exponent in
    eoct = list((e & ((1 << (8 * elen)) - 1)).to_bytes(elen, 'big'))     # the fewest octets (11.3.1)
    first = 0x80 | (sign << 6)                               # 8.5.7: binary, sign, base 2 (00), F = 0
    if elen <= 3:
        first |= elen - 1                                    # 8.5.7.4 a) - c)
        head = [first]
    else:
        head = [first | 3, elen]                             # 8.5.7.4 d)
    return head + eoct + list(n.to_bytes((n.bit_length() + 7) // 8, 'big'))     # 8.5.7.5 mantissa N


def oid_arcs(value):
    if hasattr(value, 'arcs'):                               # lib.oid.SymOid
        return list(value.arcs)
    if isinstance(value, str):
        try:
            return [int(x) for x in value.split('.')]
        except ValueError:
            raise EncodeError('OBJECT IDENTIFIER value %r' % (value,))
    raise EncodeError('OBJECT IDENTIFIER value %r' % (value,))


def _subidentifier(buf, v):
    """[X.690 8.19.2]: base 128, most significant group first, bit 8 set on all but the last octet,
    fewest octets possible; returns the number of octets"""
    n = int((v.bit_length() + 6) // 7)
    if n == 0:
        n = 1
    for i in reversed(range(n)):
        buf.uint(1 if i else 0, 1)
        buf.uint((v >> (7 * i)) & 0x7f, 7)
    return n


def oid_contents(buf, value):
    arcs = oid_arcs(value)
    if len(arcs) < 2:
        raise EncodeError('OBJECT IDENTIFIER with fewer than two arcs')
    a0, a1 = arcs[0], arcs[1]
    if a0 < 0 or a0 > 2 or a1 < 0 or (a0 < 2 and a1 > 39):  # [X.680 32 / X.660]
        raise EncodeError('OBJECT IDENTIFIER root arcs')
    n = _subidentifier(buf, a0 * 40 + a1)                    # [X.690 8.19.4]
    for a in arcs[2:]:
        if a < 0:
            raise EncodeError('negative OBJECT IDENTIFIER arc')
        n += _subidentifier(buf, a)
    return n


# =============================================================================================
def encode(parsed, module, type_name, value, aligned, numeric_enums=False, canonical=False):
    """complete PER encoding (11.1) of `value` of type `type_name` of `module` -> BitBuf"""
    per = _Per(parsed, aligned, numeric_enums, canonical)
    buf = BitBuf()
    per.encode_type(buf, {'type': type_name}, module, value)
    return per.complete(buf)
