"""Environment models for the text codecs (C02): what ``json.dumps``/``json.loads`` and
``ElementTree.tostring``/``ElementTree.fromstring`` do to the objects the asn1tools mapping
layers hand them, stated as their documented contracts so that symbolic leaves (SymStr, DigitStr,
SymInt, decimal tokens, SymOid) can flow through.  The stubs replace the module attributes
``jer.json`` / ``xer.ElementTree`` during a symbolic run only; every path's witness is pushed
through the REAL serialiser + an independent reader + the real parser afterwards (cross-validation
of these models), so a wrong model shows up as a harness error, not as a verdict.

JSON (RFC 8259 / CPython json):  dumps accepts dict (keys coerced to str), list/tuple (-> array),
str, int, float, bool, None; NaN/Infinity are written as the non-JSON tokens NaN/Infinity
(allow_nan default) -> not a valid JSON document; anything else raises TypeError.  loads(dumps(x))
returns the same structure with tuples as lists; a finite float comes back as the same double
(repr round-trips), an int as the same int.

XML 1.0 + ElementTree:  tostring requires str tags (well-formed only if they are Names) and
str-or-None text; it escapes & < > in character data; characters outside the Char production make
the document not well-formed (the harness constrains string inputs to Char, as the property does);
the parser (XML 1.0 section 2.11) turns CR LF and lone CR into LF; an element with empty content
has text None; white-space is otherwise preserved.
"""
import re
import z3

from symcore import E, Inconclusive
from pyfront import (SymInt, SymBool, SymStr, SymBytes, DigitStr, SymText, has_placeholder, text_items,
                     TOKEN_OPEN, TOKEN_CLOSE)

_NAME = re.compile(r'[A-Za-z_][A-Za-z0-9_.\-]*\Z')


class NotWellFormed(Exception):
    """the object handed to the serialiser does not yield a valid JSON / well-formed XML document"""


# ---------------------------------------------------------------------------------------------
# JSON
# ---------------------------------------------------------------------------------------------
def _json_norm(x, path='$'):
    if x is None or x is True or x is False:
        return x
    if isinstance(x, SymBool):
        return x
    if isinstance(x, (SymInt, SymStr, DigitStr, SymText)):
        return x
    if isinstance(x, bool):
        return x
    if isinstance(x, int):
        return x
    if isinstance(x, float):
        if x != x or x in (float('inf'), float('-inf')):
            raise NotWellFormed('%s: json.dumps writes %r as a bare token, which is not JSON' % (path, x))
        return x
    if isinstance(x, str):
        return x
    if isinstance(x, (list, tuple)):
        return [_json_norm(y, '%s[%d]' % (path, i)) for i, y in enumerate(x)]
    if isinstance(x, dict):
        out = {}
        for k, v in x.items():
            if isinstance(k, (SymStr, DigitStr, SymText, SymInt)):
                raise Inconclusive('symbolic JSON object key')
            if not isinstance(k, str):
                if k is None or isinstance(k, (int, float, bool)):
                    raise NotWellFormed('%s: object key %r is not a string (json coerces it to text)' % (path, k))
                raise TypeError('keys must be str, int, float, bool or None, not %s' % type(k).__name__)
            if k in out:
                raise NotWellFormed('%s: duplicate key %r' % (path, k))
            out[k] = _json_norm(v, '%s.%s' % (path, k))
        return out
    raise TypeError('Object of type %s is not JSON serializable' % type(x).__name__)


class JsonText:
    def __init__(self, obj, indent):
        self.obj, self.indent = obj, indent

    def encode(self, encoding='utf-8', errors='strict'):
        return JsonBytes(self)


class JsonBytes:
    def __init__(self, text):
        self.text = text

    def decode(self, encoding='utf-8', errors='strict'):
        return self.text

    def __len__(self):
        return 1


class JsonStub:
    """stands for the ``json`` module inside asn1tools.codecs.jer during a symbolic run"""
    JSONDecodeError = ValueError

    @staticmethod
    def dumps(obj, indent=None, separators=None, **kw):
        if kw:
            raise Inconclusive('json.dumps(%s) outside the model' % sorted(kw))
        return JsonText(_json_norm(obj), indent)

    @staticmethod
    def loads(s, **kw):
        if not isinstance(s, JsonText):
            raise Inconclusive('json.loads of a %s' % type(s).__name__)
        return _json_norm(s.obj)     # a fresh structure, as a parser returns


# ---------------------------------------------------------------------------------------------
# strict RFC 8259 validator (independent reader used on the REAL output in cross-validation)
# ---------------------------------------------------------------------------------------------
_NUM = re.compile(r'-?(?:0|[1-9][0-9]*)(?:\.[0-9]+)?(?:[eE][+-]?[0-9]+)?')
_WSJ = ' \t\n\r'


def json_validate(s):
    """returns the parsed value; raises ValueError when s is not a JSON text"""
    pos = 0
    n = len(s)

    def ws():
        nonlocal pos
        while pos < n and s[pos] in _WSJ:
            pos += 1

    def value():
        nonlocal pos
        ws()
        if pos >= n:
            raise ValueError('unexpected end')
        c = s[pos]
        if c == '{':
            pos += 1
            out = {}
            ws()
            if pos < n and s[pos] == '}':
                pos += 1
                return out
            while True:
                ws()
                if pos >= n or s[pos] != '"':
                    raise ValueError('object key expected at %d' % pos)
                k = string()
                ws()
                if pos >= n or s[pos] != ':':
                    raise ValueError('":" expected at %d' % pos)
                pos += 1
                out[k] = value()
                ws()
                if pos < n and s[pos] == ',':
                    pos += 1
                    continue
                if pos < n and s[pos] == '}':
                    pos += 1
                    return out
                raise ValueError('"," or "}" expected at %d' % pos)
        if c == '[':
            pos += 1
            out = []
            ws()
            if pos < n and s[pos] == ']':
                pos += 1
                return out
            while True:
                out.append(value())
                ws()
                if pos < n and s[pos] == ',':
                    pos += 1
                    continue
                if pos < n and s[pos] == ']':
                    pos += 1
                    return out
                raise ValueError('"," or "]" expected at %d' % pos)
        if c == '"':
            return string()
        for lit, val in (('true', True), ('false', False), ('null', None)):
            if s.startswith(lit, pos):
                pos += len(lit)
                return val
        m = _NUM.match(s, pos)
        if not m:
            raise ValueError('value expected at %d: %r' % (pos, s[pos:pos + 10]))
        pos = m.end()
        t = m.group(0)
        return float(t) if any(ch in t for ch in '.eE') else int(t)

    def string():
        nonlocal pos
        pos += 1
        out = []
        while True:
            if pos >= n:
                raise ValueError('unterminated string')
            c = s[pos]
            if c == '"':
                pos += 1
                break
            if ord(c) < 0x20:
                raise ValueError('control character in string at %d' % pos)
            if c == '\\':
                e = s[pos + 1:pos + 2]
                if e == 'u':
                    h = s[pos + 2:pos + 6]
                    if not re.fullmatch('[0-9a-fA-F]{4}', h):
                        raise ValueError('bad \\u escape')
                    out.append(chr(int(h, 16)))
                    pos += 6
                    continue
                if e not in '"\\/bfnrt' or not e:
                    raise ValueError('bad escape at %d' % pos)
                out.append({'b': '\b', 'f': '\f', 'n': '\n', 'r': '\r', 't': '\t'}.get(e, e))
                pos += 2
                continue
            out.append(c)
            pos += 1
        t = ''.join(out)
        # join surrogate pairs written as two \u escapes
        return t.encode('utf-16', 'surrogatepass').decode('utf-16', 'surrogatepass')
    v = value()
    ws()
    if pos != n:
        raise ValueError('text continues after the JSON value at %d' % pos)
    return v


# ---------------------------------------------------------------------------------------------
# XML
# ---------------------------------------------------------------------------------------------
def xml_char_cond(c):
    """z3: BV21 code point is an XML 1.0 Char"""
    return z3.Or(c == 0x9, c == 0xA, c == 0xD, z3.And(z3.UGE(c, 0x20), z3.ULE(c, 0xD7FF)),
                 z3.And(z3.UGE(c, 0xE000), z3.ULE(c, 0xFFFD)), z3.And(z3.UGE(c, 0x10000), z3.ULE(c, 0x10FFFF)))


def _xml_char_ok(ch):
    o = ord(ch)
    return o in (9, 10, 13) or 0x20 <= o <= 0xD7FF or 0xE000 <= o <= 0xFFFD or 0x10000 <= o <= 0x10FFFF


def _parsed_text(t, cr_escaped, where):
    """character data after serialisation and parsing"""
    if t is None:
        return None
    if isinstance(t, (DigitStr, SymText)):
        return t if len(t) > 0 else None     # digits / arcs: no CR, no markup
    if isinstance(t, str):
        if has_placeholder(t):
            out = []
            raw = list(t)
            i = 0
            while i < len(raw):
                ch = raw[i]
                it = text_items(ch)[0] if has_placeholder(ch) and ch not in (TOKEN_OPEN, TOKEN_CLOSE) else ch
                if not isinstance(it, str) and it[0] == 'chr':
                    c = it[1]
                    if E().branch(z3.Not(xml_char_cond(c))):
                        raise NotWellFormed('%s: a character of the value is not an XML Char' % where)
                    if not cr_escaped and E().branch(c == 0x0D):
                        nxt = raw[i + 1] if i + 1 < len(raw) else None
                        nit = text_items(nxt)[0] if nxt is not None and has_placeholder(nxt) and nxt not in (TOKEN_OPEN, TOKEN_CLOSE) else nxt
                        is_lf = (nit == '\n') if isinstance(nit, str) or nit is None else (nit[0] == 'chr' and E().branch(nit[1] == 0x0A))
                        if not is_lf:
                            out.append('\n')
                        i += 1
                        continue
                out.append(ch)
                i += 1
            return ''.join(out) or None
        for ch in t:
            if not _xml_char_ok(ch):
                raise NotWellFormed('%s: character U+%04X is not an XML Char' % (where, ord(ch)))
        if not cr_escaped:
            t = t.replace('\r\n', '\n').replace('\r', '\n')
        return t if t else None
    if isinstance(t, SymStr):
        out = []
        cps = t.cp
        i = 0
        while i < len(cps):
            c = cps[i]
            if isinstance(c, str):
                if not _xml_char_ok(c):
                    raise NotWellFormed('%s: character U+%04X is not an XML Char' % (where, ord(c)))
                is_cr = (c == '\r')
            else:
                if E().branch(z3.Not(xml_char_cond(c))):
                    raise NotWellFormed('%s: a character of the value is not an XML Char' % where)
                is_cr = E().branch(c == 0x0D)
            if is_cr and not cr_escaped:
                nxt = cps[i + 1] if i + 1 < len(cps) else None
                if nxt is not None and ((nxt == '\n') if isinstance(nxt, str) else E().branch(nxt == 0x0A)):
                    i += 1          # CR LF -> LF: the CR disappears
                    continue
                out.append('\n')
            else:
                out.append(c)
            i += 1
        return SymStr(out) if out else None
    raise TypeError('cannot serialize %r (type %s)' % (t, type(t).__name__))


class XmlDoc:
    """result of ElementTree.tostring(): the tree + what is known about the byte form"""

    def __init__(self, root, cr_escaped=False):
        self.root, self.cr_escaped = root, cr_escaped

    def replace(self, old, new):
        if bytes(old) == b'\r' and bytes(new) in (b'&#13;', b'&#xD;', b'&#xd;', b'&#x0D;'):
            return XmlDoc(self.root, True)
        raise Inconclusive('bytes.replace(%r, %r) on serialised XML' % (old, new))

    def decode(self, encoding='utf-8', errors='strict'):
        return self

    def encode(self, encoding='utf-8', errors='strict'):
        return self

    def __len__(self):
        return 1


def make_xml_stub(real):
    """namespace standing for ``xml.etree.ElementTree`` inside asn1tools.codecs.xer"""

    class XmlStub:
        Element = real.Element
        SubElement = real.SubElement
        ParseError = real.ParseError

        @staticmethod
        def tostring(element, encoding=None, method=None, **kw):
            if kw or method not in (None, 'xml'):
                raise Inconclusive('ElementTree.tostring options outside the model')
            check_tree(element)
            return XmlDoc(element)

        @staticmethod
        def fromstring(doc, parser=None):
            if not isinstance(doc, XmlDoc):
                raise Inconclusive('ElementTree.fromstring of a %s' % type(doc).__name__)
            return parse_model(doc.root, doc.cr_escaped, real)
    return XmlStub


def check_tree(el, path=''):
    tag = el.tag
    where = '%s/%s' % (path, tag if isinstance(tag, str) else '?')
    if not isinstance(tag, str):
        raise TypeError('cannot serialize %r (type %s)' % (tag, type(tag).__name__))
    if not _NAME.match(tag):
        raise NotWellFormed('%s: tag %r is not an XML Name' % (where, tag))
    t = el.text
    if t is not None and not isinstance(t, (str, SymStr, DigitStr, SymText)):
        raise TypeError('cannot serialize %r (type %s)' % (t, type(t).__name__))
    if el.attrib:
        raise Inconclusive('attributes outside the XML model')
    for ch in el:
        check_tree(ch, where)


def parse_model(el, cr_escaped, real, path=''):
    where = '%s/%s' % (path, el.tag)
    new = real.Element(el.tag)
    new.text = _parsed_text(el.text, cr_escaped, where)
    tail = el.tail
    if tail is not None and not (isinstance(tail, str) and tail.strip(' \t\n\r') == ''):
        raise Inconclusive('non-blank tail text')
    new.tail = tail
    for ch in el:
        new.append(parse_model(ch, cr_escaped, real, where))
    return new
