#!/verif/.venv/bin/python
"""Concrete differential test of the X.696 reference model (models/x696.py) against
asn1tools' OER codec, plus a comparison with the octets published in the worked examples
(Overview of OER, test vectors of /repo/tests/test_oer.py).

Exit status 0 iff every difference between the model and asn1tools is covered by an
entry of KNOWN_DEVIATIONS (deviations of asn1tools from X.696, decided from the text of
the standard) and the model reproduces every published vector it is expected to.

    /verif/.venv/bin/python /verif/models/test_x696.py [-v] [--no-symbolic]

Parts: (1) differential run over the vectors of /repo/tests/test_oer.py, hand-written corner cases, the
worked examples (overview_of_oer, x691_a1..a4, ieee1609_2), the framework corpus and a sweep over
specification files of the repository with seeded random values; (2) unit vectors of the primitives;
(3) symbolic smoke test (the model on pyfront proxies over every path of lib.symvalue.Gen, checked against
its own concrete run under a solver model).
"""
import os
import sys
import random
import importlib.util
from copy import deepcopy

sys.path.insert(0, '/verif')
sys.path.insert(0, '/repo')

import asn1tools                                    # noqa: E402  (plain, un-instrumented)
from models import x696                             # noqa: E402
from lib import symvalue                            # noqa: E402

VERBOSE = '-v' in sys.argv

# ---------------------------------------------------------------------------------------
# Deviations of asn1tools (pinned tree in /repo) from Rec. ITU-T X.696 (08/2015).
# key -> (justification citing the clause, predicate(case) telling which differences it covers)
# ---------------------------------------------------------------------------------------
KNOWN_DEVIATIONS = {}
_DEV_PRED = {}


def deviation(key, why, pred):
    KNOWN_DEVIATIONS[key] = why
    _DEV_PRED[key] = pred


class Case:
    def __init__(self, source, text, parsed, module, type_name, value, expected=None,
                 numeric_enums=False):
        self.source = source
        self.text = text
        self.parsed = parsed
        self.module = module
        self.type_name = type_name
        self.value = value
        self.expected = expected
        self.numeric_enums = numeric_enums
        self.ours = self.theirs = None     # bytes or ('error', text)

    def td(self):
        m = x696.Model(self.parsed)
        return m.chain({'type': self.type_name}, self.module)

    def ident(self):
        return '%s/%s' % (self.source, self.type_name)


def _types_in(case, td=None, module=None, seen=None, out=None):
    """names of builtin types reachable from the case's type, with the descriptor chains"""
    m = x696.Model(case.parsed)
    out = [] if out is None else out
    seen = set() if seen is None else seen
    if td is None:
        td, module = {'type': case.type_name}, case.module
    try:
        ch = m.chain(td, module)
    except NotImplementedError:
        return out
    base, bmod = ch[-1]
    key = (id(base), bmod)
    out.append((ch, base, bmod))
    if key in seen:
        return out
    seen.add(key)
    if base['type'] in ('SEQUENCE', 'SET', 'CHOICE'):
        for mm in m.members(base, bmod) if base['type'] != 'CHOICE' else base['members']:
            for x in (mm if isinstance(mm, list) else [mm]):
                if isinstance(x, dict) and 'type' in x:
                    _types_in(case, x, bmod, seen, out)
    elif base['type'] in ('SEQUENCE OF', 'SET OF'):
        _types_in(case, base['element'], bmod, seen, out)
    return out


def _has(case, pred):
    return any(pred(ch, base, bmod) for ch, base, bmod in _types_in(case))


def _M(c):
    return x696.Model(c.parsed)


def _variant(c, **attrs):
    """encoding by the model with diagnostic (non-standard) switches set"""
    from lib.bits import BitBuf
    m = x696.Model(c.parsed, c.numeric_enums)
    for k, v in attrs.items():
        assert hasattr(m, k)
        setattr(m, k, v)
    try:
        return m.encode(BitBuf(), {'type': c.type_name}, c.module, c.value).concrete()
    except (x696.ModelError, NotImplementedError) as e:
        return ('error', str(e))


def _untagged(model, m, mod, kinds):
    """component/alternative m has no tag of its own and its builtin type is one of kinds"""
    ch = model.chain(m, mod)
    return not any('tag' in t for t, _m in ch) and ch[-1][0]['type'] in kinds


def _flat(members):
    for m in members:
        for x in (m if isinstance(m, list) else [m]):
            if isinstance(x, dict) and 'components-of' not in x:
                yield x


def _levels(ch, key):
    return [(i, t[key]) for i, (t, _m) in enumerate(ch) if t.get(key)]


STRINGISH = set(x696.KNOWN_MULTIPLIER) | set(x696.OTHER_STRINGS) | {'OCTET STRING', 'BIT STRING'}

# -- the deviations of asn1tools from the standard ------------------------------------------
deviation(
    'utf8string-fixed-size',
    'X.696 27.2-27.4: only known-multiplier character string types (X.680 41: IA5String, VisibleString, '
    'PrintableString, NumericString, BMPString, UniversalString) with a fixed OER-visible SIZE are encoded '
    'without a length determinant; UTF8String and the other non-known-multiplier types always carry one (their '
    'SIZE counts characters, not octets, so a decoder could not delimit the value). asn1tools drops the length '
    'determinant for every character string type with SIZE(n).',
    lambda c: _has(c, lambda ch, b, m: b['type'] in x696.OTHER_STRINGS and _M(c).fixed_size(ch) is not None))

deviation(
    'bmp-universal-fixed-size',
    'X.696 27.2: BMPString / UniversalString are known-multiplier types: with a fixed SIZE(n) the encoding is the '
    '2n / 4n octets alone. asn1tools always emits a length determinant for these two types.',
    lambda c: _has(c, lambda ch, b, m: b['type'] in ('BMPString', 'UniversalString') and
                   _M(c).fixed_size(ch) is not None))

deviation(
    'size-constraint-on-typereference',
    'X.696 8.2.2 b) + 13.2/14.1/27.2: a non-extensible SIZE constraint is OER-visible wherever it is applied, also '
    'on a type reference ("initial NameString (SIZE(1))", "D ::= OV (SIZE(2))"); the effective size is then fixed and '
    'no length determinant is sent. asn1tools only looks at the SIZE of the referenced definition.',
    lambda c: _has(c, lambda ch, b, m: b['type'] in STRINGISH and
                   any(i < len(ch) - 1 for i, _r in _levels(ch, 'size'))))

deviation(
    'size-constraint-union',
    'X.696 8.2.2/14.1 (13.2, 27.2): the fixed-size form needs an effective SIZE constraint with a single value; '
    'SIZE(1 | 3) permits 1..3. asn1tools takes the first element of the union as the fixed size and sends no length '
    'determinant (the decoder cannot delimit a 3-octet value).',
    lambda c: _has(c, lambda ch, b, m: b['type'] in STRINGISH and
                   any(None not in r and len(r) > 1 for _i, r in _levels(ch, 'size'))))

deviation(
    'value-constraint-union',
    'X.696 10.1-10.3: the width of an INTEGER follows from the effective bounds of all OER-visible constraints; '
    '(0 | 1000) has bounds 0..1000 -> 2 octets, (-1 | 70000) -> 4 octets signed. asn1tools uses the first element '
    'of the union only (1 octet; 1000 cannot be encoded).',
    lambda c: _has(c, lambda ch, b, m: b['type'] == 'INTEGER' and
                   any(None not in r and len(r) > 1 for _i, r in _levels(ch, 'restricted-to'))))

deviation(
    'value-constraint-min-max-of-parent',
    'X.680 51.4 + X.696 10.1: in "W (MIN..255)" with W ::= INTEGER (0..1000) MIN is the lower bound of the parent, the '
    'effective constraint is 0..255 -> one octet. asn1tools encodes two octets.',
    lambda c: _has(c, lambda ch, b, m: b['type'] == 'INTEGER' and any(
        i < len(ch) - 1 and any(isinstance(x, tuple) and ('MIN' in x or 'MAX' in x) for x in r)
        for i, r in _levels(ch, 'restricted-to'))))

deviation(
    'contained-subtype',
    'X.696 8.2.2 f): a contained subtype constraint "INTEGER (Z)" is OER-visible when Z carries an OER-visible '
    'constraint. asn1tools fails to compile the specification (TypeError).',
    lambda c: isinstance(c.theirs, tuple) and _has(c, lambda ch, b, m: any(
        any(isinstance(x, dict) for x in r) for _i, r in _levels(ch, 'restricted-to'))))

deviation(
    'real-minus-zero',
    'X.696 12.4 -> X.690 8.5.3/8.5.9: minus zero is the single contents octet 43 (encoding 01 43); asn1tools encodes '
    'it as plus zero (00), the sign is lost.',
    lambda c: '-0.0' in repr(c.value) and _has(c, lambda ch, b, m: b['type'] == 'REAL'))

deviation(
    'extension-addition-group',
    'X.696 16.4/16.5 (with X.680 25): an ExtensionAdditionGroup "[[ ... ]]" is ONE extension addition: one bit in the '
    'presence bitmap and one open type holding its components encoded as a SEQUENCE (own preamble for its OPTIONAL/'
    'DEFAULT components). asn1tools flattens the group: a bitmap bit and an open type per component.',
    lambda c: _has(c, lambda ch, b, m: b['type'] in ('SEQUENCE', 'SET') and
                   any(isinstance(x, list) for x in b['members'])) and
    _variant(c, flatten_groups=True) == c.theirs)      # the misreading reproduces asn1tools exactly

deviation(
    'untagged-choice-alternative',
    'X.696 20.1 (X.680 29/31): an alternative that is an untagged CHOICE contributes the tags of its own alternatives; '
    'the outer CHOICE writes the outermost tag of the chosen value (here that of the inner alternative). asn1tools has '
    'no tag for such an alternative and raises TypeError at encode time (acknowledged in its test suite: '
    'test_choice_default_tags "This is a bug").',
    lambda c: isinstance(c.theirs, tuple) and 'NoneType' in c.theirs[1] and _has(
        c, lambda ch, b, m: b['type'] == 'CHOICE' and not _M(c).automatic(b, m) and
        any(_untagged(_M(c), x, m, ('CHOICE',)) for x in _flat(b['members']))))

deviation(
    'set-untagged-choice',
    'X.696 18.1 -> X.680 8.6: for the canonical order of SET components an untagged CHOICE counts with the smallest tag '
    'of its alternatives. asn1tools fails to compile such a SET (sorting None against bytes, TypeError).',
    lambda c: isinstance(c.theirs, tuple) and c.theirs[1].startswith('compile') and _has(
        c, lambda ch, b, m: b['type'] == 'SET' and not _M(c).automatic(b, m) and
        any(_untagged(_M(c), x, m, ('CHOICE',)) for x in _flat(b['members']))))


def _lex_order_differs(c, b, m):
    model = _M(c)
    if b['type'] != 'SET' or model.automatic(b, m):
        return False
    try:
        tags = [model.min_tag(x, m) for x in symvalue.members_split({'members': model.members(b, m)})[0]]
    except Exception:
        return False
    from lib.bits import BitBuf
    return sorted(tags) != sorted(tags, key=lambda t: x696.encode_tag(BitBuf(), *t).concrete())


deviation(
    'set-order-long-tags',
    'X.696 18.1 -> X.680 8.6: SET components are ordered by class, then by tag NUMBER. asn1tools sorts the encoded tag '
    'octets lexicographically, which differs once tag numbers need a different count of base-128 octets '
    '([16384] = BF 81 80 00 sorts before [256] = BF 82 00 and [16383] = BF FF 7F).',
    lambda c: _has(c, lambda ch, b, m: _lex_order_differs(c, b, m)))

deviation(
    'graphicstring-tag',
    'X.680 8.4 table 1 / 41: GraphicString (and ObjectDescriptor, tag 7) have universal tags 25 and 7; X.696 20.1 '
    'writes that tag for an untagged CHOICE alternative. asn1tools gives GraphicString the tag of GeneralString (27).',
    lambda c: _has(c, lambda ch, b, m: b['type'] == 'CHOICE' and not _M(c).automatic(b, m) and
                   any(_untagged(_M(c), x, m, ('GraphicString', 'ObjectDescriptor'))
                       for x in _flat(b['members']))))


def _components_of_tagged(c, b, m):
    model = _M(c)
    if b['type'] not in ('SEQUENCE', 'SET') or not model.automatic(b, m):
        return False
    return any('tag' in x for x in _flat(model.members(b, m)))


deviation(
    'components-of-automatic-tagging',
    'X.680 25.3: whether automatic tagging applies to a SEQUENCE/SET is decided on the written component list, before '
    'the COMPONENTS OF transformation; tagged components brought in by COMPONENTS OF do not switch it off, the components '
    'then get [0], [1], ... (25.7) and a SET keeps its textual order (X.696 18.1). asn1tools keeps the imported tags '
    'and orders the SET by them.',
    lambda c: _has(c, lambda ch, b, m: _components_of_tagged(c, b, m)))

deviation(
    'relative-oid',
    'X.696 22: RELATIVE-OID is length determinant + X.690 8.20 contents. asn1tools cannot compile the type.',
    lambda c: isinstance(c.theirs, tuple) and _has(c, lambda ch, b, m: b['type'] == 'RELATIVE-OID'))

# -- differences that are NOT deviations: both encodings are valid BASIC-OER (sender's options) ----
deviation(
    'option:real-default-not-omitted',
    "SENDER'S OPTION, not a deviation (X.696 16.x: a BASIC-OER sender may encode or omit a component equal to its "
    'DEFAULT). The parser keeps a REAL DEFAULT as the string "1.5", so asn1tools never recognises the value as the '
    'default and encodes it; the model omits it.',
    lambda c: _has(c, lambda ch, b, m: b['type'] in ('SEQUENCE', 'SET') and any(
        'default' in x and isinstance(x['default'], str) and _M(c).chain(x, m)[-1][0]['type'] == 'REAL'
        for x in _flat(_M(c).members(b, m)))))


deviation(
    'option:bitstring-default-not-omitted',
    "SENDER'S OPTION, not a deviation (X.696 16): asn1tools does not recognise a BIT STRING value as equal to a DEFAULT "
    "written as bstring/hstring ('110'B, 'C'H) and encodes it; the model omits it. Both are valid BASIC-OER.",
    lambda c: _has(c, lambda ch, b, m: b['type'] in ('SEQUENCE', 'SET') and any(
        'default' in x and isinstance(x['default'], str) and x['default'][:2] in ('0b', '0x') and
        _M(c).chain(x, m)[-1][0]['type'] == 'BIT STRING' for x in _flat(_M(c).members(b, m)))) and
    not isinstance(c.ours, tuple) and not isinstance(c.theirs, tuple) and len(c.theirs) > len(c.ours))


# ---------------------------------------------------------------------------------------
CASES = []


def spec(source, text, datas, numeric_enums=False):
    parsed = asn1tools.parse_string(text)
    module = next(iter(parsed))
    for item in datas:
        type_name, value = item[0], item[1]
        expected = item[2] if len(item) > 2 else None
        CASES.append(Case(source, text, parsed, module, type_name, value, expected, numeric_enums))


def mod(body, tags='AUTOMATIC TAGS'):
    return 'Foo DEFINITIONS %s ::= BEGIN %s END' % (tags, body)


# ---- A. the vectors of /repo/tests/test_oer.py (types, values, expected octets) -----------
spec('t:boolean', mod('A ::= BOOLEAN'), [('A', True, b'\xff'), ('A', False, b'\x00')])

spec('t:integer', mod(
    'A ::= INTEGER B ::= INTEGER (-128..127) C ::= INTEGER (-32768..32767) '
    'D ::= INTEGER (-2147483648..2147483647) '
    'E ::= INTEGER (-9223372036854775808..9223372036854775807) F ::= INTEGER (0..255) '
    'G ::= INTEGER (0..65535) H ::= INTEGER (0..4294967295) I ::= INTEGER (0..18446744073709551615) '
    'J ::= INTEGER (0..18446744073709551616) K ::= INTEGER (1..MAX) L ::= INTEGER (MIN..0)'), [
    ('A', 0, b'\x01\x00'), ('A', 128, b'\x02\x00\x80'), ('A', 100000, b'\x03\x01\x86\xa0'),
    ('A', -255, b'\x02\xff\x01'), ('A', -1234567, b'\x03\xed\x29\x79'), ('B', -2, b'\xfe'),
    ('C', -2, b'\xff\xfe'), ('D', -2, b'\xff\xff\xff\xfe'),
    ('E', -2, b'\xff\xff\xff\xff\xff\xff\xff\xfe'), ('F', 128, b'\x80'), ('G', 128, b'\x00\x80'),
    ('G', 1000, b'\x03\xe8'), ('H', 128, b'\x00\x00\x00\x80'),
    ('I', 128, b'\x00\x00\x00\x00\x00\x00\x00\x80'), ('B', 1, b'\x01'), ('C', 1, b'\x00\x01'),
    ('D', 1, b'\x00\x00\x00\x01'), ('E', 1, b'\x00\x00\x00\x00\x00\x00\x00\x01'),
    ('B', 127, b'\x7f'), ('C', 127, b'\x00\x7f'), ('D', 127, b'\x00\x00\x00\x7f'),
    ('E', 127, b'\x00\x00\x00\x00\x00\x00\x00\x7f'),
    ('I', 1, b'\x00\x00\x00\x00\x00\x00\x00\x01'), ('J', 1, b'\x01\x01'), ('K', 1, b'\x01\x01'),
    ('K', 127, b'\x01\x7f'), ('K', 128, b'\x01\x80'), ('L', -128, b'\x01\x80'),
    # further values
    ('A', 127), ('A', -128), ('A', -129), ('A', 32767), ('A', 32768), ('A', -32768), ('A', -32769),
    ('A', 2 ** 63), ('A', -2 ** 63 - 1), ('A', 2 ** 1016), ('A', -2 ** 1023), ('A', 2 ** 1023),
    ('J', 2 ** 64), ('J', 255), ('J', 256), ('K', 2 ** 64), ('K', 65535), ('K', 65536),
    ('L', 0), ('L', -129), ('L', -2 ** 64), ('I', 2 ** 64 - 1), ('H', 2 ** 32 - 1), ('E', -2 ** 63),
    ('E', 2 ** 63 - 1), ('D', -2 ** 31), ('C', -32768), ('B', -128)])

spec('t:real', mod(
    'A ::= REAL '
    'B ::= REAL (WITH COMPONENTS { mantissa (-16777215..16777215), base (2), exponent (-149..104) }) '
    'C ::= REAL (WITH COMPONENTS { mantissa (-9007199254740991..9007199254740991), base (2), '
    'exponent (-1074..971) }) '
    'D ::= REAL (WITH COMPONENTS { mantissa (-1..1), base (10), exponent (-1..1) }) '
    'E ::= REAL (WITH COMPONENTS { mantissa (1..2) })'), [
    ('A', 0.0, b'\x00'), ('A', 1.0, b'\x03\x80\x00\x01'), ('A', 100.0, b'\x03\x80\x02\x19'),
    ('A', -100.0, b'\x03\xc0\x02\x19'), ('B', 0.0, b'\x00\x00\x00\x00'),
    ('B', 1.0, b'\x3f\x80\x00\x00'), ('B', 2 ** -126, b'\x00\x80\x00\x00'),
    ('B', (1 - 2 ** -24) * 2 ** 128, b'\x7f\x7f\xff\xff'),
    ('C', 0.0, b'\x00\x00\x00\x00\x00\x00\x00\x00'), ('C', 1.0, b'\x3f\xf0\x00\x00\x00\x00\x00\x00'),
    ('C', 2 ** -1022, b'\x00\x10\x00\x00\x00\x00\x00\x00'),
    ('C', (2 - 2 ** -52) * 2 ** 1023, b'\x7f\xef\xff\xff\xff\xff\xff\xff'),
    ('A', 0.1), ('A', -1.5), ('A', 1e-300), ('A', 3.0e38), ('A', 2.0 ** -1074), ('A', 1.7e308),
    ('A', 2.0 ** 300), ('A', 2.0 ** -300), ('A', float('inf')), ('A', float('-inf')),
    ('A', -0.0), ('A', 12.336301802675477), ('A', 0.5), ('A', 3.0), ('A', 1024.0),
    ('B', -1.5), ('B', 0.5), ('B', float('inf')), ('B', -0.0), ('C', 0.1), ('C', float('-inf')),
    ('D', 1.0), ('E', 1.0), ('E', 2.0)])

spec('t:real-subset', mod(
    'A ::= REAL (WITH COMPONENTS { mantissa (-100..100), base (2), exponent (-10..10) }) '
    'B ::= REAL (WITH COMPONENTS { mantissa (-16777216..16777216), base (2), exponent (-149..104) })'),
    [('A', 1.0), ('A', 48.0), ('B', 1.0), ('B', 0.1)])

spec('t:null', mod('A ::= NULL'), [('A', None, b'')])

spec('t:bitstring', mod(
    'A ::= BIT STRING B ::= BIT STRING (SIZE (9)) C ::= BIT STRING (SIZE (9, ...)) '
    'D ::= BIT STRING (SIZE (5..7))'), [
    ('A', (b'\x40', 4), b'\x02\x04\x40'), ('A', (b'\x41', 8), b'\x02\x00\x41'),
    ('B', (b'\x12\x80', 9), b'\x12\x80'), ('C', (b'\x12\x80', 9), b'\x03\x07\x12\x80'),
    ('D', (b'\x34', 6), b'\x02\x02\x34'),
    ('A', (b'', 0)), ('A', (b'\xff' * 200, 1600)), ('A', (b'\xff' * 127, 1016)),
    ('A', (b'\xff' * 126, 1008)), ('A', (b'\xff' * 126 + b'\x80', 1009)),
    ('A', (b'\x80', 1)), ('A', (b'\xfe', 7)), ('A', (b'\xff\x80', 9)), ('A', (b'\xff\xff', 16))])

spec('t:bitstring-dirty', mod('A ::= BIT STRING B ::= BIT STRING (SIZE (9))'), [
    ('A', (b'\xff', 4)), ('A', (b'\x41', 1)), ('B', (b'\x12\xff', 9)), ('A', (b'\xff\xff', 3))])

spec('t:octetstring', mod(
    'A ::= OCTET STRING B ::= OCTET STRING (SIZE (3)) C ::= OCTET STRING (SIZE (3, ...)) '
    'D ::= OCTET STRING (SIZE (3..7))'), [
    ('A', b'\x12\x34', b'\x02\x12\x34'), ('A', 999 * b'\x01', b'\x82\x03\xe7' + 999 * b'\x01'),
    ('B', b'\x12\x34\x56', b'\x12\x34\x56'), ('C', b'\x12\x34\x56', b'\x03\x12\x34\x56'),
    ('D', b'\x12\x34\x56', b'\x03\x12\x34\x56'),
    ('A', b''), ('A', 127 * b'\x02'), ('A', 128 * b'\x02'), ('A', 255 * b'\x02'), ('A', 256 * b'\x02')])

spec('t:oid', mod('A ::= OBJECT IDENTIFIER'), [
    ('A', '1.2', b'\x01\x2a'), ('A', '1.2.3321', b'\x03\x2a\x99\x79'),
    ('A', '2.999.3'), ('A', '0.0'), ('A', '0.39'), ('A', '1.39.127.128.16383.16384'), ('A', '2.0'),
    ('A', '2.47'), ('A', '2.48'), ('A', '2.100000.1'), ('A', '1.2.840.113549.1.1.11'),
    ('A', '1.3.' + '.'.join(['268435455'] * 40))])

spec('t:enumerated', mod(
    'A ::= ENUMERATED { a(1) } B ::= ENUMERATED { a(128) } C ::= ENUMERATED { a(0), b(127) } '
    'D ::= ENUMERATED { a(0), ..., b(127) } E ::= ENUMERATED { a(-1), b(1234) } '
    'F ::= ENUMERATED { a(-16777216), b(-8388608), c(-65536), d(-32768), e(-128) } '
    'G ::= ENUMERATED { a, b, ..., c(255), d(256), e(32767), f(32768), g(-129), h(8388607), i(8388608) }'), [
    ('A', 'a', b'\x01'), ('B', 'a', b'\x82\x00\x80'), ('C', 'a', b'\x00'), ('C', 'b', b'\x7f'),
    ('D', 'a', b'\x00'), ('D', 'b', b'\x7f'), ('E', 'a', b'\x81\xff'), ('E', 'b', b'\x82\x04\xd2'),
    ('F', 'a', b'\x84\xff\x00\x00\x00'), ('F', 'b', b'\x83\x80\x00\x00'),
    ('F', 'c', b'\x83\xff\x00\x00'), ('F', 'd', b'\x82\x80\x00'), ('F', 'e', b'\x81\x80'),
    ('G', 'a'), ('G', 'b'), ('G', 'c'), ('G', 'd'), ('G', 'e'), ('G', 'f'), ('G', 'g'), ('G', 'h'),
    ('G', 'i')])

spec('t:enumerated-numeric', mod('A ::= ENUMERATED { a(1), b(300), c(-5) }'),
     [('A', 1), ('A', 300), ('A', -5)], numeric_enums=True)

spec('t:sequence', mod(
    'A ::= SEQUENCE {} B ::= SEQUENCE { a INTEGER DEFAULT 0 } C ::= SEQUENCE { a BOOLEAN } '
    'D ::= SEQUENCE { a BOOLEAN, ... } E ::= SEQUENCE { a BOOLEAN, ..., b BOOLEAN, c BOOLEAN } '
    'F ::= SEQUENCE { a BOOLEAN, ..., [[ b BOOLEAN ]] } G ::= SEQUENCE { a BOOLEAN, ..., b BOOLEAN OPTIONAL } '
    'H ::= SEQUENCE { a H OPTIONAL } I ::= SEQUENCE { a BOOLEAN OPTIONAL } '
    'J ::= I (WITH COMPONENTS { a PRESENT }) K ::= I (WITH COMPONENTS { a ABSENT }) L ::= I (J | K) '
    'M ::= SEQUENCE { a D, b INTEGER } N ::= SEQUENCE { a E, b INTEGER } '
    'O ::= SEQUENCE { a BOOLEAN, ..., b NULL }'), [
    ('A', {}, b''), ('B', {'a': 0}, b'\x00'), ('B', {'a': 1}, b'\x80\x01\x01'),
    ('C', {'a': True}, b'\xff'), ('D', {'a': True}, b'\x00\xff'), ('E', {'a': True}, b'\x00\xff'),
    ('E', {'a': True, 'b': True, 'c': True}, b'\x80\xff\x02\x06\xc0\x01\xff\x01\xff'),
    ('F', {'a': True}, b'\x00\xff'), ('F', {'a': True, 'b': True}, b'\x80\xff\x02\x07\x80\x01\xff'),
    ('G', {'a': True}, b'\x00\xff'), ('G', {'a': True, 'b': True}, b'\x80\xff\x02\x07\x80\x01\xff'),
    ('H', {}, b'\x00'), ('H', {'a': {}}, b'\x80\x00'), ('J', {'a': True}, b'\x80\xff'),
    ('K', {}, b'\x00'), ('L', {'a': True}, b'\x80\xff'), ('L', {}, b'\x00'),
    ('N', {'a': {'a': True, 'b': True}, 'b': 5}, b'\x80\xff\x02\x06\x80\x01\xff\x01\x05'),
    ('O', {'a': True, 'b': None}, b'\x80\xff\x02\x07\x80\x00'),
    ('B', {}, b'\x00'), ('E', {'a': False, 'b': True}),
    ('H', {'a': {'a': {'a': {}}}}), ('M', {'a': {'a': False}, 'b': -1})])

spec('t:set', mod('A ::= SET { a [444] INTEGER, b [5] INTEGER, c [APPLICATION 5] INTEGER }'),
     [('A', {'a': 5, 'b': 6, 'c': 7}, b'\x01\x07\x01\x06\x01\x05')])

spec('t:sequence-of', mod('A ::= SEQUENCE OF INTEGER B ::= SEQUENCE (SIZE (129)) OF INTEGER '
                          'C ::= SET OF INTEGER (0..255) D ::= SEQUENCE (SIZE (2)) OF BOOLEAN'), [
    ('A', [], b'\x01\x00'), ('A', [1, 2], b'\x01\x02\x01\x01\x01\x02'),
    ('A', 1000 * [0], b'\x02\x03\xe8' + 1000 * b'\x01\x00'),
    ('B', 129 * [2], b'\x01\x81' + 129 * b'\x01\x02'),
    ('A', 255 * [1]), ('A', 256 * [1]), ('C', [3, 1, 2]), ('C', []),
    ('D', [True, False])])

spec('t:choice', mod(
    'A ::= CHOICE { a BOOLEAN } B ::= CHOICE { a BOOLEAN, ..., b BOOLEAN, c INTEGER } '
    'C ::= CHOICE { a CHOICE { a [3] INTEGER } } '
    'D ::= CHOICE { a [62] BOOLEAN, b [APPLICATION 63] BOOLEAN, c [PRIVATE 963] BOOLEAN }'), [
    ('A', ('a', True), b'\x80\xff'), ('B', ('a', True), b'\x80\xff'),
    ('B', ('b', True), b'\x81\x01\xff'), ('B', ('c', 0), b'\x82\x02\x01\x00'),
    ('B', ('c', 1000), b'\x82\x03\x02\x03\xe8'), ('C', ('a', ('a', 150)), b'\x80\x83\x02\x00\x96'),
    ('D', ('a', False), b'\xbe\x00'), ('D', ('b', False), b'\x7f\x3f\x00'),
    ('D', ('c', False), b'\xff\x87\x43\x00')])

spec('t:choice-default-tags', mod('A ::= CHOICE { a CHOICE { aa INTEGER } }', tags=''),
     [('A', ('a', ('aa', 1)), b'\x02\x02\x01\x01')])

for _t, _v, _e in (('UTF8String', 'foo', b'foo'), ('NumericString', '123', b'123'),
                   ('PrintableString', 'foo', b'foo'), ('IA5String', 'foo', b'foo'),
                   ('VisibleString', 'foo', b'foo')):
    spec('t:' + _t, mod('A ::= %s B ::= %s (SIZE (3)) C ::= %s (SIZE (3, ...)) D ::= %s (SIZE (3..7))'
                        % (_t, _t, _t, _t)),
         [('A', _v, b'\x03' + _e),
          ('B', _v, (b'\x03' + _e) if _t == 'UTF8String' else _e),   # X.696 27.4: see KNOWN_DEVIATIONS
          ('C', _v, b'\x03' + _e), ('D', _v, b'\x03' + _e), ('A', ''), ('A', 'a' * 128 if _t != 'NumericString' else '1' * 128)])

spec('t:utf8-multibyte', mod('A ::= UTF8String B ::= UTF8String (SIZE (3)) C ::= UTF8String (SIZE (1..4))'),
     [('A', u'\xe5\xe4\xf6'), ('A', u'1\U00010203Q€'), ('B', u'\xe5\xe4\xf6'), ('B', u'a€b'),
      ('C', u'€€')])

spec('t:general', mod('A ::= GeneralString B ::= SEQUENCE { a BOOLEAN, b GeneralString }'),
     [('A', '', b'\x00'), ('A', '2', b'\x01\x32'), ('B', {'a': False, 'b': u'K'}, b'\x00\x01\x4b')])
spec('t:graphic', mod('A ::= GraphicString'), [('A', '', b'\x00'), ('A', '2', b'\x01\x32')])
spec('t:teletex', mod('A ::= TeletexString'), [('A', u'123', b'\x03\x31\x32\x33')])
spec('t:objectdescriptor', mod('A ::= ObjectDescriptor'), [('A', u'abc')])
spec('t:universal', mod('A ::= UniversalString B ::= UniversalString (SIZE (3)) C ::= UniversalString (SIZE (1..3))'), [
    ('A', u'\xe5\xe4\xf6', b'\x0c\x00\x00\x00\xe5\x00\x00\x00\xe4\x00\x00\x00\xf6'),
    ('A', u'1\U00010203Q', b'\x0c\x00\x00\x00\x31\x00\x01\x02\x03\x00\x00\x00\x51'),
    ('B', u'abc'), ('C', u'ab')])
spec('t:bmp', mod('A ::= BMPString B ::= BMPString (SIZE (3)) C ::= BMPString (SIZE (1..3))'),
     [('A', u'a€b'), ('A', ''), ('B', u'abc'), ('C', u'ab')])

# ---- B. further specifications ---------------------------------------------------------------
spec('x:int-constraints', mod(
    'A ::= INTEGER (0..10, ...) B ::= INTEGER (1 | 3..5) C ::= INTEGER (0 | 1000) D ::= INTEGER (5) '
    'E ::= INTEGER (-1 | 70000) F ::= Z (MIN..50) Z ::= INTEGER (0..100) G ::= Z H ::= G (10..20) '
    'lo INTEGER ::= -2 hi INTEGER ::= 300 I ::= INTEGER (lo..hi) '
    'J ::= INTEGER { one(1), ten(10) } (one..ten) K ::= J (one..5) L ::= INTEGER (-3..300, ...) '
    'M ::= INTEGER (256..300) N ::= INTEGER (-129..-1) P ::= INTEGER (MIN..MAX) '
    'Q ::= INTEGER (0..MAX) R ::= INTEGER (MIN..-5) S ::= INTEGER (-9223372036854775809..0) '
    'T ::= INTEGER (-1..18446744073709551615) U ::= INTEGER (0..10 | 20..30, ...)'), [
    ('A', 5), ('A', -1), ('A', 11), ('A', 128), ('A', 255), ('A', 256), ('A', -129),
    ('B', 1), ('B', 4), ('C', 0), ('C', 1000), ('D', 5), ('E', -1), ('E', 70000),
    ('F', 50), ('F', 0), ('G', 100), ('H', 15), ('I', -2), ('I', 300), ('J', 10), ('K', 3),
    ('L', -3), ('L', 200), ('L', 70000), ('M', 256), ('N', -129), ('N', -1), ('P', -1),
    ('P', 255), ('Q', 0), ('Q', 255), ('Q', 256), ('R', -5), ('R', -129), ('S', -2 ** 63 - 1), ('S', 0),
    ('T', -1), ('T', 2 ** 64 - 1), ('T', 127), ('T', 128), ('U', 25), ('U', -7)])

spec('x:int-contained', mod('O ::= INTEGER (Z) Z ::= INTEGER (0..100)'), [('O', 100)])

spec('x:int-ref-constraints', mod(
    'W ::= INTEGER (0..1000) A ::= W (0..100) B ::= SEQUENCE { a W (1..3), b W, c V } V ::= W (400..500) '
    'C ::= SEQUENCE OF W (0..5) X ::= INTEGER D ::= X (0..255) E ::= X (-1..1) Y ::= INTEGER (0..255, ...) '
    'F ::= Y (0..5) G ::= W (MIN..255)'), [
    ('A', 100), ('B', {'a': 3, 'b': 1000, 'c': 450}), ('C', [0, 5]), ('D', 255), ('E', -1), ('F', 5), ('G', 255)])

spec('x:size-constraints', mod(
    'A ::= OCTET STRING (SIZE (1 | 3)) B ::= OCTET STRING (SIZE (2..2)) C ::= O3 O3 ::= OCTET STRING (SIZE (3)) '
    'D ::= OV (SIZE (2)) OV ::= OCTET STRING (SIZE (0..4)) n INTEGER ::= 2 E ::= OCTET STRING (SIZE (n)) '
    'F ::= BIT STRING (SIZE (n)) G ::= BIT STRING (SIZE (0)) H ::= OCTET STRING (SIZE (0)) '
    'I ::= IA5String (SIZE (n)) J ::= OCTET STRING (SIZE (MIN..4)) K ::= BIT STRING (SIZE (16)) '
    'L ::= BIT STRING (SIZE (1..MAX)) M ::= IA5String (SIZE (2)) (FROM ("a".."c")) '
    'N ::= OCTET STRING (SIZE (200)) O ::= BIT STRING (SIZE (1030))'), [
    ('A', b'\x01'), ('A', b'\x01\x02\x03'), ('B', b'\x01\x02'), ('C', b'\x01\x02\x03'),
    ('D', b'\x01\x02'), ('E', b'\x01\x02'), ('F', (b'\xc0', 2)), ('G', (b'', 0)), ('H', b''),
    ('I', 'ab'), ('J', b'\x01'), ('K', (b'\x12\x34', 16)), ('L', (b'\x80', 1)), ('M', 'ab'),
    ('N', 200 * b'\x07'), ('O', (b'\xff' * 128 + b'\xfc', 1030))])

spec('x:named-bits', mod(
    'A ::= BIT STRING { a(0), b(3), c(9) } B ::= BIT STRING { a(0), b(3) } (SIZE (4..12)) '
    'C ::= BIT STRING { a(0), b(3) } (SIZE (8))'), [
    ('A', (b'\x80', 1)), ('A', (b'\x90\x40', 10)), ('A', (b'', 0)), ('B', (b'\x90', 4)),
    ('C', (b'\x90', 8))])

spec('x:seq-ext', mod(
    'A ::= SEQUENCE { a INTEGER (0..7), ..., b BOOLEAN, c INTEGER (0..300) OPTIONAL } '
    'B ::= SEQUENCE { a BOOLEAN, ..., [[ b INTEGER (0..7), c BOOLEAN OPTIONAL ]], d INTEGER } '
    'C ::= SEQUENCE { a BOOLEAN, ..., b INTEGER (0..300), [[ c BOOLEAN, d OCTET STRING (SIZE(0..1)) OPTIONAL ]], e NULL } '
    'D ::= SEQUENCE { a BOOLEAN, ..., b INTEGER (0..7), ..., z INTEGER (0..3) } '
    'E ::= SEQUENCE { a BOOLEAN OPTIONAL, ..., b INTEGER (0..7), ..., z INTEGER (0..3) OPTIONAL, y BOOLEAN } '
    'F ::= SEQUENCE { ..., a BOOLEAN } '
    'G ::= SEQUENCE { a BOOLEAN, ..., [[ b INTEGER DEFAULT 3, c BOOLEAN OPTIONAL ]], d INTEGER DEFAULT 4 } '
    'H ::= SEQUENCE { a BOOLEAN, ..., b OCTET STRING } '), [
    ('A', {'a': 1}), ('A', {'a': 1, 'b': True}), ('A', {'a': 1, 'b': False, 'c': 0}),
    ('B', {'a': True}), ('B', {'a': True, 'b': 7}), ('B', {'a': True, 'b': 7, 'c': False}),
    ('B', {'a': True, 'b': 0, 'd': 1000}), ('B', {'a': True, 'b': 1, 'c': True, 'd': -1}),
    ('C', {'a': False, 'b': 256, 'c': True, 'd': b'\x05', 'e': None}), ('C', {'a': False, 'b': 0}),
    ('C', {'a': False, 'b': 1, 'c': False}), ('C', {'a': False, 'b': 1, 'c': False, 'e': None}),
    ('D', {'a': True, 'z': 3}), ('D', {'a': True, 'b': 7, 'z': 3}),
    ('E', {'y': True}), ('E', {'a': False, 'b': 2, 'z': 1, 'y': False}), ('E', {'z': 1, 'y': False}),
    ('F', {}), ('F', {'a': True}),
    ('G', {'a': True}), ('G', {'a': True, 'b': 3}), ('G', {'a': True, 'b': 3, 'd': 4}),
    ('G', {'a': True, 'b': 4}), ('G', {'a': True, 'c': True}), ('G', {'a': True, 'd': 5}),
    ('H', {'a': True, 'b': 200 * b'\x01'}), ('H', {'a': True, 'b': b''})])

for _n in (1, 7, 8, 9, 15, 16, 17):
    _names = ['x%d' % i for i in range(_n)]
    _body = 'A ::= SEQUENCE { r BOOLEAN, ..., %s }' % ', '.join('%s NULL' % n for n in _names)
    _all = dict({'r': True}, **{n: None for n in _names})
    spec('x:seq-ext-%d' % _n, mod(_body), [
        ('A', {'r': True}), ('A', _all), ('A', {'r': False, _names[0]: None}),
        ('A', dict({'r': False}, **{n: None for n in _names[:-1]}))])
    _body = 'A ::= SEQUENCE { r BOOLEAN, ..., %s }' % ', '.join('%s NULL OPTIONAL' % n for n in _names)
    spec('x:seq-ext-opt-%d' % _n, mod(_body), [
        ('A', {'r': True}), ('A', _all), ('A', {'r': False, _names[-1]: None}),
        ('A', {'r': False, _names[0]: None}), ('A', {'r': False, _names[_n // 2]: None})])

spec('x:seq-optional-many', mod(
    'A ::= SEQUENCE { %s }' % ', '.join('m%d INTEGER (0..255) OPTIONAL' % i for i in range(9))), [
    ('A', {}), ('A', {'m0': 1}), ('A', {'m8': 9}), ('A', {'m7': 8}), ('A', {'m%d' % i: i for i in range(9)})])

spec('x:defaults', mod(
    'A ::= SEQUENCE { a INTEGER (0..300) OPTIONAL, b BOOLEAN DEFAULT TRUE, c INTEGER DEFAULT 7, d NULL OPTIONAL, '
    'e ENUMERATED { x, y, z } DEFAULT y } '
    'B ::= SEQUENCE { f BIT STRING { a(0), b(1), c(2) } DEFAULT { b }, g OCTET STRING DEFAULT \'0102\'H, h BOOLEAN, '
    's IA5String DEFAULT "hi", r REAL DEFAULT 1.5 } '
    'C ::= SEQUENCE { b BB DEFAULT TRUE, f BB DEFAULT FALSE, i II DEFAULT 5, e EE DEFAULT two, z INTEGER (0..7) } '
    'BB ::= BOOLEAN II ::= INTEGER (0..20) EE ::= ENUMERATED { one, two }'), [
    ('A', {}), ('A', {'b': True}), ('A', {'b': False}), ('A', {'c': 7}), ('A', {'c': 8, 'e': 'y'}),
    ('A', {'a': 300, 'b': True, 'c': 7, 'd': None, 'e': 'z'}),
    ('B', {'h': True}), ('B', {'h': True, 'f': (b'\x40', 2)}), ('B', {'h': True, 'f': (b'\x40', 3)}),
    ('B', {'h': True, 'g': b'\x01\x02'}), ('B', {'h': False, 'g': b'\x01'}), ('B', {'h': False, 's': 'hi'}),
    ('B', {'h': False, 's': 'ho', 'r': 1.5}), ('B', {'h': False, 'r': 2.5}),
    ('C', {'z': 1}), ('C', {'z': 1, 'b': True, 'f': False, 'i': 5, 'e': 'two'}),
    ('C', {'z': 1, 'b': False, 'f': True, 'i': 6, 'e': 'one'})])

_SETS = [
    ('tagged', 'A ::= SET { a [5] INTEGER (0..7), b [1] BOOLEAN, c [APPLICATION 0] INTEGER (0..3) }',
     [('A', {'a': 5, 'b': True, 'c': 3})]),
    ('universal', 'A ::= SET { a INTEGER, b BOOLEAN, c NULL, d OCTET STRING OPTIONAL }',
     [('A', {'a': 1, 'b': True, 'c': None}), ('A', {'a': 1, 'b': True, 'c': None, 'd': b'\x09'})]),
    ('optional', 'A ::= SET { a [2] INTEGER OPTIONAL, b [1] BOOLEAN OPTIONAL, c [0] NULL OPTIONAL, ..., d [9] BOOLEAN, '
     'e [8] BOOLEAN }',
     [('A', {}), ('A', {'a': 1}), ('A', {'b': True}), ('A', {'c': None}), ('A', {'a': 1, 'b': False, 'c': None}),
      ('A', {'a': 1, 'd': True, 'e': False}), ('A', {'d': True})]),
    ('mixed', 'A ::= SET { z IA5String, y UTF8String, x REAL, w ENUMERATED { p }, v SEQUENCE {}, u SET {}, '
     't [PRIVATE 1] NULL, s [0] NULL, r [APPLICATION 7] NULL, q T } T ::= [APPLICATION 3] BOOLEAN',
     [('A', {'z': 'z', 'y': 'y', 'x': 1.0, 'w': 'p', 'v': {}, 'u': {}, 't': None, 's': None, 'r': None, 'q': True})]),
    ('choice', 'A ::= SET { a CHOICE { p [7] INTEGER, q [3] BOOLEAN }, b [5] INTEGER, c [1] BOOLEAN }',
     [('A', {'a': ('p', 1), 'b': 2, 'c': True}), ('A', {'a': ('q', False), 'b': 2, 'c': True})]),
    ('ext', 'A ::= SET { a [70] INTEGER, b [69] BOOLEAN, ..., c [0] NULL }',
     [('A', {'a': 1, 'b': True}), ('A', {'a': 1, 'b': True, 'c': None})]),
    ('long-tags', 'A ::= SET { a [16384] INTEGER, b [256] INTEGER, c [16383] INTEGER, d [128] INTEGER, e [63] INTEGER, '
     'f [62] INTEGER }', [('A', {'a': 1, 'b': 2, 'c': 3, 'd': 4, 'e': 5, 'f': 6})]),
    ('ref-tags', 'A ::= SET { a T1, b T2, c [2] T1, d T3 } T1 ::= [7] BOOLEAN T2 ::= [APPLICATION 1] EXPLICIT T1 '
     'T3 ::= T4 T4 ::= INTEGER', [('A', {'a': True, 'b': False, 'c': True, 'd': 9})]),
]
for _id, _body, _datas in _SETS:
    spec('x:set-' + _id, mod(_body, tags='IMPLICIT TAGS'), _datas)

spec('x:set-auto', mod('A ::= SET { a INTEGER (0..7), b BOOLEAN, c NULL OPTIONAL } '
                       'B ::= SET { a CHOICE { p INTEGER (0..7), q BOOLEAN }, b INTEGER (0..7), c SET OF BOOLEAN }'),
     [('A', {'a': 1, 'b': True}), ('A', {'a': 1, 'b': True, 'c': None}),
      ('B', {'a': ('q', True), 'b': 7, 'c': [True, False]})])

spec('x:choice-tags-implicit', mod(
    'A ::= CHOICE { a [30] INTEGER (0..7), b [31] BOOLEAN, c [127] NULL, d [128] INTEGER (0..7), e [16383] BOOLEAN, '
    'f [16384] NULL, g [62] NULL, h [63] NULL, i [64] NULL, k [APPLICATION 0] NULL, '
    'l [PRIVATE 2097152] NULL } '
    'B ::= CHOICE { a INTEGER, b BOOLEAN, c NULL, d OCTET STRING, e BIT STRING, f OBJECT IDENTIFIER, g REAL, '
    'h ENUMERATED { x }, i UTF8String, j SEQUENCE {}, k SET {}, l NumericString, m PrintableString, n IA5String, '
    'o VisibleString, p GeneralString, q UniversalString, r BMPString, s SEQUENCE OF NULL, t TeletexString, '
    'u GraphicString, ..., v T1, w T2 } T1 ::= [APPLICATION 1] SET OF NULL T2 ::= T3 T3 ::= [PRIVATE 4] EXPLICIT T1 '
    'C ::= CHOICE { a [0] C2, b C3, c [1] NULL } C2 ::= CHOICE { p NULL, q BOOLEAN } '
    'C3 ::= CHOICE { r [5] NULL, s [APPLICATION 6] BOOLEAN, t C4 } C4 ::= CHOICE { u INTEGER }',
    tags='IMPLICIT TAGS'),
    [('A', (n, v)) for n, v in (('a', 1), ('b', True), ('c', None), ('d', 2), ('e', False), ('f', None),
                                ('g', None), ('h', None), ('i', None), ('k', None), ('l', None))] +
    [('B', (n, v)) for n, v in (('a', 1), ('b', True), ('c', None), ('d', b'\x01'), ('e', (b'\x80', 1)),
                                ('f', '1.2'), ('g', 1.0), ('h', 'x'), ('i', 'u'), ('j', {}), ('k', {}),
                                ('l', '1'), ('m', 'a'), ('n', 'a'), ('o', 'a'), ('p', 'a'), ('q', 'a'),
                                ('r', 'a'), ('s', [None]), ('t', 'a'), ('u', 'a'), ('v', [None, None]),
                                ('w', []))] +
    [('C', ('a', ('p', None))), ('C', ('a', ('q', True))), ('C', ('b', ('r', None))),
     ('C', ('b', ('s', True))), ('C', ('b', ('t', ('u', 5)))), ('C', ('c', None))])

spec('x:choice-tags-explicit', mod(
    'A ::= CHOICE { a [0] INTEGER, b [1] BOOLEAN, c B, ..., d [2] C } B ::= [APPLICATION 9] IMPLICIT OCTET STRING '
    'C ::= CHOICE { x NULL, y INTEGER }', tags='EXPLICIT TAGS'),
    [('A', ('a', 1)), ('A', ('b', True)), ('A', ('c', b'\x01')), ('A', ('d', ('x', None))), ('A', ('d', ('y', 3)))])

spec('x:choice-auto', mod(
    'A ::= CHOICE { a INTEGER (0..7), b BOOLEAN, ..., c INTEGER (0..300), d NULL } '
    'B ::= CHOICE { a INTEGER, ..., [[ b BOOLEAN, c NULL ]], d REAL, ... } '
    'C ::= CHOICE { s SEQUENCE { a INTEGER (0..7), ..., b BOOLEAN }, l SEQUENCE (SIZE(0..2)) OF CHOICE { p NULL, '
    'q INTEGER (1..256) }, ..., o OCTET STRING (SIZE(1..2)) } '
    'D ::= CHOICE { leaf INTEGER (0..7), pair SEQUENCE { l D, r D } } '
    'E ::= CHOICE { a [5] INTEGER, b BOOLEAN } '
    'F ::= CHOICE { %s }' % ', '.join('m%d NULL' % i for i in range(70))), [
    ('A', ('a', 7)), ('A', ('b', False)), ('A', ('c', 300)), ('A', ('d', None)),
    ('B', ('a', 1)), ('B', ('b', True)), ('B', ('c', None)), ('B', ('d', 0.5)),
    ('C', ('s', {'a': 1})), ('C', ('s', {'a': 1, 'b': True})), ('C', ('l', [('p', None), ('q', 256)])),
    ('C', ('o', b'\x01\x02')),
    ('D', ('leaf', 3)), ('D', ('pair', {'l': ('leaf', 1), 'r': ('pair', {'l': ('leaf', 2), 'r': ('leaf', 3)})})),
    ('E', ('a', 1)), ('E', ('b', True)), ('F', ('m62', None)), ('F', ('m63', None)), ('F', ('m69', None))])

spec('x:ext-implied', 'Foo DEFINITIONS AUTOMATIC TAGS EXTENSIBILITY IMPLIED ::= BEGIN '
     'A ::= SEQUENCE { a INTEGER (0..7), b ENUMERATED { x, y } } B ::= CHOICE { a NULL, b BOOLEAN } '
     'C ::= SEQUENCE { a BOOLEAN OPTIONAL, ..., [[ b NULL, c NULL OPTIONAL ]] } D ::= SET { a BOOLEAN } END',
     [('A', {'a': 1, 'b': 'y'}), ('B', ('b', True)), ('C', {}), ('C', {'a': True, 'b': None}),
      ('C', {'b': None, 'c': None}), ('D', {'a': False})])

spec('x:components-of', mod(
    'A ::= SEQUENCE { a BOOLEAN, COMPONENTS OF B, z INTEGER (0..3) } '
    'B ::= SEQUENCE { p INTEGER (0..7), q BOOLEAN OPTIONAL, ..., r NULL } '
    'C ::= CHOICE { a INTEGER, b S2 } S2 ::= SET { COMPONENTS OF B2, y BOOLEAN } '
    'B2 ::= SET { p [3] INTEGER (0..7), q [1] BOOLEAN OPTIONAL }'),
    [('A', {'a': True, 'p': 7, 'z': 3}), ('A', {'a': True, 'p': 7, 'q': False, 'z': 3}),
     ('C', ('b', {'p': 1, 'y': True})), ('C', ('b', {'p': 1, 'q': True, 'y': False}))])

spec('x:imports', 'T DEFINITIONS AUTOMATIC TAGS ::= BEGIN IMPORTS B, E FROM U; '
     'A ::= SEQUENCE { a B, b INTEGER (0..7), c CHOICE { x E, y B } } END '
     'U DEFINITIONS IMPLICIT TAGS ::= BEGIN B ::= SEQUENCE { x INTEGER (0..300), y BOOLEAN OPTIONAL } '
     'E ::= CHOICE { m [4] NULL, n [2] BOOLEAN } END',
     [('A', {'a': {'x': 300}, 'b': 7, 'c': ('x', ('n', True))}),
      ('A', {'a': {'x': 0, 'y': True}, 'b': 0, 'c': ('y', {'x': 1})})])

spec('x:tag-app', mod(
    'A ::= [APPLICATION 5] EXPLICIT SEQUENCE { a [PRIVATE 2] INTEGER (0..7), b B } '
    'B ::= [APPLICATION 9] IMPLICIT OCTET STRING (SIZE(0..2)) '
    'C ::= SEQUENCE { a [0] CHOICE { p INTEGER (0..7), q BOOLEAN }, b [1] INTEGER (0..7) OPTIONAL }', tags=''),
    [('A', {'a': 7, 'b': b'\x01'}), ('C', {'a': ('q', True)}), ('C', {'a': ('p', 1), 'b': 2})])

spec('x:relative-oid', mod('A ::= RELATIVE-OID B ::= SEQUENCE { a RELATIVE-OID OPTIONAL }'),
     [('A', '8571.3.2', b'\x04\xc2\x7b\x03\x02'),     # X.690 8.20.5 example
      ('A', '0'), ('B', {'a': '1.128'})])

spec('x:strings-out-of-alphabet', mod('A ::= IA5String B ::= GeneralString C ::= VisibleString'),
     [('B', u'\xe5'), ('B', u'\xff')])

# ---- C. specification files of the repository ---------------------------------------------------
FILES = '/repo/tests/files/'


def file_spec(source, names, datas):
    parsed = asn1tools.parse_files([FILES + n for n in names])
    text = '\n'.join(open(FILES + n).read() for n in names)
    module = next(iter(parsed))
    for type_name, value, expected in datas:
        CASES.append(Case(source, text, parsed, module, type_name, value, expected))


file_spec('f:overview_of_oer', ['overview_of_oer.asn'], [
    ('A', {'a1': 4, 'a2': 4, 'a3': 4, 'a4': 4, 'a5': 1024, 'a6': 4, 'a7': 4},
     b'\xc0\x04\x00\x04\x00\x04\x00\x00\x00\x04\x02\x04\x00\x01\x04\x01\x04'),
    ('B', {'b1': 'ABC', 'b2': 'ABC', 'b3': 'ABC', 'b4': b'\x01\x02\x03\x04', 'b5': (b'\x50', 4), 'b6': (b'\x50', 4)},
     b'\x03\x41\x42\x43\x41\x42\x43\x03\x41\x42\x43\x04\x01\x02\x03\x04\x50\x02\x04\x50'),
    ('C', ('c2', ['b', 'c', 'd', 'e']), b'\x81\x01\x04\x01\x02\x03\x04')])

_PERSON = {
    'name': {'givenName': 'John', 'initial': 'P', 'familyName': 'Smith'}, 'title': 'Director', 'number': 51,
    'dateOfHire': '19710917', 'nameOfSpouse': {'givenName': 'Mary', 'initial': 'T', 'familyName': 'Smith'},
    'children': [
        {'name': {'givenName': 'Ralph', 'initial': 'T', 'familyName': 'Smith'}, 'dateOfBirth': '19571111'},
        {'name': {'givenName': 'Susan', 'initial': 'B', 'familyName': 'Jones'}, 'dateOfBirth': '19590717'}]}
_PERSON3 = deepcopy(_PERSON)
_PERSON3['children'][1]['sex'] = 'female'
file_spec('f:x691_a1', ['x691_a1.asn'], [('PersonnelRecord', _PERSON, (
    b'\x80\x04\x4a\x6f\x68\x6e\x01\x50\x05\x53\x6d\x69\x74\x68\x01\x33\x08\x44\x69\x72\x65\x63\x74\x6f\x72\x08\x31\x39'
    b'\x37\x31\x30\x39\x31\x37\x04\x4d\x61\x72\x79\x01\x54\x05\x53\x6d\x69\x74\x68\x01\x02\x05\x52\x61\x6c\x70\x68\x01'
    b'\x54\x05\x53\x6d\x69\x74\x68\x08\x31\x39\x35\x37\x31\x31\x31\x31\x05\x53\x75\x73\x61\x6e\x01\x42\x05\x4a\x6f\x6e'
    b'\x65\x73\x08\x31\x39\x35\x39\x30\x37\x31\x37')),
    ('PersonnelRecord', {k: v for k, v in _PERSON.items() if k != 'children'}, None)])
file_spec('f:x691_a2', ['x691_a2.asn'], [('PersonnelRecord', _PERSON, None)])
file_spec('f:x691_a3', ['x691_a3.asn'], [('PersonnelRecord', _PERSON3, None), ('PersonnelRecord', _PERSON, None)])
file_spec('f:x691_a4', ['x691_a4.asn'], [
    ('Ax', {'a': 253, 'b': True, 'c': ('e', True), 'g': '123', 'h': True}, None),
    ('Ax', {'a': 250, 'b': False, 'c': ('d', 5)}, None),
    ('Ax', {'a': 250, 'b': False, 'c': ('f', 'x'), 'g': '000', 'i': u'€', 'j': 'P'}, None)])


def _ieee1609():
    path = FILES + 'ieee/ieee1609_2.py'
    sp = importlib.util.spec_from_file_location('ieee1609_2', path)
    m = importlib.util.module_from_spec(sp)
    sp.loader.exec_module(m)
    parsed = m.EXPECTED
    decoded = {
        'version': 1,
        'content': ('caCerts', [{
            'version': 3, 'type': 'explicit', 'issuer': ('sha256AndDigest', 8 * b'\x01'),
            'toBeSigned': {
                'id': ('none', None), 'cracaId': 3 * b'\x32', 'crlSeries': 65535,
                'validityPeriod': {'start': 12345, 'duration': ('seconds', 5)},
                'appPermissions': [], 'certIssuePermissions': [], 'certRequestPermissions': [],
                'verifyKeyIndicator': ('verificationKey', ('ecdsaNistP256', (
                    'uncompressed', {'x': 32 * b'\x14', 'y': 32 * b'\x54'})))},
            'signature': ('ecdsaNistP256Signature', {'r': ('x-only', 32 * b'\x98'), 's': 32 * b'\xab'})}])}
    encoded = (
        b'\x01\x80\x01\x01\x80\x03\x00\x80\x01\x01\x01\x01\x01\x01\x01\x01\x1c\x83\x32\x32\x32\xff\xff\x00\x00\x30\x39'
        b'\x82\x00\x05\x01\x00\x01\x00\x01\x00\x80\x80\x84' + 32 * b'\x14' + 32 * b'\x54' + b'\x80\x80' + 32 * b'\x98'
        + 32 * b'\xab')
    module = None
    for name, md in parsed.items():
        if 'Ieee1609dot2Peer2PeerPDU' in md['types']:
            module = name
    c = Case('f:ieee1609_2', '<ieee1609_2.py>', parsed, module, 'Ieee1609dot2Peer2PeerPDU', decoded, encoded)
    c.compiled = asn1tools.compile_dict(deepcopy(parsed), 'oer')
    CASES.append(c)


_ieee1609()


# ---- D. the corpus of the framework with random values ----------------------------------------------
def random_value(model, td, module, rng, depth=0):
    ch = model.chain(td, module)
    base, bmod = ch[-1]
    t = base['type']
    if t == 'BOOLEAN':
        return rng.random() < 0.5
    if t == 'NULL':
        return None
    if t == 'INTEGER':
        r = None
        for d, _m in ch:
            if d.get('restricted-to'):
                r = d['restricted-to']
                break
        lb, ub = model.int_bounds(ch)
        if r and None in r and rng.random() < 0.5:
            lb = ub = None                 # a value outside the root of an extensible constraint
        pool = [0, 1, -1, 127, 128, -128, -129, 255, 256, 65535, 65536, -32768, -32769, 2 ** 31, 2 ** 32,
                -2 ** 31 - 1, 2 ** 63, 2 ** 64, -2 ** 63 - 1, rng.randrange(-10 ** 6, 10 ** 6)]
        if lb is not None:
            pool += [lb, lb + 1]
        if ub is not None:
            pool += [ub, ub - 1]
        pool = [v for v in pool if (lb is None or v >= lb) and (ub is None or v <= ub)]
        return rng.choice(pool)
    if t == 'ENUMERATED':
        items, _ = symvalue.enum_items(base)
        return rng.choice(items)[0]
    if t == 'REAL':
        if any('with-components' in d for d, _m in ch):       # values every IEEE 754 format represents
            return rng.choice([0.0, 1.0, -1.5, float('inf'), float('-inf'), 0.5, 1024.0, -3.0])
        return rng.choice([0.0, 1.0, -1.5, float('inf'), float('-inf'), 1e-300, 3.0e38, 0.1, 100.0])
    if t in ('OCTET STRING', 'BIT STRING', 'SEQUENCE OF', 'SET OF') or t in symvalue.STRING_TYPES:
        lb, ub = model.size_bounds(ch)
        ext = any(d.get('size') and None in d['size'] for d, _m in ch)
        if ext:
            lo, hi, _e = symvalue.size_range(model.spec, next(d for d, _m in ch if d.get('size')), bmod)
            n = rng.choice([lo, hi if hi is not None else lo + 1, (hi or lo) + 1, 0])
        else:
            n = rng.randint(lb, ub if ub is not None else lb + 3)
        if t == 'OCTET STRING':
            return bytes(rng.randrange(256) for _ in range(n))
        if t == 'BIT STRING':
            nb = (n + 7) // 8
            data = bytearray(rng.randrange(256) for _ in range(nb))
            if n % 8:
                data[-1] &= (0xff << (8 - n % 8)) & 0xff
            return (bytes(data), n)
        if t in ('SEQUENCE OF', 'SET OF'):
            if depth > 4:
                n = lb
            return [random_value(model, base['element'], bmod, rng, depth + 1) for _ in range(n)]
        alpha = None
        for d, _m in ch:
            if d.get('from'):
                alpha = symvalue.from_alphabet(d)
                break
        if alpha is None:
            alpha = symvalue.DEFAULT_ALPHABETS.get(t)
            if t == 'IA5String':
                alpha = alpha[32:127]
        if alpha is None:
            alpha = u'aZ\xe5€\U00010203' if t in ('UTF8String', 'UniversalString') else \
                (u'aZ\xe5€' if t == 'BMPString' else u'aZ~')
        return ''.join(rng.choice(alpha) for _ in range(n))
    if t in ('SEQUENCE', 'SET'):
        out = {}
        root, adds, _mk = symvalue.members_split({'members': model.members(base, bmod)})

        def put(m):
            out[m['name']] = random_value(model, m, bmod, rng, depth + 1)
        for m in root:
            opt = m.get('optional') or 'default' in m
            if not opt or (depth < 4 and rng.random() < 0.5):
                put(m)
        for a in adds:
            if rng.random() < 0.5:
                break                 # a value of an earlier version of the type
            if isinstance(a, list):
                for m in a:
                    if not (m.get('optional') or 'default' in m) or rng.random() < 0.5:
                        put(m)
            elif not (a.get('optional') or 'default' in a) or rng.random() < 0.5:
                put(a)
        return out
    if t == 'CHOICE':
        ms = [m for m, _a in symvalue.members_of(base)]
        if depth > 3:
            ms = ms[:1]
        m = rng.choice(ms)
        return (m['name'], random_value(model, m, bmod, rng, depth + 1))
    if t == 'OBJECT IDENTIFIER':
        a0 = rng.randrange(3)
        arcs = [a0, rng.randrange(40) if a0 < 2 else rng.choice([0, 39, 40, 47, 48, 1000])]
        arcs += [rng.choice([0, 1, 127, 128, 16383, 16384, 2 ** 21, 2 ** 28 - 1]) for _ in range(rng.randrange(4))]
        return '.'.join(str(a) for a in arcs)
    raise NotImplementedError(t)


def corpus_cases(per_template=40):
    from corpus import TEMPLATES
    for tpl in TEMPLATES:
        parsed = asn1tools.parse_string(tpl['text'])
        model = x696.Model(parsed)
        rng = random.Random('x696/' + tpl['id'])
        seen = set()
        for _ in range(per_template):
            v = random_value(model, {'type': tpl['type']}, tpl['module'], rng)
            if repr(v) in seen:
                continue
            seen.add(repr(v))
            CASES.append(Case('corpus:' + tpl['id'], tpl['text'], parsed, tpl['module'], tpl['type'], v))


corpus_cases()


# ---- E. every type of some specification files of the repository, random values ----------------------
SWEEP_FILES = ['all_types.asn', 'module_tags_explicit.asn', 'module_tags_implicit.asn', 'module_tags_automatic.asn',
               'extensibility_implied.asn', 'enumerated.asn', 'named_numbers.asn', 'zforce.asn', 'versions.asn',
               'with_components.asn', 'c_source/programming_types.asn', 'x691_a3.asn']


def sweep_cases(per_type=6):
    for fn in SWEEP_FILES:
        parsed = asn1tools.parse_files([FILES + fn])
        model = x696.Model(parsed)
        text = open(FILES + fn).read()
        for module, md in parsed.items():
            for type_name in md['types']:
                rng = random.Random('x696/%s/%s' % (fn, type_name))
                seen = set()
                for _ in range(per_type):
                    try:
                        v = random_value(model, {'type': type_name}, module, rng)
                    except (NotImplementedError, KeyError):
                        break                 # time types, ANY, parameterised types ...: out of scope
                    if repr(v) in seen:
                        continue
                    seen.add(repr(v))
                    CASES.append(Case('sweep:' + fn, text, parsed, module, type_name, v))


sweep_cases()


# ---------------------------------------------------------------------------------------
def run():
    compiled_cache = {}
    n_equal = n_dev = 0
    bad = []            # unexplained differences
    vec_bad = []        # published vector not reproduced by the model
    used = {}
    skipped = []
    for c in CASES:
        try:
            c.ours = x696.encode(c.parsed, c.module, c.type_name, c.value, c.numeric_enums).concrete()
        except (x696.ModelError, NotImplementedError) as e:
            c.ours = ('error', '%s: %s' % (type(e).__name__, e))
        comp = getattr(c, 'compiled', None)
        if comp is None:
            key = (c.text, c.numeric_enums)
            if key not in compiled_cache:
                try:
                    compiled_cache[key] = asn1tools.compile_dict(deepcopy(c.parsed), 'oer',
                                                                 numeric_enums=c.numeric_enums)
                except Exception as e:           # compile error
                    compiled_cache[key] = e
            comp = compiled_cache[key]
        if isinstance(comp, Exception):
            c.theirs = ('error', 'compile: %s: %s' % (type(comp).__name__, comp))
        else:
            try:
                c.theirs = bytes(comp.encode(c.type_name, c.value))
            except Exception as e:
                c.theirs = ('error', '%s: %s' % (type(e).__name__, e))
        if isinstance(c.ours, tuple) and c.ours[1].startswith('NotImplementedError'):
            skipped.append(c)            # outside the model: nothing to compare
            continue
        if c.expected is not None and c.ours != c.expected:
            vec_bad.append(c)
        if c.ours == c.theirs or (isinstance(c.ours, tuple) and isinstance(c.theirs, tuple)):
            n_equal += 1
            continue
        keys = [k for k, p in _DEV_PRED.items() if p(c)]
        if keys:
            n_dev += 1
            for k in keys:
                used.setdefault(k, []).append(c)
        else:
            bad.append(c)

    def show(c):
        def h(x):
            return x[1] if isinstance(x, tuple) else (x.hex() if len(x) <= 48 else x[:48].hex() + '...(%d)' % len(x))
        v = repr(c.value)
        print('  %-28s %s' % (c.ident(), v if len(v) < 90 else v[:90] + '...'))
        print('      model    : %s' % h(c.ours))
        print('      asn1tools: %s' % h(c.theirs))
        if c.expected is not None:
            print('      published: %s' % h(c.expected))

    print('cases: %d   equal: %d   known deviations: %d   unexplained: %d   vector mismatches: %d'
          % (len(CASES), n_equal, n_dev, len(bad), len(vec_bad)))
    if skipped:
        print('outside the model (NotImplementedError), not compared: %d  %s'
              % (len(skipped), sorted(set('%s: %s' % (c.ident(), c.ours[1][21:60]) for c in skipped))[:8]))
    for k in KNOWN_DEVIATIONS:
        cs = used.get(k, [])
        print('\n[%s] %d case(s)\n  %s' % (k, len(cs), KNOWN_DEVIATIONS[k]))
        for c in (cs if VERBOSE else cs[:2]):
            show(c)
        if not cs:
            print('  (not observed in this run)')
    if bad:
        print('\nUNEXPLAINED DIFFERENCES')
        for c in bad:
            show(c)
    if vec_bad:
        print('\nPUBLISHED VECTORS NOT REPRODUCED BY THE MODEL')
        for c in vec_bad:
            show(c)
    return 1 if (bad or vec_bad) else 0


# ---------------------------------------------------------------------------------------
# unit vectors of the primitives (hand-computed from 8.6, 8.7 and X.690 8.5)
# ---------------------------------------------------------------------------------------
def unit():
    from lib.bits import BitBuf
    bad = 0
    for n, e in ((0, '00'), (127, '7f'), (128, '8180'), (255, '81ff'), (256, '820100'), (65535, '82ffff'),
                 (65536, '83010000'), (2 ** 32, '850100000000')):
        got = x696.length_determinant(BitBuf(), n).concrete().hex()
        if got != e:
            bad += 1
            print('  length determinant %d: %s, expected %s' % (n, got, e))
    for (cls, num), e in (((2, 0), '80'), ((0, 30), '1e'), ((1, 62), '7e'), ((2, 63), 'bf3f'), ((3, 127), 'ff7f'),
                          ((2, 128), 'bf8100'), ((2, 16383), 'bfff7f'), ((2, 16384), 'bf818000'),
                          ((1, 63), '7f3f'), ((3, 963), 'ff8743')):
        got = x696.encode_tag(BitBuf(), cls, num).concrete().hex()
        if got != e:
            bad += 1
            print('  tag %r: %s, expected %s' % ((cls, num), got, e))
    for x, e in ((0.0, ''), (-0.0, '43'), (float('inf'), '40'), (float('-inf'), '41'), (1.0, '800001'),
                 (-1.0, 'c00001'), (10.0, '800105'), (0.5, '80ff01'), (100.0, '800219'), (2.0 ** 200, '8100c801'),
                 (2.0 ** -200, '81ff3801'), (0.1, '80c90ccccccccccccd'), (2.0 ** -1074, '81fbce01')):
        got = x696.real_contents_der(x).hex()
        if got != e:
            bad += 1
            print('  REAL %r: %s, expected %s' % (x, got, e))
    print('unit vectors: %s' % ('ok' if not bad else '%d FAILED' % bad))
    return bad


# ---------------------------------------------------------------------------------------
# symbolic smoke test: the model on pyfront proxies, every path of the framework's value generator;
# per path one solver model is taken, the value made concrete, and the concrete run of the model must
# give the octets the symbolic run evaluates to
# ---------------------------------------------------------------------------------------
SMOKE_IDS = ['bool', 'int', 'int-m5-300', 'int-0-65536', 'int-ext', 'int-max0', 'int-min', 'enum-vals', 'octets',
             'octets-fixed', 'bits', 'bits-fixed', 'bits-named-size', 'seq-opt', 'seq-ext', 'seq-ext-group',
             'seq-ext-tail', 'set-tags', 'choice-ext', 'seqof', 'setof-int', 'ia5-size', 'utf8', 'bmp', 'universal',
             'oid', 'real', 'tag-big', 'combo-choice-seq', 'combo-bits-default', 'defaults-by-ref-small',
             'combo-str-seq', 'c13-enum-default']


def symbolic_smoke(max_paths=150):
    import z3
    import symcore
    from lib.runner import Ctx
    from corpus import BY_ID
    total = bad = 0
    for tid in SMOKE_IDS:
        tpl = BY_ID[tid]
        parsed = asn1tools.parse_string(tpl['text'])
        gen = symvalue.Gen(parsed, symvalue.Bounds(int_abs=1 << 20, n_len=2, depth=3, str_len=2))
        stats = {'paths': 0, 'bad': 0}

        def harness(ctx):
            v = gen.value(ctx, {'type': tpl['type']}, tpl['module'])
            buf = x696.encode(parsed, tpl['module'], tpl['type'], v)
            cells = buf.cells()
            m = ctx.eng.get_model()
            cv = symvalue.concretize(v, m)
            want = x696.encode(parsed, tpl['module'], tpl['type'], cv).concrete()
            got = bytes(m.eval(c, model_completion=True).as_long() for c in cells)
            stats['paths'] += 1
            if got != want:
                stats['bad'] += 1
                print('  %s: %r symbolic %s concrete %s' % (tid, cv, got.hex(), want.hex()))

        res, left = symcore.explore(harness, max_paths=max_paths,
                                    ctx_factory=lambda eng, r: Ctx(eng, r, {'id': tid}, []))
        inc = [r.inconclusive for r in res if r.inconclusive]
        if inc:
            stats['bad'] += 1
            print('  %s: inconclusive paths: %s' % (tid, sorted(set(inc))[:3]))
        if VERBOSE:
            print('  %-24s %4d paths%s' % (tid, stats['paths'], ' (capped)' if left else ''))
        total += stats['paths']
        bad += stats['bad']
    print('symbolic smoke test: %d templates, %d paths, %s' % (len(SMOKE_IDS), total,
                                                               'ok' if not bad else '%d FAILED' % bad))
    return bad


if __name__ == '__main__':
    rc = run()
    rc |= 1 if unit() else 0
    if '--no-symbolic' not in sys.argv:
        rc |= 1 if symbolic_smoke() else 0
    sys.exit(rc)
