"""Executable reference model of Rec. ITU-T X.696 (08/2015) | ISO/IEC 8825-7 -- Basic OER.

ENCODER ONLY.  ``encode(parsed, module, type_name, value)`` returns a ``lib.bits.BitBuf``
holding the (octet-oriented) encoding.  The model is driven by the dictionary produced
by ``asn1tools.parse_string`` and is written clause by clause from the text of X.696
(and of X.680 for tagging / canonical tag order, X.690 for the REAL and OBJECT
IDENTIFIER contents octets); it shares no code with asn1tools' codecs.

The same code runs on plain Python values and on the pyfront proxies (SymInt, SymBool,
SymBytes, SymStr): leaf values are only touched with + - * // % << >> & | ^, comparisons
(a symbolic comparison used in ``if`` forks the path), ``len``, indexing and iteration.
Container shape (presence of members, list lengths, CHOICE alternative, ENUMERATED
item) is concrete.  REAL values are concrete floats.

Sender's options of BASIC-OER are resolved as CANONICAL-OER resolves them:
  * length determinants, tags, quantity fields, enumerated long form: shortest form;
  * BOOLEAN TRUE is 'FF'H;
  * a root component equal to its DEFAULT value is omitted;
with TWO exceptions, made to stay byte-comparable with the implementation under test
(both are equally valid BASIC-OER):
  * an extension addition equal to its DEFAULT value is encoded when the value holds it
    (``omit_default_additions=True`` gives the CANONICAL-OER behaviour);
  * trailing zero bits of a BIT STRING that has a NamedBitList are kept as they are in the
    value (13.1 lets a BASIC-OER sender add or remove them; CANONICAL-OER removes them).

Clause numbers (8.6, 8.7, 9 ... 30) are those of the 08/2015 edition.  Sub-clause numbers in
the comments were written from reading notes, not with the text at hand; they are meant
for orientation and may be off by one in places -- the rule quoted next to them is what
the code implements.

Interpretation of the parsed dictionary (it loses some information):
  * several items in one 'restricted-to' / 'size' list are taken as a union ("1 | 3..5");
    serially applied constraints on ONE type "(0..100)(2..9)" are listed the same way by
    the parser and are therefore (mis)read as a union too; constraints applied through
    type references are intersected;
  * INCLUDES, intersections / exclusions written with ^ or EXCEPT are dropped by the
    parser and hence invisible here.

Values that are not values of the type in a way that makes the encoding undefined (an
integer outside a fixed-size range, a wrong length for a fixed-size string, a missing
mandatory component, an unknown name) raise ``ModelError``.  Types outside the model
raise ``NotImplementedError``.
"""
import math
import struct

from pyfront import SymInt, SymBool, SymBytes, SymStr, ord_shim, encode_str
from lib.bits import BitBuf
from lib import symvalue
from lib.symvalue import Spec, Equiv

try:                                       # Inconclusive is raised by Equiv.default_value
    from symcore import Inconclusive
except Exception:                          # pragma: no cover
    class Inconclusive(Exception):
        pass


class ModelError(ValueError):
    """the value has no encoding under the type (it is not a value of the type)"""


# ---------------------------------------------------------------------------------------
# type tables
# ---------------------------------------------------------------------------------------
# X.680 8.4 table 1: universal class tag assignments
UNIVERSAL_TAG = {
    'BOOLEAN': 1, 'INTEGER': 2, 'BIT STRING': 3, 'OCTET STRING': 4, 'NULL': 5,
    'OBJECT IDENTIFIER': 6, 'ObjectDescriptor': 7, 'EXTERNAL': 8, 'REAL': 9,
    'ENUMERATED': 10, 'UTF8String': 12, 'RELATIVE-OID': 13, 'SEQUENCE': 16,
    'SEQUENCE OF': 16, 'SET': 17, 'SET OF': 17, 'NumericString': 18, 'PrintableString': 19,
    'TeletexString': 20, 'T61String': 20, 'VideotexString': 21, 'IA5String': 22,
    'UTCTime': 23, 'GeneralizedTime': 24, 'GraphicString': 25, 'VisibleString': 26,
    'ISO646String': 26, 'GeneralString': 27, 'UniversalString': 28, 'BMPString': 30,
    'DATE': 31, 'TIME-OF-DAY': 32, 'DATE-TIME': 33,
}
# X.680 8.6 canonical order of classes == the two class bits of X.696 8.7.2 / X.690 8.1.2.2
CLASS = {'UNIVERSAL': 0, 'APPLICATION': 1, 'CONTEXT': 2, 'CONTEXT-SPECIFIC': 2, 'PRIVATE': 3}

# X.696 27.1 / X.680 41: known-multiplier character string types -> octets per character
KNOWN_MULTIPLIER = {'IA5String': 1, 'VisibleString': 1, 'ISO646String': 1, 'PrintableString': 1,
                    'NumericString': 1, 'BMPString': 2, 'UniversalString': 4}
# X.696 27.4: all other restricted character string types -> contents octets of X.690 8.23;
# the codec name is the Python-value convention of the framework (lib.symvalue.STRING_TYPES)
OTHER_STRINGS = {'UTF8String': 'utf-8', 'TeletexString': 'latin-1', 'T61String': 'latin-1',
                 'VideotexString': 'latin-1', 'GraphicString': 'latin-1',
                 'GeneralString': 'latin-1', 'ObjectDescriptor': 'latin-1'}

OUT_OF_SCOPE = {'UTCTime', 'GeneralizedTime', 'DATE', 'TIME-OF-DAY', 'DATE-TIME', 'TIME', 'DURATION',
                'ANY', 'ANY DEFINED BY', 'EXTERNAL', 'EMBEDDED PDV', 'CHARACTER STRING',
                'OID-IRI', 'RELATIVE-OID-IRI'}
BUILTIN = set(symvalue.BUILTIN) | {'RELATIVE-OID', 'T61String', 'ISO646String', 'VideotexString'} \
    | OUT_OF_SCOPE


def _is_int(x):
    return isinstance(x, (int, SymInt)) and not isinstance(x, bool)


# ---------------------------------------------------------------------------------------
# 8.6 Length determinant
# ---------------------------------------------------------------------------------------
def length_determinant(buf, n):
    """n: concrete number (of octets, or whatever the using clause counts)"""
    if n < 0:
        raise ModelError('negative length')
    if n < 128:
        # 8.6.4 short form: one octet, bit 8 zero, bits 7-1 the length
        buf.uint(n, 8)
    else:
        # 8.6.5 long form: bit 8 one, bits 7-1 = number of subsequent octets, which hold the
        # length as an unsigned binary integer (shortest form; mandatory only in CANONICAL-OER)
        k = (n.bit_length() + 7) // 8
        if k > 127:
            raise ModelError('length beyond the long form')
        buf.uint(0x80 | k, 8)
        buf.uint(n, 8 * k)
    return buf


# ---------------------------------------------------------------------------------------
# 8.7 Encoding of tags
# ---------------------------------------------------------------------------------------
def encode_tag(buf, cls, number):
    """cls: 0..3 (8.7.2: bits 8-7 = 00 universal, 01 application, 10 context, 11 private)"""
    if number < 0:
        raise ModelError('negative tag number')
    if number < 63:
        # 8.7.3 a) bits 6-1 hold the tag number
        buf.uint((cls << 6) | number, 8)
        return buf
    # 8.7.3 b) bits 6-1 all ones; the number follows in base 128, bit 8 of every octet but the
    # last set to one, first subsequent octet not '80'H (i.e. fewest octets)
    buf.uint((cls << 6) | 0x3f, 8)
    groups = []
    while True:
        groups.append(number & 0x7f)
        number >>= 7
        if number == 0:
            break
    groups.reverse()
    for i, g in enumerate(groups):
        buf.uint(g | (0x80 if i < len(groups) - 1 else 0), 8)
    return buf


# ---------------------------------------------------------------------------------------
# octet counts of integers (value dependent: forks on symbolic values)
# ---------------------------------------------------------------------------------------
def _unsigned_octets(v):
    """fewest octets holding v >= 0 as an unsigned binary integer (at least one)"""
    n = 1
    while not (v < (1 << (8 * n))):
        n += 1
    return n


def _signed_octets(v):
    """fewest octets holding v as a 2's-complement binary integer (at least one)"""
    n = 1
    while True:
        half = 1 << (8 * n - 1)
        if v >= -half:
            if v < half:
                return n
        n += 1


def _put_int(buf, v, noctets):
    """v in noctets octets, unsigned or 2's complement alike (low 8*noctets bits)"""
    buf.uint(v & ((1 << (8 * noctets)) - 1), 8 * noctets)


# ---------------------------------------------------------------------------------------
class _DefaultOracleShim:
    """what Equiv.default_value reads from ``self``"""

    class _G:
        pass

    def __init__(self, spec, numeric_enums):
        self.spec = spec
        self.gen = self._G()
        self.gen.numeric_enums = numeric_enums


class Model:
    def __init__(self, parsed, numeric_enums=False, omit_default_additions=False):
        self.parsed = parsed
        self.omit_default_additions = omit_default_additions
        # diagnostic switch, never set by encode(): treat "[[ a, b ]]" as the separate additions a, b.
        # That is NOT what X.696 16.4/16.5 says; the differential test uses it to confirm that a
        # difference with the implementation under test is exactly this misreading.
        self.flatten_groups = False
        self.spec = Spec(parsed)
        self.numeric_enums = numeric_enums
        self._dflt = _DefaultOracleShim(self.spec, numeric_enums)

    # ------------------------------------------------------------------ type references
    def chain(self, td, module):
        """[(descriptor, module)] from ``td`` through every referenced type definition down
        to the definition whose 'type' is a builtin type"""
        out = [(td, module)]
        while td['type'] not in BUILTIN:
            if len(out) > 64:
                raise ModelError('type reference loop at %s' % td['type'])
            if 'actual-parameters' in td:
                raise NotImplementedError('parameterised type %s' % td['type'])
            try:
                td, module = self.spec.lookup('types', td['type'], module)
            except KeyError:
                raise NotImplementedError('type %s is not defined / not modelled' % td['type'])
            if 'parameters' in td:
                raise NotImplementedError('parameterised type')
            out.append((td, module))
        return out

    def members(self, base, bmod):
        """member list of a SEQUENCE/SET with COMPONENTS OF expanded (X.680 25.4/25.5)"""
        ms = base['members']
        if any(isinstance(m, dict) and 'components-of' in m for m in ms):
            ms = self.spec._expand_components_of(ms, bmod)
        return ms

    # ------------------------------------------------------------------ values in constraints
    def int_const(self, v, module, named=None):
        if isinstance(v, bool):
            raise ModelError('boolean where an integer is expected')
        if isinstance(v, int):
            return v
        if type(v).__name__ == 'SymInt':
            return v            # a symbolic bound / tag number (kernel harnesses)
        if isinstance(v, str):
            if named and v in named:
                return named[v]
            try:
                val, vmod = self.spec.lookup('values', v, module)
            except KeyError:
                raise NotImplementedError('value reference %s' % v)
            return self.int_const(val['value'], vmod)
        raise NotImplementedError('constraint bound %r' % (v,))

    # ------------------------------------------------------------------ 8.2 OER-visible constraints
    def _effective(self, ch, key, floor):
        """Effective lower/upper bound (None = unbounded) of the value ('restricted-to') or
        size ('size') constraints met along a reference chain.

        8.2.2: only NON-extensible single value / value range constraints on INTEGER and
        non-extensible SIZE constraints are OER-visible (a) b)), as are contained subtype
        constraints whose constraining type carries such a constraint (f)).  A constraint
        with an extension marker is therefore skipped.  Constraints applied serially
        (through type references) intersect (X.680 50.x); the items of one constraint are
        taken as a union, which is how the parsed dictionary lists 'a | b..c'.
        """
        lb, ub = floor, None
        base = ch[-1][0]
        named = base.get('named-numbers') if isinstance(base.get('named-numbers'), dict) else None
        for td, mod in reversed(ch):
            r = td.get(key)
            if not r:
                continue
            if None in r:
                continue                      # extensible: not OER-visible
            los, his = [], []
            for item in r:
                if isinstance(item, dict):    # contained subtype (8.2.2 f)
                    lo, hi = self._effective(self.chain(item, mod), key, floor)
                else:
                    lo, hi = item if isinstance(item, tuple) else (item, item)
                    # X.680 51.4: MIN / MAX are the bounds of the parent type
                    lo = lb if lo == 'MIN' else self.int_const(lo, mod, named)
                    hi = ub if hi == 'MAX' else self.int_const(hi, mod, named)
                los.append(lo)
                his.append(hi)
            lo = None if any(x is None for x in los) else min(los)
            hi = None if any(x is None for x in his) else max(his)
            if lo is not None:
                lb = lo if lb is None else max(lb, lo)
            if hi is not None:
                ub = hi if ub is None else min(ub, hi)
        return lb, ub

    def int_bounds(self, ch):
        return self._effective(ch, 'restricted-to', None)

    def size_bounds(self, ch):
        return self._effective(ch, 'size', 0)

    def fixed_size(self, ch):
        """the single size permitted by an OER-visible size constraint, else None"""
        lb, ub = self.size_bounds(ch)
        if ub is not None and lb == ub:
            return ub
        return None

    # ------------------------------------------------------------------ tags (X.680 8, 25, 29, 31)
    def _tag_of(self, t, module):
        cls = CLASS[t.get('class', 'CONTEXT')]
        return cls, self.int_const(t['number'], module)

    def automatic(self, base, bmod):
        """X.680 25.3 / 29.3: automatic tagging is selected for a SEQUENCE/SET/CHOICE of a module
        with AUTOMATIC TAGS unless a component / alternative written in it is a TaggedType.
        Components brought in by COMPONENTS OF do not count (25.3 refers to the notation
        before the 25.4 transformation); the raw member list is inspected for that reason."""
        if self.parsed[bmod].get('tags') != 'AUTOMATIC':
            return False
        for m in base['members']:
            for mm in (m if isinstance(m, list) else [m]):
                if isinstance(mm, dict) and 'components-of' not in mm and 'tag' in mm:
                    return False
        return True

    def outer_tag(self, td, module, value):
        """outermost tag (class, number) of the type described by td, for the given value.
        X.680 31.2: a TaggedType's outermost tag is the written one whatever IMPLICIT/EXPLICIT;
        an untagged CHOICE has, value by value, the tag of the chosen alternative."""
        ch = self.chain(td, module)
        for t, mod in ch:
            if 'tag' in t:
                return self._tag_of(t['tag'], mod)
        base, bmod = ch[-1]
        if base['type'] == 'CHOICE':
            return self.alternative(base, bmod, value)[2]
        if base['type'] not in UNIVERSAL_TAG:
            raise NotImplementedError('tag of %s' % base['type'])
        return 0, UNIVERSAL_TAG[base['type']]

    def min_tag(self, td, module, _depth=0):
        """X.696 18.1 / X.680 8.6: for ordering, an untagged CHOICE counts with the smallest tag of
        its root alternatives (of nested untagged CHOICEs too)"""
        if _depth > 32:
            raise ModelError('untagged CHOICE recursion')
        ch = self.chain(td, module)
        for t, mod in ch:
            if 'tag' in t:
                return self._tag_of(t['tag'], mod)
        base, bmod = ch[-1]
        if base['type'] == 'CHOICE':
            auto = self.automatic(base, bmod)
            tags = []
            for i, (m, is_add) in enumerate(symvalue.members_of(base)):
                if not is_add:
                    tags.append((2, i) if auto else self.min_tag(m, bmod, _depth + 1))
            if not tags:
                raise ModelError('CHOICE without root alternative')
            return min(tags)
        if base['type'] not in UNIVERSAL_TAG:
            raise NotImplementedError('tag of %s' % base['type'])
        return 0, UNIVERSAL_TAG[base['type']]

    def alternative(self, base, bmod, value):
        """(member, is_extension_addition, (class, number)) of the alternative chosen by value"""
        if not (isinstance(value, tuple) and len(value) == 2):
            raise ModelError('CHOICE value must be (name, value)')
        name, inner = value
        auto = self.automatic(base, bmod)
        for i, (m, is_add) in enumerate(symvalue.members_of(base)):
            if m['name'] == name:
                # X.680 29.5 (with 25.7): automatic tagging gives [0], [1], ... to the alternatives
                # in textual order, extension additions included
                tag = (2, i) if auto else self.outer_tag(m, bmod, inner)
                return m, is_add, tag
        raise ModelError('CHOICE has no alternative %r' % (name,))

    # ------------------------------------------------------------------ dispatch
    def encode(self, buf, td, module, value):
        ch = self.chain(td, module)
        base, bmod = ch[-1]
        t = base['type']
        if t == 'BOOLEAN':
            return self.boolean(buf, value)
        if t == 'INTEGER':
            return self.integer(buf, ch, value)
        if t == 'ENUMERATED':
            return self.enumerated(buf, base, bmod, value)
        if t == 'REAL':
            return self.real(buf, ch, value)
        if t == 'BIT STRING':
            return self.bitstring(buf, ch, value)
        if t == 'OCTET STRING':
            return self.octetstring(buf, ch, value)
        if t == 'NULL':
            return self.null(buf, value)
        if t in ('SEQUENCE', 'SET'):
            return self.sequence(buf, base, bmod, value, is_set=(t == 'SET'))
        if t in ('SEQUENCE OF', 'SET OF'):
            return self.sequence_of(buf, base, bmod, value)
        if t == 'CHOICE':
            return self.choice(buf, base, bmod, value)
        if t == 'OBJECT IDENTIFIER':
            return self.object_identifier(buf, value, relative=False)
        if t == 'RELATIVE-OID':
            return self.object_identifier(buf, value, relative=True)
        if t in KNOWN_MULTIPLIER or t in OTHER_STRINGS:
            return self.character_string(buf, t, ch, value)
        raise NotImplementedError('type %s is outside the X.696 model' % t)

    # ------------------------------------------------------------------ 9 BOOLEAN
    def boolean(self, buf, value):
        # 9.1 single octet; 9.2 FALSE = all bits zero, TRUE = any non-zero octet ('FF'H is the
        # CANONICAL-OER form)
        if not isinstance(value, (bool, SymBool)):
            raise ModelError('BOOLEAN value %r' % (value,))
        for _ in range(8):
            buf.bit(value)
        return buf

    # ------------------------------------------------------------------ 10 INTEGER
    def integer(self, buf, ch, value):
        if not _is_int(value):
            raise ModelError('INTEGER value %r' % (value,))
        # 10.1 the effective value constraint, from OER-visible constraints only (8.2)
        lb, ub = self.int_bounds(ch)
        if lb is not None and value < lb:
            raise ModelError('INTEGER below the lower bound')
        if ub is not None and value > ub:
            raise ModelError('INTEGER above the upper bound')
        if lb is not None and lb >= 0:
            # 10.2 lower bound >= 0
            if ub is not None:
                # 10.2 a)-d) fixed-size unsigned: 1, 2, 4, 8 octets
                for n in (1, 2, 4, 8):
                    if ub <= (1 << (8 * n)) - 1:
                        _put_int(buf, value, n)
                        return buf
            # 10.2 e) (upper bound > 2^64-1 or none): variable-size unsigned: length determinant
            # then the fewest octets holding the value
            n = _unsigned_octets(value)
            length_determinant(buf, n)
            _put_int(buf, value, n)
            return buf
        if lb is not None and ub is not None:
            # 10.3 a)-d) lower bound < 0: fixed-size signed (2's complement) 1, 2, 4, 8 octets
            for n in (1, 2, 4, 8):
                if lb >= -(1 << (8 * n - 1)) and ub <= (1 << (8 * n - 1)) - 1:
                    _put_int(buf, value, n)
                    return buf
        # 10.3 e) / 10.4 (no lower bound, or no upper bound with a negative lower bound, or a
        # range beyond 64 bits): variable-size signed: length determinant, fewest octets 2's complement
        n = _signed_octets(value)
        length_determinant(buf, n)
        _put_int(buf, value, n)
        return buf

    # ------------------------------------------------------------------ 11 ENUMERATED
    def enumerated(self, buf, base, bmod, value):
        items, _marker = symvalue.enum_items(base)
        number = None
        for name, num, _is_add in items:
            num = self.int_const(num, bmod)          # "a(i)": a value reference
            if (self.numeric_enums and not isinstance(value, str) and value == num) or \
                    (not self.numeric_enums and value == name):
                number = num
        if number is None:
            raise ModelError('ENUMERATED has no item %r' % (value,))
        # an extension marker changes nothing (11.1: root and additional enumerations alike)
        if 0 <= number <= 127:
            # 11.2 short form: one octet, bit 8 zero
            buf.uint(number, 8)
        else:
            # 11.3 long form: bit 8 one, bits 7-1 = number of subsequent octets, which hold the
            # value as a 2's-complement integer (fewest octets: CANONICAL-OER)
            n = _signed_octets(number)
            buf.uint(0x80 | n, 8)
            _put_int(buf, number, n)
        return buf

    # ------------------------------------------------------------------ 12 REAL
    def real(self, buf, ch, value):
        if isinstance(value, bool) or not isinstance(value, (float, int)):
            raise ModelError('REAL value %r' % (value,))
        value = float(value)
        wc = None
        for t, _m in ch:
            if 'with-components' in t:
                wc = dict(t['with-components'])
                break
        if wc is not None and wc.get('base') == 10:
            # X.690 11.3.2: a base-10 value takes the ISO 6093 NR3 character form; a Python float is
            # a base-2 value and no value of such a type
            raise NotImplementedError('REAL constrained to base 10')
        if wc is not None and wc.get('base') == 2 and 'mantissa' in wc and 'exponent' in wc:
            def rng(x):
                return x if isinstance(x, tuple) else (x, x)
            (mlo, mhi), (elo, ehi) = rng(wc['mantissa']), rng(wc['exponent'])
            if all(isinstance(x, int) for x in (mlo, mhi, elo, ehi)):
                # 12.2 base 2, mantissa within -(2^24-1)..2^24-1, exponent within -149..104:
                # IEEE 754 binary32, 4 octets, sign/exponent octet first
                if -(2 ** 24 - 1) <= mlo and mhi <= 2 ** 24 - 1 and -149 <= elo and ehi <= 104:
                    return self._ieee(buf, value, '>f', 4)
                # 12.3 base 2, mantissa within -(2^53-1)..2^53-1, exponent within -1074..971:
                # IEEE 754 binary64, 8 octets
                if -(2 ** 53 - 1) <= mlo and mhi <= 2 ** 53 - 1 and -1074 <= elo and ehi <= 971:
                    return self._ieee(buf, value, '>d', 8)
        # 12.4 otherwise: length determinant + the contents octets of X.690 8.5 under the
        # CER/DER restrictions of X.690 11.3
        contents = real_contents_der(value)
        length_determinant(buf, len(contents))
        buf.octets(contents)
        return buf

    @staticmethod
    def _ieee(buf, value, fmt, n):
        try:
            data = struct.pack(fmt, value)
        except OverflowError:
            raise ModelError('REAL value not representable in %d octets' % n)
        back = struct.unpack(fmt, data)[0]
        if not (back == value or (math.isnan(back) and math.isnan(value))):
            raise ModelError('REAL value not representable in %d octets' % n)
        buf.octets(data)
        return buf

    # ------------------------------------------------------------------ 13 BIT STRING
    def bitstring(self, buf, ch, value):
        if not (isinstance(value, tuple) and len(value) == 2):
            raise ModelError('BIT STRING value must be (bytes, number_of_bits)')
        data, nbits = value
        if not _is_int(nbits):
            raise ModelError('BIT STRING bit count %r' % (nbits,))
        if nbits < 0:
            raise ModelError('negative bit count')
        # 13.1 NamedBitList: a BASIC-OER sender may add or remove trailing 0 bits; the value is
        # encoded with the bits it has (see module docstring)
        noct = int((nbits + 7) // 8)              # octets that hold the bits (forks if symbolic)
        if noct > len(data):
            raise ModelError('BIT STRING value has fewer octets than its bit count needs')
        unused = 8 * noct - nbits                 # 0..7, may be symbolic
        fixed = self.fixed_size(ch)
        if fixed is not None:
            # 13.2 fixed size (single OER-visible size): no length, no unused-bits octet
            if nbits != fixed:
                raise ModelError('BIT STRING length differs from the fixed size')
        else:
            # 13.3 variable size: length determinant = number of subsequent octets; the first of
            # them is the count of unused bits in the last octet (0..7); then the bits
            length_determinant(buf, 1 + noct)
            buf.uint(unused, 8)
        # 13.2.1 / 13.3.2: bits from bit 8 of the first octet on; the unused bits of the last
        # octet are zero
        for i in range(noct - 1):
            buf.uint(data[i], 8)
        if noct:
            last = data[noct - 1]
            for j in range(8):
                keep = (8 * (noct - 1) + j) < nbits
                buf.bit(((last >> (7 - j)) & 1) & keep)
        return buf

    # ------------------------------------------------------------------ 14 OCTET STRING
    def octetstring(self, buf, ch, value):
        if not isinstance(value, (bytes, bytearray, SymBytes)):
            raise ModelError('OCTET STRING value %r' % (value,))
        fixed = self.fixed_size(ch)
        if fixed is not None:
            # 14.1 fixed size: the octets alone
            if len(value) != fixed:
                raise ModelError('OCTET STRING length differs from the fixed size')
        else:
            # 14.2 length determinant (octets) then the octets
            length_determinant(buf, len(value))
        buf.octets(value)
        return buf

    # ------------------------------------------------------------------ 15 NULL
    def null(self, buf, value):
        # 15.1 empty encoding
        if value is not None:
            raise ModelError('NULL value %r' % (value,))
        return buf

    # ------------------------------------------------------------------ 16 SEQUENCE / 18 SET
    def _default_of(self, m, base, bmod):
        """the DEFAULT value of component m in the Python value conventions"""
        d = m['default']
        t = base['type']
        if t == 'REAL' and isinstance(d, str):
            try:
                return float(d)
            except ValueError:
                raise NotImplementedError('REAL DEFAULT %r' % (d,))
        if t in ('SEQUENCE OF', 'SET OF') and isinstance(d, (list, dict)) and len(d) == 0:
            return []
        try:
            return Equiv.default_value(self._dflt, m, base, bmod)
        except Inconclusive as e:
            raise NotImplementedError('DEFAULT form: %s' % (e,))

    @staticmethod
    def _masked_octets(data, nbits, count):
        """the first ``count`` octets of a bit string value with every bit from position
        ``nbits`` on forced to zero (octets beyond the data are zero)"""
        out = []
        for i in range(count):
            if i >= len(data):
                out.append(0)
                continue
            o = 0
            for j in range(8):
                keep = (8 * i + j) < nbits
                o = o | ((((data[i] >> (7 - j)) & 1) & keep) << (7 - j))
            out.append(o)
        return out

    def _same_as_default(self, m, module, value):
        """is the supplied value of component m its DEFAULT value?"""
        ch = self.chain(m, module)
        base, bmod = ch[-1]
        d = self._default_of(m, base, bmod)
        t = base['type']
        if t == 'NULL':
            return True
        if t in ('INTEGER', 'BOOLEAN', 'ENUMERATED', 'REAL'):
            if t == 'REAL' and d == value and d == 0:
                return math.copysign(1, d) == math.copysign(1, value)
            return bool(value == d)
        if t == 'OCTET STRING':
            if len(value) != len(d):
                return False
            for i in range(len(d)):
                if value[i] != d[i]:
                    return False
            return True
        if t == 'BIT STRING':
            data, n = value
            if 'named-bits' in base:
                # X.680 22.7: with a NamedBitList trailing 0 bits are not significant: the abstract
                # values are equal when they agree on every bit position, absent bits read as 0
                count = max(len(data), len(d[0]))
                va = self._masked_octets(data, n, count)
                vb = self._masked_octets(d[0], d[1], count)
            else:
                if n != d[1]:
                    return False
                count = (d[1] + 7) // 8
                if len(data) < count:
                    return False
                va = self._masked_octets(data, n, count)
                vb = self._masked_octets(d[0], d[1], count)
            for x, y in zip(va, vb):
                if x != y:
                    return False
            return True
        if t in KNOWN_MULTIPLIER or t in OTHER_STRINGS:
            if len(value) != len(d):
                return False
            for a, b in zip(value, d):
                if ord_shim(a) != ord_shim(b):
                    return False
            return True
        if t in ('SEQUENCE OF', 'SET OF') and d == []:
            return len(value) == 0
        raise NotImplementedError('DEFAULT of type %s' % t)

    def _present(self, m, module, value, addition=False):
        """is component m encoded?  It must be in the value, and
        16: a component whose value equals its DEFAULT may be encoded or omitted by a BASIC-OER
        sender (CANONICAL-OER omits it).  Sender's option taken here: omitted in the extension
        root; among the extension additions (groups included) encoded unless
        ``omit_default_additions`` is set -- this is the choice of the implementation under test."""
        if m['name'] not in value:
            return False
        if 'default' in m and (not addition or self.omit_default_additions):
            if self._same_as_default(m, module, value[m['name']]):
                return False
        return True

    def sequence(self, buf, base, bmod, value, is_set=False, group=False):
        if not isinstance(value, dict):
            raise ModelError('%s value must be a dict' % base['type'])
        root, adds, marker = symvalue.members_split({'members': self.members(base, bmod)})
        if self.flatten_groups:
            # NOT X.696 (see __init__): every component of a group as an addition of its own
            adds = [m for m, _a in symvalue.members_of({'members': adds})]
        # X.680 clause 13 (ExtensionDefault) EXTENSIBILITY IMPLIED: every SEQUENCE/SET/CHOICE/ENUMERATED written in the module
        # without a marker has one at its end; not so the notional SEQUENCE of an addition group
        extensible = marker or (not group and bool(self.parsed[bmod].get('extensibility-implied')))
        if is_set:
            # 18.1 the root components are put in the canonical order of X.680 8.6 (by outermost tag:
            # universal, application, context-specific, private; then by number; an untagged CHOICE
            # by its smallest tag) and the type is then encoded as a SEQUENCE.  Additions keep
            # their textual order.
            if self.automatic(base, bmod):
                pass       # tags [0], [1], ... in textual order (X.680 25.7): already in order
            else:
                root = sorted(root, key=lambda m: self.min_tag(m, bmod))
        # which components are encoded (decided once: the DEFAULT comparison may fork)
        present = {}
        for m in root:
            present[m['name']] = self._present(m, bmod, value, addition=group)
        for m, _a in symvalue.members_of({'members': adds}):
            present[m['name']] = self._present(m, bmod, value, addition=True)
        for m in root:
            if not (m.get('optional') or 'default' in m) and not present[m['name']]:
                raise ModelError('mandatory component %s is missing' % m['name'])
        # 16 (with X.680 25) an ExtensionAdditionGroup is one addition; it is present when at least one of its
        # components is
        apresent = [any(present[m['name']] for m in a) if isinstance(a, list) else present[a['name']]
                    for a in adds]
        # X.680 (extensibility model): a value belongs to one version of the type, so a mandatory
        # addition (or a group with a mandatory component) cannot be missing before a present one
        gap = None
        for a, p in zip(adds, apresent):
            mandatory = any(not (m.get('optional') or 'default' in m)
                            for m in (a if isinstance(a, list) else [a]))
            if p and gap is not None:
                raise ModelError('extension addition %s is missing although a later one is present' % gap)
            if not p and mandatory:
                gap = (a[0] if isinstance(a, list) else a)['name']

        # 16.2 preamble
        pre = BitBuf()
        if extensible:
            # 16.2.2 extension bit: one iff at least one extension addition is present
            pre.bit(any(apresent))
        for m in root:
            # 16.2.3 root component presence bitmap: a bit per OPTIONAL / DEFAULT component of the
            # extension root, in the order of the components
            if m.get('optional') or 'default' in m:
                pre.bit(present[m['name']])
        # 16.2.4 zero padding to a whole number of octets (no preamble at all when it has no bit)
        pre.align()
        buf.extend(pre)
        # 16.3 encodings of the root components that are present, in order
        for m in root:
            if present[m['name']]:
                self.encode(buf, m, bmod, value[m['name']])
        if not any(apresent):
            return buf
        # 16.4 extension addition presence bitmap: as a variable-size BIT STRING (13.3) with a bit
        # per extension addition (type or group) of the type, one = present
        bitmap = BitBuf()
        for p in apresent:
            bitmap.bit(p)
        nbits = len(bitmap)
        noct = (nbits + 7) // 8
        length_determinant(buf, 1 + noct)
        buf.uint(8 * noct - nbits, 8)
        bitmap.align()
        buf.extend(bitmap)
        # 16.5 each present addition as an open type (clause 30): length determinant + encoding;
        # a group is encoded as a SEQUENCE of its components (with its own preamble)
        for a, p in zip(adds, apresent):
            if not p:
                continue
            inner = BitBuf()
            if isinstance(a, list):
                self.sequence(inner, {'type': 'SEQUENCE', 'members': a}, bmod, value, group=True)
            else:
                self.encode(inner, a, bmod, value[a['name']])
            self.open_type(buf, inner)
        return buf

    # ------------------------------------------------------------------ 30 open type
    def open_type(self, buf, inner):
        # 30.1 length determinant (octets) followed by the encoding of the contained value
        assert len(inner) % 8 == 0
        length_determinant(buf, len(inner) // 8)
        buf.extend(inner)
        return buf

    # ------------------------------------------------------------------ 17 SEQUENCE OF / 19 SET OF
    def sequence_of(self, buf, base, bmod, value):
        if not isinstance(value, (list, tuple)):
            raise ModelError('%s value must be a list' % base['type'])
        # 17.1 quantity field: the number of occurrences as an INTEGER (0..MAX), i.e. 10.2 e): length
        # determinant + fewest octets.  A SIZE constraint is not OER-visible here (8.2.2).
        n = len(value)
        k = _unsigned_octets(n)
        length_determinant(buf, k)
        buf.uint(n, 8 * k)
        # 17.2 the occurrences in order (19: SET OF alike; BASIC-OER prescribes no sorting)
        for x in value:
            self.encode(buf, base['element'], bmod, x)
        return buf

    # ------------------------------------------------------------------ 20 CHOICE
    def choice(self, buf, base, bmod, value):
        m, is_add, (cls, number) = self.alternative(base, bmod, value)
        # 20.1 the outermost tag of the chosen alternative, encoded per 8.7 ...
        encode_tag(buf, cls, number)
        if not is_add:
            # ... followed by the encoding of the value of the alternative
            self.encode(buf, m, bmod, value[1])
        else:
            # 20.2 an alternative that is an extension addition: the value as an open type
            inner = BitBuf()
            self.encode(inner, m, bmod, value[1])
            self.open_type(buf, inner)
        return buf

    # ------------------------------------------------------------------ 21 OBJECT IDENTIFIER / 22 RELATIVE-OID
    def object_identifier(self, buf, value, relative):
        if hasattr(value, 'arcs'):
            arcs = list(value.arcs)               # lib.oid.SymOid
        elif isinstance(value, str):
            try:
                arcs = [int(p) for p in value.split('.')]
            except ValueError:
                raise ModelError('OBJECT IDENTIFIER value %r' % (value,))
        else:
            raise ModelError('OBJECT IDENTIFIER value %r' % (value,))
        for a in arcs:
            if a < 0:
                raise ModelError('negative arc')
        if relative:
            subs = arcs                           # X.690 8.20
        else:
            # X.690 8.19.4 first subidentifier = 40 * arc1 + arc2; X.660: arc1 in 0..2 and
            # arc2 < 40 under arcs 0 and 1
            if len(arcs) < 2:
                raise ModelError('OBJECT IDENTIFIER needs two arcs')
            if arcs[0] > 2:
                raise ModelError('first arc above 2')
            if arcs[0] < 2:
                if arcs[1] > 39:
                    raise ModelError('second arc above 39')
            subs = [arcs[0] * 40 + arcs[1]] + arcs[2:]
        contents = BitBuf()
        for s in subs:
            # X.690 8.19.2 base 128, bit 8 set on all but the last octet, fewest octets
            k = 1
            while not (s < (1 << (7 * k))):
                k += 1
            for i in reversed(range(k)):
                contents.uint(((s >> (7 * i)) & 0x7f) | (0x80 if i else 0), 8)
        # 21.1 / 22.1 length determinant + the contents octets of X.690 8.19 / 8.20
        self.open_type(buf, contents)
        return buf

    # ------------------------------------------------------------------ 27 restricted character strings
    def character_string(self, buf, t, ch, value):
        if not isinstance(value, (str, SymStr)):
            raise ModelError('%s value %r' % (t, value))
        if t in KNOWN_MULTIPLIER:
            width = KNOWN_MULTIPLIER[t]
            limit = {1: 0x7f, 2: 0xffff, 4: 0x10ffff}[width]
            # 27.2 known-multiplier type with a single OER-visible size: no length determinant
            fixed = self.fixed_size(ch)
            if fixed is not None:
                if len(value) != fixed:
                    raise ModelError('%s length differs from the fixed size' % t)
            else:
                # 27.3 otherwise length determinant (octets)
                length_determinant(buf, width * len(value))
            # 27.1 every character in 1 (ISO 646 based types), 2 (BMPString) or 4 (UniversalString)
            # octets holding its number in ISO/IEC 10646 (permitted alphabets are not OER-visible)
            for c in value:
                cp = ord_shim(c)
                if cp > limit:
                    raise ModelError('character outside %s' % t)
                buf.uint(cp, 8 * width)
            return buf
        # 27.4 every other restricted character string type (UTF8String included, whatever its SIZE
        # constraint -- that counts characters, not octets): length determinant + the octets that
        # would be the contents octets in BER (X.690 8.23)
        enc = OTHER_STRINGS[t]
        if isinstance(value, str):
            try:
                data = value.encode(enc)
            except UnicodeEncodeError:
                raise ModelError('character outside %s' % t)
        else:
            data = encode_str(SymStr.of(value), enc)
        length_determinant(buf, len(data))
        buf.octets(data)
        return buf


# ---------------------------------------------------------------------------------------
# X.690 8.5 contents octets of a REAL value under the restrictions of X.690 11.3 (CER/DER)
# ---------------------------------------------------------------------------------------
def real_contents_der(x):
    if math.isnan(x):
        return b'\x42'                            # 8.5.9 NOT-A-NUMBER
    if math.isinf(x):
        return b'\x40' if x > 0 else b'\x41'      # 8.5.9 PLUS-INFINITY / MINUS-INFINITY
    if x == 0:
        # 8.5.2 plus zero: no contents octets; 8.5.3 / 8.5.9 minus zero: '43'H
        return b'' if math.copysign(1.0, x) > 0 else b'\x43'
    # a Python float is a base-2 value: binary encoding (8.5.7) with base 2;
    # 11.3.1: mantissa M odd, scaling factor F zero
    m, e = math.frexp(abs(x))
    n = int(m * (1 << 53))
    e -= 53
    while n % 2 == 0:
        n >>= 1
        e += 1
    elen = _signed_octets(e)
    # 8.5.7: bit 8 one; bit 7 sign; bits 6-5 base 2 = 00; bits 4-3 F = 00; bits 2-1 exponent format
    first = 0x80 | (0x40 if x < 0 else 0)
    out = bytearray()
    if elen <= 3:
        out.append(first | (elen - 1))            # 8.5.7.4 a)-c)
    else:
        out.append(first | 3)                     # 8.5.7.4 d)
        out.append(elen)
    out += (e & ((1 << (8 * elen)) - 1)).to_bytes(elen, 'big')
    # 8.5.7.5 N as an unsigned binary integer (11.3.1: fewest octets follow from M being odd)
    out += n.to_bytes((n.bit_length() + 7) // 8, 'big')
    return bytes(out)


# ---------------------------------------------------------------------------------------
def encode(parsed, module, type_name, value, numeric_enums=False, omit_default_additions=False):
    """BASIC-OER encoding (BitBuf) of ``value`` of type ``type_name`` of ``module``.

    omit_default_additions: also omit extension additions whose value equals their DEFAULT (the
    CANONICAL-OER behaviour); by default only root components are omitted (see Model._present)."""
    buf = BitBuf()
    Model(parsed, numeric_enums, omit_default_additions).encode(buf, {'type': type_name}, module, value)
    assert len(buf) % 8 == 0
    return buf
