"""Differential test of the X.691 reference model (models/x691.py) against asn1tools.

    /verif/.venv/bin/python /verif/models/test_x691.py [-v] [--no-repo] [--no-corpus] [--no-edge]
                                                       [--no-real] [--no-smoke] [--real-bitbuf]

Sources of (specification, type, value) triples:
  1. every Specification.encode() call made by /repo/tests/test_per.py and test_uper.py (this
     includes the worked examples of X.691 Annex A with the octets printed in the standard);
  2. the templates of /verif/corpus with pseudo-random values (also with numeric_enums);
  3. hand-written edge cases (EDGE below): thresholds of clauses 11.5, 11.6, 11.9, 14, 16, 17, 19,
     21, 23, 30 ..., plus a few octet strings worked out by hand (HAND) for rules on which asn1tools
     cannot arbitrate;
  4. real-world specifications shipped with the repository (3GPP RRC / LPP, OMA ULP, ETSI CAM) with
     pseudo-random values.
For each triple the octets of the model are compared with asn1tools' octets.  A difference is accepted
only if it is explained by an entry of KNOWN_DEVIATIONS (asn1tools deviates from the standard there) or
of SENDERS_OPTION; most entries are *reproduced*: the model with exactly that decision changed (class
Asn1toolsLike) must give asn1tools' octets.  The script exits 0 iff nothing else differs.  A symbolic
smoke test (the model executed on pyfront proxies inside the engine, all paths) runs in a sub-process.

The concrete runs use a plain-int bit buffer (FastBitBuf) instead of lib.bits.BitBuf, which builds one
z3 expression per bit; the corpus part is repeated with lib.bits.BitBuf to show both agree.
"""
import copy
import io
import os
import random
import re
import subprocess
import sys
import unittest

HERE = os.path.dirname(os.path.abspath(__file__))
ROOT = os.path.dirname(HERE)
sys.path.insert(0, ROOT)
sys.path.insert(0, '/repo')

# Deviations of asn1tools (as pinned in /repo) from X.691 found by this test.
#
#   'Q:<name>'   the deviation is reproduced exactly by the sub-class Asn1toolsLike below (the model
#                with that one decision changed gives asn1tools' octets); the entry is used whenever
#                the quirk "fired" during the encoding that differs;
#   'E:<regex>'  asn1tools raises an exception whose text matches, the model encodes;
#   'C:<regex>'  remaining differences, matched on the case id (re.match).
#
# value: one line of justification with the clause.  Entries marked (reading) rest on a reading of
# the text that other implementations do not all share; see the report.
KNOWN_DEVIATIONS = {
    'Q:empty-encoding':
        '11.1.3/11.1.4: an empty outermost encoding (NULL, single-value INTEGER, empty SEQUENCE ...) is one zero '
        'octet, hence 11.2: an open type holding it has length 1; asn1tools emits no octet / length 0',
    'Q:semi-constrained-integer':
        '13.2.3 + 11.7: INTEGER (lb..MAX) is encoded as the offset from lb in a non-negative-binary-integer; '
        'asn1tools encodes the value itself as an unconstrained (2\'s complement) whole number',
    'Q:choice-textual-order':
        '23.1/23.2 + X.680 8.6: root alternatives are indexed in canonical tag order; asn1tools uses the textual order '
        '(differs as soon as alternatives carry tags out of order or are untagged under non-automatic tagging)',
    'Q:enumerated-not-implied-extensible':
        'X.680 13.4 + X.691 10.3.20 a): EXTENSIBILITY IMPLIED also adds an extension marker to ENUMERATED types; '
        'asn1tools adds it to SEQUENCE/SET/CHOICE only, so the ENUMERATED extension bit (14.3) is missing',
    'Q:universalstring-not-known-multiplier':
        '30.1/30.5: UniversalString is a known-multiplier type (SIZE and FROM are PER-visible, 32-bit characters, no '
        'length when the size is fixed); asn1tools always sends an unconstrained character count and ignores SIZE/FROM',
    'Q:string-alignment-by-character-count':
        '30.5.7: with a length determinant the characters are octet-aligned iff aub x b >= 16 (b = bits per character); '
        'asn1tools aligns iff aub >= 2 whatever b is (NumericString, FROM alphabets: aligned too early; BMPString (SIZE(0..1)): not aligned)',
    'Q:pad-before-empty-octet-or-bit-string':
        '(reading) 11.1.4/16.11/17.8: asn1tools inserts alignment padding before an EMPTY variable-size OCTET STRING / BIT STRING '
        'but not before an empty character string; the model (and ooh323c, Wireshark) never pads before an empty field',
    'Q:default-in-extension-addition-encoded':
        '19.5: a component equal to its DEFAULT value is not encoded (BASIC-PER: shall, for simple types); asn1tools applies '
        'this to root components and group members but encodes a defaulted extension addition (and sets the extension bit for it)',
    'Q:normally-small-not-aligned':
        '11.6.2 + 11.7/11.9.3.6 and 11.9.3.4: for n >= 64 (index of an ENUMERATED/CHOICE addition) resp. n > 64 (number of extension '
        'additions) the length octet and the value are octet-aligned in the ALIGNED variant; asn1tools does not align them',
    'Q:real-mantissa-leading-zero':
        '15 + X.690 11.3.1: mantissa N in the fewest octets; asn1tools prefixes a 00 octet when the top bit of N is set (255.0 -> 80 00 00 ff)',
    'Q:real-minus-zero':
        '15 + X.690 8.5.3/8.5.9: minus zero is the single contents octet 43; asn1tools encodes -0.0 as plus zero (no contents)',
    'Q:one-character-alphabet-zero-bits':
        '(reading) 30.5.2: a one-character alphabet needs B = 0 bits, and B2 = "the smallest power of 2 that is >= B" = 1 bit per character in the '
        'ALIGNED variant; asn1tools uses 0 bits in both variants',
    'Q:reindex-whenever-from':
        '30.5.4: characters are re-indexed only if the largest permitted character value exceeds 2^b - 1; asn1tools re-indexes whenever a FROM '
        'constraint is present in the UNALIGNED variant (e.g. VisibleString (FROM("!".."~")), the OMA ULP ThirdPartyID) and for BMPString in both',
    'Q:enumerated-index-not-aligned':
        '14.2 + 11.5.7.2/11.5.7.3: the index of an ENUMERATED with 256 or more root items is an octet-aligned one/two-octet field in the '
        'ALIGNED variant; asn1tools writes it as an unaligned bit-field',
    'E:String size extension is not yet implemented':
        '30.4: value outside the root of an extensible SIZE of a known-multiplier string: extension bit 1, then as unconstrained; asn1tools: NotImplementedError',
    'E:BIT STRING extension is not yet implemented':
        '16.6: BIT STRING outside the root of an extensible SIZE: extension bit 1, then as unconstrained; asn1tools: NotImplementedError',
    "E:'<=' not supported between instances of 'NoneType' and 'int'":
        '13.1 + 13.2.3: INTEGER (0..MAX, ...) is legal (extension bit, then semi-constrained); asn1tools: TypeError',
    "E:.*Sequence member 'g' not found":
        '19.2: "g NULL DEFAULT NULL" is an ordinary DEFAULT component (preamble bit, may be absent); asn1tools treats it as mandatory '
        '(the parser stores the default None)',
    r'X:edge/(set/(untagged|tagged|choice|ref-tags) |ref/(imports-set|components-of-auto)/)':
        '21.1 + X.680 8.6: SET components without a textual tag are ordered by the universal tag of their type; asn1tools cannot '
        'compile such a SET for per/uper (TypeError while sorting None tags) unless automatic tagging applies to it',
    r'X:edge/int/contained/':
        'X.680 51.3 contained subtype INTEGER (B): PER-visible (10.3.16); asn1tools: TypeError at compile time',
    r'X:edge/alias/':
        'X.680 41: ISO646String and T61String are synonyms of VisibleString / TeletexString; asn1tools: CompileError (type not found)',
    r'C:edge/int/union/':
        '10.3.19 (effective constraint of a union is the span of all its elements): INTEGER (1..5 | 10..20) is 1..20; asn1tools uses the '
        'first element only and produces wrong octets for 10..20',
    r'C:edge/int/serial-minmax/':
        '10.3.18 + X.680 51.4: B (MIN..50) with B ::= INTEGER (10..100) has the effective constraint 10..50; asn1tools keeps 10..100',
    r'C:edge/frag/opentype/':
        '11.2 + 11.9.3.8: an open type whose contents are exactly 16K octets ends with a zero length octet after the fragment; asn1tools omits it',
    r'C:edge/from/.*extensible-alphabet':
        '10.3.10: an extensible permitted-alphabet constraint is not PER-visible (characters of the unconstrained type); asn1tools uses its root',
    r'C:edge/from/printable-range/':
        '10.3.11 + X.680 51.7: the effective permitted alphabet only holds characters of the parent type: PrintableString (FROM("A".."z")) has 52 '
        'characters; asn1tools counts all 58 code points of the range',
    r'C:edge/from/ref-(size|from|from-ext)/':
        '10.3.18: a SIZE / FROM constraint applied to a reference to a constrained character string type is PER-visible; asn1tools ignores it',
    r'C:edge/from/NumericString\(FROM.*/per':
        '30.5.4: the index is the position in the EFFECTIVE permitted alphabet; asn1tools (ALIGNED only) uses the position in the full NumericString alphabet',
    r'C:edge/from/numeric-digits/per':
        '30.5.4: as above (NumericString (FROM("0".."9")): "0" is index 0, asn1tools sends 1)',
    r'C:edge/seq/group-null/':
        '19.9: an extension addition group is present when one of its components is; asn1tools treats a group whose only present components '
        'are NULL / empty as absent',
    r'C:edge/seq/default-null/':
        '19.2: "g NULL DEFAULT NULL" has a preamble bit like any DEFAULT component; asn1tools (parser stores the default None) sends none',
    r'C:edge/seq/default-(real|oid)/':
        '19.5: REAL / OBJECT IDENTIFIER components equal to their DEFAULT are not encoded (simple types); asn1tools never recognises these defaults',
}
# differences that are NOT deviations: BASIC-PER leaves the choice to the sender and the model takes the
# CANONICAL-PER form (case id regex -> reason)
SENDERS_OPTION = {
    r'edge/seq/default-struct/':
        '19.5: a structured component equal to its DEFAULT may be encoded or omitted in BASIC-PER (asn1tools encodes SEQUENCE values)',
}

VERBOSE = '-v' in sys.argv


# ---------------------------------------------------------------------------------------------
class FastBitBuf:
    """drop-in replacement of lib.bits.BitBuf for concrete values (plain ints instead of one z3
    expression per bit): the large 11.9 fragmentation cases would take minutes otherwise.  The
    corpus section is run with both buffers (see main) to show they agree."""

    def __init__(self):
        self.bits = []

    def __len__(self):
        return len(self.bits)

    def bit(self, b):
        self.bits.append(1 if b else 0)
        return self

    def uint(self, v, n):
        v = int(v)
        self.bits.extend((v >> i) & 1 for i in reversed(range(n)))
        return self

    def octets(self, data):
        for x in data:
            self.bits.extend((x >> i) & 1 for i in (7, 6, 5, 4, 3, 2, 1, 0))
        return self

    def align(self):
        self.bits.extend([0] * ((-len(self.bits)) % 8))
        return self

    def extend(self, other):
        self.bits.extend(other.bits)
        return self

    def concrete(self):
        bits = self.bits + [0] * ((-len(self.bits)) % 8)
        return bytes(int(''.join(map(str, bits[i:i + 8])), 2) for i in range(0, len(bits), 8))


def use_fast_buffer(on):
    from models import x691
    from lib.bits import BitBuf
    x691.BitBuf = FastBitBuf if on else BitBuf


class Asn1toolsLike(object):
    """the model with the decisions listed in KNOWN_DEVIATIONS ('Q:' entries) taken the way asn1tools
    takes them; `fired` collects the quirks that changed something in the current encoding"""

    @staticmethod
    def make(parsed, aligned, numeric_enums):
        from models import x691

        class Like(x691._Per):
            def __init__(self):
                x691._Per.__init__(self, parsed, aligned, numeric_enums)
                self.fired = set()

            def complete(self, buf):
                if len(buf) == 0:
                    self.fired.add('empty-encoding')
                    return buf
                return x691._Per.complete(self, buf)

            def int_semi_constrained(self, buf, value, lb):
                self.fired.add('semi-constrained-integer')
                self.unconstrained(buf, value)

            def choice_root_order(self, btd, bmod, root):
                std = x691._Per.choice_root_order(self, btd, bmod, root)
                if [m['name'] for m in std] != [m['name'] for m in root]:
                    self.fired.add('choice-textual-order')
                return list(root)

            def extension_marker(self, btd, module, key):
                std = x691._Per.extension_marker(self, btd, module, key)
                if key == 'values':
                    q = None in btd[key]
                    if q != std:
                        self.fired.add('enumerated-not-implied-extensible')
                    return q
                return std

            def enc_known_multiplier(self, buf, value, chain, t):
                if t != 'UniversalString':
                    return x691._Per.enc_known_multiplier(self, buf, value, chain, t)
                self.fired.add('universalstring-not-known-multiplier')

                def emit(out, a, b):
                    for c in value[a:b]:
                        from pyfront import ord_shim
                        out.uint(ord_shim(c), 32)
                self.with_length(buf, len(value), 0, None, emit, 'octets')

            def kmstring_aligned(self, fixed, ub, b):
                std = x691._Per.kmstring_aligned(self, fixed, ub, b)
                q = std if (fixed or ub is None) else ub >= 2
                if q != std and self.aligned:
                    self.fired.add('string-alignment-by-character-count')
                return q

            def char_bits(self, N):
                if N == 1 and self.aligned:
                    self.fired.add('one-character-alphabet-zero-bits')
                    return 0
                return x691._Per.char_bits(self, N)

            def reindexed(self, runs, b, t):
                std = x691._Per.reindexed(self, runs, b, t)
                q = std
                if runs != x691.KNOWN_MULTIPLIER[t] and (not self.aligned or t == 'BMPString'):
                    q = True
                if q != std:
                    self.fired.add('reindex-whenever-from')
                return q

            def align_field(self, buf, nitems, kind):
                if kind in ('octets', 'bits') and nitems == 0:
                    if self.aligned and len(buf) % 8:
                        self.fired.add('pad-before-empty-octet-or-bit-string')
                    self.align(buf)
                else:
                    x691._Per.align_field(self, buf, nitems, kind)

            def omit_default(self, v, m, module, addition):
                std = x691._Per.omit_default(self, v, m, module, addition)
                if addition is True:
                    if std:
                        self.fired.add('default-in-extension-addition-encoded')
                    return False
                return std

            def normally_small(self, buf, n):
                if n <= 63:
                    return x691._Per.normally_small(self, buf, n)
                if self.aligned:
                    self.fired.add('normally-small-not-aligned')
                k = self.nn_octets(n)
                buf.bit(1)
                buf.uint(k, 8)
                buf.uint(n, 8 * k)

            def normally_small_length(self, buf, n):
                if n <= 64 or n > 127:
                    return x691._Per.normally_small_length(self, buf, n)
                if self.aligned:
                    self.fired.add('normally-small-not-aligned')
                buf.bit(1)
                buf.uint(n, 8)

            def real_octets(self, value):
                import math
                if value == 0 and math.copysign(1, value) < 0:
                    self.fired.add('real-minus-zero')
                    return []
                octs = x691.real_contents(value)
                if len(octs) > 1 and octs[0] & 0x80 and (octs[0] & 3) != 3:
                    elen = (octs[0] & 3) + 1
                    if octs[1 + elen] & 0x80:
                        self.fired.add('real-mantissa-leading-zero')
                        octs = octs[:1 + elen] + [0] + octs[1 + elen:]
                return octs

            def enum_index(self, buf, index, count):
                if self.aligned and count >= 256:
                    self.fired.add('enumerated-index-not-aligned')
                buf.uint(index, (count - 1).bit_length())
        return Like()


class Tally:
    def __init__(self):
        self.same = 0
        self.both_reject = 0
        self.skipped = {}        # reason -> count
        self.known = {}          # KNOWN_DEVIATIONS key -> [(case, text)]
        self.option = {}         # SENDERS_OPTION key -> [(case, text)]
        self.unexpected = []     # (kind, case, text)

    def skip(self, why):
        self.skipped[why] = self.skipped.get(why, 0) + 1


def _match(table, prefix, case):
    for pat in table:
        if pat.startswith(prefix) and re.match(pat[len(prefix):], case):
            return pat
    return None


def compare(tally, case, parsed, module, type_name, value, codec, lib_encode, numeric_enums=False):
    from models import x691
    try:
        want = bytes(lib_encode())
        lib_err = None
    except Exception as e:                      # noqa
        want, lib_err = None, e
    try:
        got = x691.encode(parsed, module, type_name, value, codec == 'per', numeric_enums).concrete()
        err = None
    except NotImplementedError as e:
        tally.skip('model: NotImplementedError %s' % (str(e).split(' ')[0],))
        return
    except x691.EncodeError as e:
        got, err = None, e
    if lib_err is not None and err is not None:
        tally.both_reject += 1
        return
    if lib_err is not None:
        text = '%s %s value %s: asn1tools raises %s: %s; model %s' % (
            codec, type_name, _short(value), type(lib_err).__name__, str(lib_err)[:80], _hex(got))
        for pat in KNOWN_DEVIATIONS:
            if pat.startswith('E:') and re.match(pat[2:], str(lib_err)):
                tally.known.setdefault(pat, []).append((case, text))
                return
        tally.unexpected.append(('ASN1TOOLS-REJECTS', case, text))
        return
    if err is not None:
        tally.unexpected.append(('MODEL-REJECTS', case, '%s %s value %s: model rejects (%s); asn1tools %s'
                                 % (codec, type_name, _short(value), err, _hex(want))))
        return
    if got == want:
        tally.same += 1
        return
    text = '%s %s value %s\n          model     %s\n          asn1tools %s' % (codec, type_name, _short(value), _hex(got), _hex(want))
    # is the difference exactly the sum of the emulated quirks?
    like = Asn1toolsLike.make(parsed, codec == 'per', numeric_enums)
    try:
        buf = x691.BitBuf()
        like.encode_type(buf, {'type': type_name}, module, value)
        emulated = like.complete(buf).concrete()
    except Exception as e:                      # noqa
        emulated = None
    if emulated == want and like.fired:
        for q in sorted(like.fired):
            tally.known.setdefault('Q:' + q, []).append((case, text))
        return
    pat = _match(KNOWN_DEVIATIONS, 'C:', case)
    if pat:
        tally.known.setdefault(pat, []).append((case, text))
        return
    pat = _match(SENDERS_OPTION, '', case)
    if pat:
        tally.option.setdefault(pat, []).append((case, text))
        return
    if emulated is not None and emulated != want and like.fired:
        text += '\n          emulation %s (quirks %s)' % (_hex(emulated), sorted(like.fired))
    tally.unexpected.append(('DIFF', case, text))


def _short(v):
    s = repr(v)
    return s if len(s) < 300 else s[:300] + '...'


def _hex(b):
    h = b.hex()
    return h if len(h) < 200 else '%s... (%d octets)' % (h[:200], len(b))


# ---------------------------------------------------------------------------------------------
# 1. vectors of the repository's own tests
# ---------------------------------------------------------------------------------------------
def harvest_repo_tests(tally):
    import asn1tools
    from asn1tools import compiler
    records = []
    orig_compile_dict = compiler.compile_dict
    orig_encode = compiler.Specification.encode

    def compile_dict(specification, codec='ber', any_defined_by_choices=None, numeric_enums=False):
        snapshot = copy.deepcopy(specification)
        spec = orig_compile_dict(specification, codec, any_defined_by_choices, numeric_enums)
        spec._x = (snapshot, codec, numeric_enums)
        return spec

    def encode(self, name, data, *a, **k):
        out = orig_encode(self, name, data, *a, **k)
        info = getattr(self, '_x', None)
        if info is not None and info[1] in ('per', 'uper'):
            test = '?'
            f = sys._getframe(1)
            while f is not None:
                if f.f_code.co_name.startswith('test_'):
                    test = f.f_code.co_name
                    break
                f = f.f_back
            records.append((self, info, name, copy.deepcopy(data), bytes(out), test))
        return out

    compiler.compile_dict = compile_dict
    asn1tools.compile_dict = compile_dict
    compiler.Specification.encode = encode
    cwd = os.getcwd()
    os.chdir('/repo')
    try:
        suite = unittest.TestSuite()
        for mod in ('tests.test_per', 'tests.test_uper'):
            suite.addTests(unittest.defaultTestLoader.loadTestsFromName(mod))
        stream = io.StringIO()
        saved = sys.stdout, sys.stderr
        sys.stdout = sys.stderr = io.StringIO()
        try:
            result = unittest.TextTestRunner(stream=stream, verbosity=0).run(suite)
        finally:
            sys.stdout, sys.stderr = saved
    finally:
        os.chdir(cwd)
        compiler.compile_dict = orig_compile_dict
        asn1tools.compile_dict = orig_compile_dict
        compiler.Specification.encode = orig_encode
    print('repo tests: ran %d (failures %d, errors %d), %d PER/UPER encode calls recorded'
          % (result.testsRun, len(result.failures), len(result.errors), len(records)))
    seen = set()
    for spec, (parsed, codec, numeric), name, data, out, test in records:
        key = (id(spec), name, repr(data))
        if key in seen:
            continue
        seen.add(key)
        modules = [m for m in parsed if name in parsed[m].get('types', {})]
        if len(modules) != 1:
            tally.skip('repo: type name in %d modules' % len(modules))
            continue
        case = 'repo/%s/%s/%s' % (codec, test, name)
        compare(tally, case, parsed, modules[0], name, data, codec, lambda: out, numeric)


# ---------------------------------------------------------------------------------------------
# 2. corpus templates with pseudo-random values
# ---------------------------------------------------------------------------------------------
class ValueGen:
    """random values of a type, read from the parsed dictionary with the model's own view of the
    constraints (values may lie outside the root of extensible constraints)"""

    def __init__(self, parsed, rng, numeric_enums=False):
        from models import x691
        self.x = x691
        self.per = x691._Per(parsed, True, numeric_enums)
        self.rng = rng
        self.numeric = numeric_enums

    def length(self, lb, ub, ext, cap=5):
        r = self.rng
        if ext and r.random() < 0.3:
            return (ub + 1 + r.randrange(3)) if ub is not None else r.randrange(cap)
        hi = ub if ub is not None else max(lb, cap)
        hi = min(hi, max(lb, cap))
        return r.randint(lb, hi)

    def value(self, td, module, depth=0):
        per, r = self.per, self.rng
        chain = per.deref(td, module)
        btd, bmod = chain[-1]
        t = btd['type']
        if t == 'BOOLEAN':
            return r.random() < 0.5
        if t == 'NULL':
            return None
        if t == 'INTEGER':
            lb, ub, ext = per.int_constraint(chain)
            if ext and r.random() < 0.3:
                return r.choice([-1, 1]) * r.getrandbits(r.choice([3, 9, 17, 40]))
            if lb is not None and ub is not None:
                return r.choice([lb, ub, r.randint(lb, ub), r.randint(lb, ub)])
            mag = r.getrandbits(r.choice([1, 7, 8, 15, 16, 31, 33, 70]))
            if lb is not None:
                return lb + mag
            if ub is not None:
                return ub - mag
            return r.choice([-1, 1]) * mag
        if t == 'ENUMERATED':
            items = [v for v in btd['values'] if v is not None]
            it = r.choice(items)
            return it[1] if self.numeric else it[0]
        if t == 'REAL':
            return r.choice([0.0, 1.0, -1.5, float('inf'), float('-inf'), 1e-300, 3.0e38, 0.1, 12345.678,
                             -2.0 ** -20, 255.0, 65536.0, 2.0 ** 200, -0.0])
        if t == 'OCTET STRING':
            n = self.length(*per.size_constraint(chain))
            return bytes(r.getrandbits(8) for _ in range(n))
        if t == 'BIT STRING':
            lb, ub, ext = per.size_constraint(chain)
            if btd.get('named-bits'):
                n = r.randrange(0, (ub if ub is not None else 16) + 1)
            else:
                n = self.length(lb, ub, ext, cap=20)
            data = bytearray(r.getrandbits(8) for _ in range((n + 7) // 8))
            if n % 8:
                data[-1] &= (0xff << (8 - n % 8)) & 0xff
            if btd.get('named-bits') and data and r.random() < 0.5:
                data[-1] = 0
            return (bytes(data), n)
        if t in self.x.KNOWN_MULTIPLIER:
            runs = per.alphabet(chain, t)
            n = self.length(*per.size_constraint(chain))
            out = []
            for _ in range(n):
                a, b = r.choice(runs)
                out.append(chr(r.randint(a, min(b, 0x10ffff)) if not (a <= 0xd800 <= b) else r.randint(a, min(b, 0xd7ff))))
            return ''.join(out)
        if t in self.x.OCTET_CODED_STRINGS:
            n = r.randrange(4)
            hi = 0x7ff if t == 'UTF8String' else 0x7e
            return ''.join(chr(r.randint(0x20, hi)) for _ in range(n))
        if t == 'OBJECT IDENTIFIER':
            a0 = r.randrange(3)
            a1 = r.randrange(40) if a0 < 2 else r.choice([0, 39, 40, 47, 48, 999, 70000])
            return '.'.join(str(x) for x in [a0, a1] + [r.getrandbits(r.choice([1, 7, 8, 14, 15, 33]))
                                                       for _ in range(r.randrange(4))])
        if t in ('SEQUENCE OF', 'SET OF'):
            lb, ub, ext = per.size_constraint(chain)
            n = self.length(lb, ub, ext, cap=3 if depth < 3 else 0)
            return [self.value(btd['element'], bmod, depth + 1) for _ in range(n)]
        if t in ('SEQUENCE', 'SET'):
            root, adds, _m = self.x.members_split(dict(btd, members=per.members(btd, bmod)))
            out = {}
            for m in root:
                opt = m.get('optional') or 'default' in m
                if opt and (r.random() < 0.4 or depth > 3):
                    continue
                out[m['name']] = self.value(m, bmod, depth + 1)
            cut = r.randrange(len(adds) + 1)        # a value of some version of the type
            for a in adds[:cut]:
                for m in (a if isinstance(a, list) else [a]):
                    opt = m.get('optional') or 'default' in m
                    if opt and r.random() < 0.4:
                        continue
                    out[m['name']] = self.value(m, bmod, depth + 1)
            return out
        if t == 'CHOICE':
            alts = []
            for m in btd['members']:
                if m is None:
                    continue
                alts.extend(m if isinstance(m, list) else [m])
            if depth > 3:
                alts = alts[:1]
            m = r.choice(alts)
            return (m['name'], self.value(m, bmod, depth + 1))
        raise NotImplementedError(t)


def run_specs(tally, specs, per_spec=12, seed=1):
    import asn1tools
    for sid, text, type_name, module in specs:
        parsed, compiled = parse_and_compile(text)
        enum = 'ENUMERATED' in text
        for codec in ('per', 'uper'):
            for numeric in ((False, True) if enum else (False,)):
                case = '%s/%s%s' % (sid, codec, '/numeric' if numeric else '')
                spec = compiled[codec]
                if numeric and not isinstance(spec, Exception):
                    key = (text, codec, 'numeric')
                    if key not in _CACHE:
                        _CACHE[key] = asn1tools.compile_dict(copy.deepcopy(parsed), codec, numeric_enums=True)
                    spec = _CACHE[key]
                if isinstance(spec, Exception):
                    compile_failure(tally, case, spec)
                    continue
                rng = random.Random('%s/%s/%d' % (sid, numeric, seed))
                gen = ValueGen(parsed, rng, numeric)
                for k in range(per_spec):
                    try:
                        v = gen.value({'type': type_name}, module)
                    except NotImplementedError:
                        tally.skip('generator: type')
                        break
                    compare(tally, case, parsed, module, type_name, v, codec,
                            lambda: spec.encode(type_name, v), numeric)


def corpus_specs():
    import corpus
    return [('corpus/' + t['id'], t['text'], t['type'], t['module']) for t in corpus.TEMPLATES]


# ---------------------------------------------------------------------------------------------
# 3. edge cases
# ---------------------------------------------------------------------------------------------
def M(body, tags='AUTOMATIC TAGS'):
    return 'T DEFINITIONS %s ::= BEGIN\n%s\nEND\n' % (tags, body)


# (id, module text, type, [values], (body, tags) when the case may share a module with others)
EDGE = []


def E(id, body, values, type='A', tags='AUTOMATIC TAGS'):
    single = body.count('::=') == 1 and body.startswith('A ::=') and not re.search(r'[^"\w]A[^"\w]', body[5:])
    EDGE.append((id, M(body, tags), type, values, (body, tags) if single else None))


_INTS = [0, 1, 127, 128, 254, 255, 256, 65535, 65536, 65537, 2 ** 24 - 1, 2 ** 24, 2 ** 32 - 1, 2 ** 32, 2 ** 64 + 5]
# 11.5 constrained whole numbers: thresholds of the ALIGNED variant
for _hi in (1, 2, 254, 255, 256, 65534, 65535, 65536, 2 ** 24 - 1, 2 ** 24, 2 ** 32 - 1, 2 ** 32, 2 ** 64):
    E('int/0..%d' % _hi, 'A ::= SEQUENCE { f BOOLEAN, v INTEGER (0..%d), g BOOLEAN }' % _hi,
      [{'f': True, 'v': v, 'g': True} for v in _INTS if v <= _hi])
E('int/-70000..70000', 'A ::= SEQUENCE { f BOOLEAN, v INTEGER (-70000..70000) }',
  [{'f': True, 'v': v} for v in (-70000, -65537, -1, 0, 255, 256, 65535, 65536, 70000)])
E('int/semi', 'A ::= SEQUENCE { f BOOLEAN, v INTEGER (-3..MAX) }',
  [{'f': False, 'v': v - 3} for v in _INTS])
E('int/upper-only', 'A ::= SEQUENCE { f BOOLEAN, v INTEGER (MIN..3) }',
  [{'f': False, 'v': 3 - v} for v in _INTS])
E('int/unconstrained', 'A ::= SEQUENCE { f BOOLEAN, v INTEGER }',
  [{'f': False, 'v': s * v} for v in _INTS + [129, 32767, 32768, 32769, 2 ** 31, 2 ** 63] for s in (1, -1)])
E('int/ext', 'A ::= SEQUENCE { f BOOLEAN, v INTEGER (-2..5, ...) }',
  [{'f': True, 'v': v} for v in (-2, 0, 5, 6, -3, 127, 128, -128, -129, 2 ** 40, -2 ** 40)])
E('int/ext-semi', 'A ::= INTEGER (0..MAX, ...)', [0, 5, 255, 256, -1, -200])
E('int/union', 'A ::= SEQUENCE { v INTEGER (1..5 | 10..20), w INTEGER (3 | 9) }', [{'v': 1, 'w': 3}, {'v': 20, 'w': 9}, {'v': 12, 'w': 9}])
E('int/serial', 'A ::= B (2..9)\nB ::= INTEGER (0..100, ...)', [2, 9, 5])
E('int/serial-minmax', 'A ::= B (MIN..50)\nB ::= INTEGER (10..100)', [10, 50, 33])
E('int/contained', 'A ::= INTEGER (B)\nB ::= INTEGER (3..6)', [3, 6])
E('int/ext-additions', 'A ::= INTEGER (1..5, ..., 7..9)', [1, 5, 7, 9, 200])
# 14 ENUMERATED
E('enum/order', 'A ::= ENUMERATED { a(5), b(-1), c(3), d(0) }', ['a', 'b', 'c', 'd'])
E('enum/ext-order', 'A ::= ENUMERATED { a(5), b(1), ..., c(7), d(9) }', ['a', 'b', 'c', 'd'])
E('enum/one', 'A ::= SEQUENCE { e ENUMERATED { only }, b BOOLEAN }', [{'e': 'only', 'b': True}])
E('enum/300', 'A ::= SEQUENCE { b BOOLEAN, e ENUMERATED { %s } }' % ', '.join('e%d' % i for i in range(300)),
  [{'b': True, 'e': 'e%d' % i} for i in (0, 1, 255, 256, 299)])
E('enum/ext-70', 'A ::= SEQUENCE { b BOOLEAN, e ENUMERATED { r, ..., %s } }' % ', '.join('x%d' % i for i in range(70)),
  [{'b': True, 'e': n} for n in ('r', 'x0', 'x62', 'x63', 'x64', 'x69')])
# 16 BIT STRING
_B = lambda n: (bytes([0xa5] * ((n + 7) // 8))[:-1] + bytes([0xa5 & (0xff << (-n % 8)) & 0xff]) if n else b'', n)   # noqa: E731
for _c, _ns in (('', (0, 1, 7, 8, 9, 127, 128, 129)), ('(SIZE(0))', (0,)), ('(SIZE(1))', (1,)), ('(SIZE(16))', (16,)),
                ('(SIZE(17))', (17,)), ('(SIZE(24))', (24,)), ('(SIZE(0..1))', (0, 1)), ('(SIZE(0..7))', (0, 3, 7)),
                ('(SIZE(0..16))', (0, 16)), ('(SIZE(1..16))', (1, 16)), ('(SIZE(15..17))', (15, 17)),
                ('(SIZE(0..255))', (0, 255)), ('(SIZE(0..256))', (0, 256)), ('(SIZE(2..MAX))', (2, 130)),
                ('(SIZE(4, ...))', (4, 3, 5, 0)), ('(SIZE(1..4, ...))', (1, 4, 0, 5, 200)), ('(SIZE(20, ...))', (20, 21)),
                ('(SIZE(0..65535))', (0, 9)), ('(SIZE(0..65536))', (0, 9)), ('(SIZE(65535))', (65535,)),
                ('(SIZE(65536))', (65536,))):
    E('bits/%s' % (_c or 'plain'), 'A ::= SEQUENCE { f BOOLEAN, v BIT STRING %s, g BOOLEAN }' % _c,
      [{'f': True, 'v': _B(n), 'g': True} for n in _ns])
E('bits/named', 'A ::= SEQUENCE { f BOOLEAN, v BIT STRING { a(0), b(3), c(9) } }',
  [{'f': True, 'v': v} for v in ((b'', 0), (b'\x00', 8), (b'\x80', 1), (b'\x80', 8), (b'\x90\x40', 10), (b'\x90\x40', 16),
                                 (b'\x00\x00', 16), (b'\x10', 4), (b'\x10\x00\x00', 24))])
E('bits/named-size', 'A ::= SEQUENCE { f BOOLEAN, v BIT STRING { a(0), b(3) } (SIZE(4..12)) }',
  [{'f': True, 'v': v} for v in ((b'\x00', 4), (b'\x80', 4), (b'\x80\x00', 12), (b'\x00\x10', 12), (b'\x10', 8), (b'\x00', 8))])
E('bits/named-fixed', 'A ::= SEQUENCE { f BOOLEAN, v BIT STRING { a(0), b(3) } (SIZE(6)) }',
  [{'f': True, 'v': v} for v in ((b'\x00', 6), (b'\x80', 6), (b'\x14', 6))])
E('bits/named-ext', 'A ::= SEQUENCE { f BOOLEAN, v BIT STRING { a(0), b(3) } (SIZE(2..4, ...)) }',
  [{'f': True, 'v': v} for v in ((b'\x00', 4), (b'\x80', 2), (b'\x08', 5), (b'\x08', 8), (b'\x00', 8), (b'', 0))])
# 17 OCTET STRING
_O = lambda n: bytes((7 * i + 1) & 0xff for i in range(n))     # noqa: E731
for _c, _ns in (('', (0, 1, 127, 128, 129)), ('(SIZE(0))', (0,)), ('(SIZE(1))', (1,)), ('(SIZE(2))', (2,)), ('(SIZE(3))', (3,)),
                ('(SIZE(0..1))', (0, 1)), ('(SIZE(1..2))', (1, 2)), ('(SIZE(0..2))', (0, 2)), ('(SIZE(2..3))', (2, 3)),
                ('(SIZE(0..255))', (0, 255)), ('(SIZE(0..256))', (0, 256)), ('(SIZE(1..256))', (1, 256)),
                ('(SIZE(2, ...))', (2, 1, 3, 0)), ('(SIZE(1..2, ...))', (1, 2, 0, 3, 200)), ('(SIZE(5..MAX))', (5, 200)),
                ('(SIZE(0..65535))', (0, 3)), ('(SIZE(0..65536))', (0, 3)), ('(SIZE(65535))', (65535,)),
                ('(SIZE(65536))', (65536,))):
    E('octets/%s' % (_c or 'plain'), 'A ::= SEQUENCE { f BOOLEAN, v OCTET STRING %s, g BOOLEAN }' % _c,
      [{'f': True, 'v': _O(n), 'g': True} for n in _ns])
# 11.9 length determinants: 16K fragmentation
for _n in (16383, 16384, 16385, 32768, 65536, 65537, 81921):
    E('frag/octets-%d' % _n, 'A ::= SEQUENCE { f BOOLEAN, v OCTET STRING }', [{'f': True, 'v': _O(_n)}])
for _n in (16383, 16384, 16385, 65537):
    E('frag/bits-%d' % _n, 'A ::= SEQUENCE { f BOOLEAN, v BIT STRING }', [{'f': True, 'v': _B(_n)}])
    E('frag/seqof-%d' % _n, 'A ::= SEQUENCE { f BOOLEAN, v SEQUENCE OF INTEGER (0..2) }', [{'f': True, 'v': [i % 3 for i in range(_n)]}])
    E('frag/ia5-%d' % _n, 'A ::= SEQUENCE { f BOOLEAN, v IA5String }', [{'f': True, 'v': 'ab' * (_n // 2) + 'c' * (_n % 2)}])
    E('frag/numeric-%d' % _n, 'A ::= SEQUENCE { f BOOLEAN, v NumericString }', [{'f': True, 'v': '12' * (_n // 2) + '3' * (_n % 2)}])
    E('frag/utf8-%d' % _n, 'A ::= SEQUENCE { f BOOLEAN, v UTF8String }', [{'f': True, 'v': 'ab' * (_n // 2) + 'c' * (_n % 2)}])
E('frag/seqof-size', 'A ::= SEQUENCE { f BOOLEAN, v SEQUENCE (SIZE(0..70000)) OF BOOLEAN }',
  [{'f': True, 'v': [True] * n} for n in (0, 3, 16384, 66000)])
E('frag/seqof-size64k', 'A ::= SEQUENCE { f BOOLEAN, v SEQUENCE (SIZE(1..65535)) OF BOOLEAN }',
  [{'f': True, 'v': [True] * n} for n in (1, 3, 16384, 65535)])
E('frag/opentype', 'A ::= SEQUENCE { f BOOLEAN, ..., v OCTET STRING }', [{'f': True, 'v': _O(n)} for n in (0, 125, 126, 127, 16381, 16382, 16383, 70000)])
# 20 SEQUENCE OF
for _c, _ns in (('(SIZE(0))', (0,)), ('(SIZE(2))', (2,)), ('(SIZE(0..1))', (0, 1)), ('(SIZE(1..4))', (1, 4)),
                ('(SIZE(0..255))', (0, 255)), ('(SIZE(0..256))', (0, 256)), ('(SIZE(2, ...))', (2, 0, 3)),
                ('(SIZE(1..2, ...))', (1, 0, 3, 130)), ('(SIZE(3..MAX))', (3, 130))):
    E('seqof/%s' % _c, 'A ::= SEQUENCE { f BOOLEAN, v SEQUENCE %s OF INTEGER (0..5), w SET %s OF BOOLEAN }' % (_c, _c),
      [{'f': True, 'v': [i % 6 for i in range(n)], 'w': [i % 2 == 0 for i in range(n)]} for n in _ns])
E('seqof/aligned-elements', 'A ::= SEQUENCE { f BOOLEAN, v SEQUENCE (SIZE(0..3)) OF OCTET STRING (SIZE(3)) }',
  [{'f': True, 'v': [b'abc'] * n} for n in (0, 1, 3)])
# 30 known-multiplier strings: aub x b around 16 bits, alphabets, re-indexing
for _t, _s in (('IA5String', 'ab'), ('VisibleString', 'xy'), ('PrintableString', 'A9'), ('NumericString', '0 9'),
               ('BMPString', 'a中'), ('UniversalString', 'a\U0001f600')):
    for _c, _ns in (('', (0, 1, 5, 130)), ('(SIZE(1))', (1,)), ('(SIZE(2))', (2,)), ('(SIZE(3))', (3,)), ('(SIZE(4))', (4,)), ('(SIZE(5))', (5,)),
                    ('(SIZE(0..1))', (0, 1)), ('(SIZE(0..2))', (0, 2)), ('(SIZE(1..2))', (1, 2)), ('(SIZE(0..3))', (0, 3)),
                    ('(SIZE(0..4))', (0, 4)), ('(SIZE(2..4))', (2, 4)), ('(SIZE(0..5))', (0, 5)), ('(SIZE(0..255))', (0, 7)), ('(SIZE(0..256))', (0, 7)),
                    ('(SIZE(2, ...))', (2, 0, 3)), ('(SIZE(1..2, ...))', (1, 2, 0, 3)), ('(SIZE(4..MAX))', (4, 9)),
                    ('(SIZE(0..65535))', (0, 3)), ('(SIZE(0..65536))', (0, 3))):
        E('str/%s%s' % (_t, _c), 'A ::= SEQUENCE { f BOOLEAN, v %s %s, g BOOLEAN }' % (_t, _c),
          [{'f': True, 'v': (_s * n)[:n], 'g': True} for n in _ns])
for _t in ('IA5String', 'PrintableString', 'NumericString', 'BMPString', 'UniversalString'):
    for _f, _s in (('"5"', '5'), ('"1".."2"', '12'), ('"1".."3"', '123'), ('"1".."4"', '1234'), ('"0".."4"', '01234'),
                   ('"0".."9"', '0189'), ('" " | "0".."9"', ' 09'), ('"0".."8"', '08')):
        for _c in ('', '(SIZE(2))', '(SIZE(0..3))', '(SIZE(0..15))', '(SIZE(17))', '(SIZE(0..16))'):
            _lo = int(re.findall(r'\d+', _c)[0]) if _c else 0
            _hi = int(re.findall(r'\d+', _c)[-1]) if _c else 6
            E('from/%s(FROM(%s))%s' % (_t, _f, _c), 'A ::= SEQUENCE { f BOOLEAN, v %s (FROM(%s)) %s, g BOOLEAN }' % (_t, _f, _c),
              [{'f': True, 'v': (_s * 20)[:n], 'g': True} for n in sorted({_lo, _hi})])
E('from/ia5-letters', 'A ::= IA5String (FROM("a".."z" | "A".."Z" | "-."))', ['', 'aZ-.', 'Hello'])
E('from/ia5-high', 'A ::= IA5String (FROM("p".."z"))', ['pz', 'q'])
E('from/extensible-alphabet', 'A ::= IA5String (FROM("a".."z", ...))', ['abc'])
E('from/visible-16', 'A ::= VisibleString (FROM("a".."p"))', ['ap', 'b'])
E('from/visible-17', 'A ::= VisibleString (FROM("a".."q"))', ['aq', 'b'])
E('from/bmp-256', 'A ::= BMPString (FROM("Ā".."ǿ"))', ['Āǿ'])
E('from/visible-94', 'A ::= VisibleString (FROM("!".."~"))', ['!~', 'Az'])
E('from/visible-65', 'A ::= VisibleString (FROM("!".."a"))', ['!a'])
E('from/visible-64', 'A ::= VisibleString (FROM("!".."`"))', ['!`'])
E('from/printable-65', 'A ::= PrintableString (FROM("0".."9" | "A".."Z" | "a".."z" | " " | "?" | "="))', ['0z ?='])
E('from/printable-range', 'A ::= PrintableString (FROM("A".."z"))', ['Az'])
E('from/bmp-low', 'A ::= BMPString (FROM("a".."z"))', ['az'])
E('from/bmp-sparse', 'A ::= BMPString (FROM("a" | "中"))', ['a中'])
E('from/ref-size', 'A ::= B (SIZE(1..3))\nB ::= IA5String (FROM("a".."d"))', ['a', 'abd'])
E('from/ref-from', 'A ::= B (FROM("a".."d"))\nB ::= IA5String (SIZE(1..3))', ['a', 'abd'])
E('from/ref-from-ext', 'A ::= B (FROM("a".."d"))\nB ::= IA5String (SIZE(1..3, ...))', ['a', 'abd'])
E('from/numeric-digits', 'A ::= NumericString (FROM("0".."9"))', ['', '0189'])
E('from/size-ext-alpha', 'A ::= IA5String (FROM("a".."d")) (SIZE(1..2, ...))', ['a', 'ab', 'abc', ''])
E('str/others', 'A ::= SEQUENCE { f BOOLEAN, u UTF8String (SIZE(2)), g GeneralString, h GraphicString, t TeletexString, o ObjectDescriptor }',
  [{'f': True, 'u': 'aé', 'g': 'g', 'h': '', 't': 'tt', 'o': 'x' * 130}])
# 19 SEQUENCE / 21 SET
E('seq/ext-many', 'A ::= SEQUENCE { r BOOLEAN, ..., %s }' % ', '.join('x%d INTEGER (0..7) OPTIONAL' % i for i in range(70)),
  [{'r': True, 'x0': 1}, {'r': True, 'x63': 2}, {'r': True, 'x64': 3}, {'r': True, 'x69': 7, 'x1': 0}, {'r': False}])
E('seq/ext-64', 'A ::= SEQUENCE { r BOOLEAN, ..., %s }' % ', '.join('x%d NULL OPTIONAL' % i for i in range(64)),
  [{'r': True, 'x0': None}, {'r': True, 'x63': None}])
E('seq/ext-65', 'A ::= SEQUENCE { r BOOLEAN, ..., %s }' % ', '.join('x%d NULL OPTIONAL' % i for i in range(65)),
  [{'r': True, 'x0': None}, {'r': True, 'x64': None}])
E('seq/ext-trailing-absent', 'A ::= SEQUENCE { r BOOLEAN, ..., a INTEGER (0..7), b BOOLEAN, c NULL }',
  [{'r': True, 'a': 1}, {'r': True, 'a': 1, 'b': False}, {'r': True, 'a': 1, 'b': False, 'c': None}, {'r': True}])
E('seq/group-null', 'A ::= SEQUENCE { r BOOLEAN, ..., [[ c NULL, d INTEGER DEFAULT 4 ]], [[ e SEQUENCE { } ]] }',
  [{'r': True}, {'r': True, 'c': None}, {'r': True, 'c': None, 'd': 4}, {'r': True, 'c': None, 'd': 5}, {'r': True, 'e': {}}])
E('seq/ext-group', 'A ::= SEQUENCE { r BOOLEAN, ..., [[ a INTEGER (0..7) OPTIONAL, b BOOLEAN OPTIONAL ]], [[ c BOOLEAN, d INTEGER DEFAULT 4 ]], e OCTET STRING (SIZE(0..3)) }',
  [{'r': True}, {'r': True, 'a': 3}, {'r': True, 'b': True, 'c': True}, {'r': True, 'c': False, 'd': 4}, {'r': True, 'c': True, 'd': 5, 'e': b''},
   {'r': True, 'a': 1, 'c': False, 'e': b'\x01\x02\x03'}])
E('seq/ext-default', 'A ::= SEQUENCE { r BOOLEAN, ..., a INTEGER DEFAULT 3, b BOOLEAN }',
  [{'r': True, 'a': 3}, {'r': True, 'a': 4}, {'r': True, 'a': 3, 'b': True}])
E('seq/ext-second-marker', 'A ::= SEQUENCE { r BOOLEAN, ..., a INTEGER (0..7), ..., z INTEGER (0..3) OPTIONAL }',
  [{'r': True}, {'r': True, 'z': 3}, {'r': True, 'a': 7, 'z': 1}])
E('seq/opentype-null', 'A ::= SEQUENCE { r BOOLEAN, ..., n NULL, s SEQUENCE {} , i INTEGER (5) }',
  [{'r': True, 'n': None}, {'r': True, 'n': None, 's': {}, 'i': 5}])
E('seq/opentype-big', 'A ::= SEQUENCE { r BOOLEAN, ..., o OCTET STRING }', [{'r': True, 'o': _O(n)} for n in (0, 126, 127, 128, 300)])
for _k, _d, _eq, _ne in (('int', 'INTEGER DEFAULT 0', 0, 1), ('bool', 'BOOLEAN DEFAULT FALSE', False, True),
                         ('enum', 'ENUMERATED { x, y } DEFAULT y', 'y', 'x'), ('octets', "OCTET STRING DEFAULT '0A'H", b'\x0a', b'\x0b'),
                         ('ia5', 'IA5String DEFAULT "hi"', 'hi', 'ho'), ('bits', "BIT STRING DEFAULT '101'B", (b'\xa0', 3), (b'\xa0', 4)),
                         ('seqof', 'SEQUENCE OF INTEGER DEFAULT {}', [], [1]), ('real', 'REAL DEFAULT 1.5', 1.5, 2.5),
                         ('namedbits', 'BIT STRING { p(0), q(2) } DEFAULT { q }', (b'\x20', 3), (b'\xa0', 3)),
                         ('namedbits-trailing', 'BIT STRING { p(0), q(2) } DEFAULT { q }', (b'\x20', 8), (b'\x20\x80', 9)),
                         ('oid', 'OBJECT IDENTIFIER DEFAULT { 1 2 3 }', '1.2.3', '1.2.4'), ('null', 'NULL DEFAULT NULL', None, None)):
    E('seq/default-%s' % _k, 'A ::= SEQUENCE { f BOOLEAN, g %s }' % _d, [{'f': True}, {'f': True, 'g': _eq}, {'f': True, 'g': _ne}])
E('seq/default-struct', 'A ::= SEQUENCE { s SEQUENCE { x INTEGER DEFAULT 1 } DEFAULT {}, t BOOLEAN }',
  [{'t': True}, {'s': {}, 't': True}, {'s': {'x': 1}, 't': True}, {'s': {'x': 2}, 't': True}])
E('seq/default-ref', 'A ::= SEQUENCE { b B DEFAULT TRUE, e E DEFAULT two, i I DEFAULT 5 }\nB ::= BOOLEAN\nE ::= ENUMERATED { one, two }\nI ::= INTEGER (0..20)',
  [{}, {'b': True, 'e': 'two', 'i': 5}, {'b': False, 'e': 'one', 'i': 6}])
E('seq/empty', 'A ::= SEQUENCE { }', [{}])
E('seq/implied', 'A ::= SEQUENCE { a INTEGER (0..7), c CHOICE { x NULL, y BOOLEAN }, e ENUMERATED { p, q } }',
  [{'a': 3, 'c': ('y', True), 'e': 'q'}], tags='AUTOMATIC TAGS EXTENSIBILITY IMPLIED')
for _tags in ('AUTOMATIC TAGS', 'IMPLICIT TAGS', 'EXPLICIT TAGS', ''):
    E('set/untagged %s' % _tags, 'A ::= SET { z INTEGER (0..7), y BOOLEAN, x OCTET STRING (SIZE(1)), w NULL OPTIONAL, v IA5String (SIZE(1)), u ENUMERATED { e1, e2 }, '
      't BIT STRING (SIZE(3)), s REAL OPTIONAL, r SEQUENCE { i INTEGER (0..3) }, q SET OF BOOLEAN, p UTF8String, o OBJECT IDENTIFIER OPTIONAL }',
      [{'z': 5, 'y': True, 'x': b'\x77', 'w': None, 'v': 'V', 'u': 'e2', 't': (b'\xa0', 3), 'r': {'i': 2}, 'q': [True], 'p': 'p'},
       {'z': 1, 'y': False, 'x': b'\x01', 'v': 'a', 'u': 'e1', 't': (b'\x20', 3), 's': 1.0, 'r': {'i': 0}, 'q': [], 'p': '', 'o': '1.2'}], tags=_tags)
    E('set/tagged %s' % _tags, 'A ::= SET { a [5] INTEGER (0..7), b [1] BOOLEAN, c [APPLICATION 0] INTEGER (0..3), d [PRIVATE 0] INTEGER (0..3), e INTEGER (0..15), '
      'f [UNIVERSAL 1] IMPLICIT INTEGER (0..1), g [30] EXPLICIT NULL OPTIONAL, h [APPLICATION 7] EXPLICIT OCTET STRING (SIZE(1)) }',
      [{'a': 7, 'b': True, 'c': 3, 'd': 0, 'e': 9, 'f': 1, 'g': None, 'h': b'\x55'}, {'a': 0, 'b': False, 'c': 1, 'd': 2, 'e': 15, 'f': 0, 'h': b'\xaa'}], tags=_tags)
    E('set/choice %s' % _tags, 'A ::= SET { a BOOLEAN, c CHOICE { p [7] INTEGER (0..7), q [0] BOOLEAN, r CHOICE { s [APPLICATION 1] NULL, t [2] NULL } }, '
      'b [1] INTEGER (0..3), d C2 }\nC2 ::= CHOICE { m OCTET STRING (SIZE(1)), n [3] NULL }',
      [{'a': True, 'c': ('p', 5), 'b': 2, 'd': ('m', b'\x11')}, {'a': False, 'c': ('r', ('s', None)), 'b': 1, 'd': ('n', None)},
       {'a': False, 'c': ('r', ('t', None)), 'b': 1, 'd': ('n', None)}, {'a': True, 'c': ('q', True), 'b': 0, 'd': ('m', b'\x00')}], tags=_tags)
    E('set/ref-tags %s' % _tags, 'A ::= SET { a B, b C, c [0] B, d D }\nB ::= [APPLICATION 3] INTEGER (0..7)\nC ::= [APPLICATION 1] EXPLICIT BOOLEAN\nD ::= SEQUENCE { x NULL }',
      [{'a': 1, 'b': True, 'c': 6, 'd': {'x': None}}], tags=_tags)
    E('set/ext %s' % _tags, 'A ::= SET { z [9] INTEGER (0..7), y [3] BOOLEAN, ..., x [1] INTEGER (0..3), w [0] BOOLEAN }',
      [{'z': 1, 'y': True}, {'z': 1, 'y': True, 'x': 3}, {'z': 1, 'y': True, 'x': 3, 'w': False}], tags=_tags)
    E('set/all-tagged %s' % _tags, 'A ::= SET { a [5] INTEGER (0..7), b [1] BOOLEAN, c [APPLICATION 0] INTEGER (0..3), d [PRIVATE 0] INTEGER (0..3), '
      'f [UNIVERSAL 1] IMPLICIT INTEGER (0..1), g [30] EXPLICIT NULL OPTIONAL, h [APPLICATION 7] EXPLICIT OCTET STRING (SIZE(1)), i [PRIVATE 1] BOOLEAN }',
      [{'a': 7, 'b': True, 'c': 3, 'd': 0, 'f': 1, 'g': None, 'h': b'\x55', 'i': True}, {'a': 0, 'b': False, 'c': 1, 'd': 2, 'f': 0, 'h': b'\xaa', 'i': False}], tags=_tags)
    E('set/ref-tagged %s' % _tags, 'A ::= SET { a B, b C, c [0] B, d [APPLICATION 2] D }\nB ::= [APPLICATION 3] INTEGER (0..7)\nC ::= [APPLICATION 1] EXPLICIT BOOLEAN\nD ::= SEQUENCE { x NULL }',
      [{'a': 1, 'b': True, 'c': 6, 'd': {'x': None}}], tags=_tags)
    # 23 CHOICE
    E('choice/tagged %s' % _tags, 'A ::= CHOICE { a [5] INTEGER (0..7), b [1] BOOLEAN, c [APPLICATION 0] INTEGER (0..3), d [PRIVATE 0] NULL, e OCTET STRING (SIZE(1)) }',
      [('a', 7), ('b', True), ('c', 2), ('d', None), ('e', b'\x42')], tags=_tags)
    E('choice/untagged %s' % _tags, 'A ::= CHOICE { z IA5String (SIZE(1)), y INTEGER (0..7), x BOOLEAN, w NULL, v SEQUENCE { } , u SET OF NULL, t REAL }',
      [('z', 'Z'), ('y', 3), ('x', True), ('w', None), ('v', {}), ('u', [None, None]), ('t', 0.5)], tags=_tags)
    E('choice/nested %s' % _tags, 'A ::= CHOICE { a CHOICE { p [9] NULL, q [4] NULL }, b [6] NULL, c CHOICE { r [5] NULL, s [12] NULL } }',
      [('a', ('p', None)), ('a', ('q', None)), ('b', None), ('c', ('r', None)), ('c', ('s', None))], tags=_tags)
    E('choice/ext %s' % _tags, 'A ::= CHOICE { b [8] BOOLEAN, a [2] INTEGER (0..7), ..., d [10] INTEGER (0..300), [[ c [11] NULL, e [12] OCTET STRING ]] }',
      [('a', 5), ('b', True), ('d', 300), ('c', None), ('e', b'hello')], tags=_tags)
E('choice/single', 'A ::= SEQUENCE { f BOOLEAN, c CHOICE { only INTEGER (0..7) } }', [{'f': True, 'c': ('only', 5)}])
E('choice/single-ext', 'A ::= SEQUENCE { f BOOLEAN, c CHOICE { only INTEGER (0..7), ... } }', [{'f': True, 'c': ('only', 5)}])
E('choice/300', 'A ::= SEQUENCE { f BOOLEAN, c CHOICE { %s } }' % ', '.join('a%d NULL' % i for i in range(300)),
  [{'f': True, 'c': ('a%d' % i, None)} for i in (0, 255, 256, 299)])
E('choice/ext-70', 'A ::= SEQUENCE { f BOOLEAN, c CHOICE { r NULL, ..., %s } }' % ', '.join('x%d INTEGER (0..7)' % i for i in range(70)),
  [{'f': True, 'c': (n, 5)} for n in ('x0', 'x63', 'x64', 'x69')] + [{'f': True, 'c': ('r', None)}])
# 15 REAL, 24 OBJECT IDENTIFIER
E('real', 'A ::= SEQUENCE { f BOOLEAN, v REAL }',
  [{'f': True, 'v': v} for v in (0.0, -0.0, 1.0, -1.0, 0.5, 3.0, 10.0, 0.1, -0.1, 1e-300, 1e300, 2.0 ** 127, 2.0 ** 128, 2.0 ** -129, 2.0 ** -130,
                                 2.0 ** 1023, 5e-324, 2.0 ** -1022, 123456789.125, float('inf'), float('-inf'), 255.0, 256.0, 2.0 ** 53 - 1, 1)])
E('real/nan', 'A ::= REAL', [float('nan')])
E('oid', 'A ::= SEQUENCE { f BOOLEAN, v OBJECT IDENTIFIER }',
  [{'f': True, 'v': v} for v in ('0.0', '0.39', '1.0', '1.39.127.128', '2.0', '2.39', '2.40', '2.47', '2.48', '2.999.3', '2.16383.16384.2097151.2097152',
                                 '1.2.840.113549.1.1.11', '2.100000000000000000000', '1.2.' + '.'.join(['1'] * 130))])
E('null-bool', 'A ::= SEQUENCE { n NULL, b BOOLEAN }', [{'n': None, 'b': True}])
E('top/null', 'A ::= NULL', [None])
E('top/int-single', 'A ::= INTEGER (7)', [7])
E('top/fixed-empty', 'A ::= OCTET STRING (SIZE(0))', [b''])
E('ref/recursive', 'A ::= SEQUENCE { v INTEGER (0..7), next A OPTIONAL, ..., more SEQUENCE OF A }',
  [{'v': 1, 'next': {'v': 2, 'next': {'v': 3}, 'more': [{'v': 4}]}}])
EDGE.append(('ref/imports', 'T DEFINITIONS AUTOMATIC TAGS ::= BEGIN\nIMPORTS B, E FROM U;\nA ::= SEQUENCE { a B, b [0] E, c INTEGER (0..7) }\nEND\n'
             'U DEFINITIONS EXPLICIT TAGS EXTENSIBILITY IMPLIED ::= BEGIN\nB ::= SEQUENCE { x INTEGER (0..300), y [0] BOOLEAN OPTIONAL }\n'
             'E ::= ENUMERATED { p, q }\nEND\n', 'A', [{'a': {'x': 300, 'y': True}, 'b': 'q', 'c': 5}, {'a': {'x': 0}, 'b': 'p', 'c': 0}], None))
EDGE.append(('ref/imports-set', EDGE[-1][1].replace('SEQUENCE', 'SET'), 'A', EDGE[-1][3], None))
E('ref/components-of', 'A ::= SET { a [3] BOOLEAN, COMPONENTS OF B, z [0] INTEGER (0..3) }\nB ::= SET { p [2] INTEGER (0..7), q [1] BOOLEAN OPTIONAL, ..., r NULL }',
  [{'a': True, 'p': 5, 'q': False, 'z': 2}, {'a': False, 'p': 0, 'z': 3}], tags='IMPLICIT TAGS')
E('ref/components-of-auto', 'A ::= SET { a BOOLEAN, COMPONENTS OF B, z INTEGER (0..3) }\nB ::= SET { p [2] INTEGER (0..7), q [1] BOOLEAN OPTIONAL }',
  [{'a': True, 'p': 5, 'q': False, 'z': 2}])
E('alias', 'A ::= SEQUENCE { a ISO646String (SIZE(2)), b T61String }', [{'a': 'ab', 'b': 'cd'}])


_CACHE = {}


def parse_and_compile(text):
    """parsed dictionary and {codec: Specification or the exception raised} (asn1tools builds its
    pyparsing grammar anew for every call, about half a second: cache per text)"""
    import asn1tools
    if text not in _CACHE:
        parsed = asn1tools.parse_string(text)
        compiled = {}
        for codec in ('per', 'uper'):
            try:
                compiled[codec] = asn1tools.compile_dict(copy.deepcopy(parsed), codec)
            except Exception as e:      # noqa
                compiled[codec] = e
        _CACHE[text] = (parsed, compiled)
    return _CACHE[text]


def run_edge(tally, batch=40):
    # cases made of a single type definition share modules (one module per tagging default and
    # `batch` cases); if asn1tools cannot compile a shared module its cases are run one by one
    jobs = []           # (text, [(sid, type name, values)])
    pools = {}
    for sid, text, type_name, values, single in EDGE:
        if single is None:
            jobs.append((text, [(sid, type_name, values)]))
        else:
            pools.setdefault(single[1], []).append((sid, single[0], values, text))
    for tags, pool in pools.items():
        for i in range(0, len(pool), batch):
            part = pool[i:i + batch]
            body = '\n'.join('A%d%s' % (k, b[1:]) for k, (_sid, b, _v, _t) in enumerate(part))
            jobs.append((M(body, tags), [(sid, 'A%d' % k, values) for k, (sid, _b, values, _t) in enumerate(part)],
                         [(t, [(sid, 'A', values)]) for sid, _b, values, t in part]))
    while jobs:
        job = jobs.pop(0)
        text, cases = job[0], job[1]
        try:
            parsed, compiled = parse_and_compile(text)
        except Exception as e:      # noqa
            if len(job) > 2:
                jobs = job[2] + jobs
            else:
                tally.unexpected.append(('PARSE', 'edge/' + cases[0][0], 'asn1tools cannot parse: %s' % str(e)[:200]))
            continue
        if len(job) > 2 and any(isinstance(c, Exception) for c in compiled.values()):
            jobs = job[2] + jobs
            continue
        for codec in ('per', 'uper'):
            spec = compiled[codec]
            for sid, type_name, values in cases:
                case = 'edge/%s/%s' % (sid, codec)
                if isinstance(spec, Exception):
                    compile_failure(tally, case, spec)
                    continue
                for v in values:
                    compare(tally, case, parsed, 'T', type_name, v, codec, lambda: spec.encode(type_name, v))


def compile_failure(tally, case, exc):
    text = 'asn1tools cannot compile: %s: %s' % (type(exc).__name__, str(exc)[:120])
    for pat in KNOWN_DEVIATIONS:
        if pat.startswith('X:') and re.match(pat[2:], case):
            tally.known.setdefault(pat, []).append((case, text))
            return
    tally.unexpected.append(('COMPILE', case, text))


# ---------------------------------------------------------------------------------------------
# 4. real-world specifications of the repository with pseudo-random values
# ---------------------------------------------------------------------------------------------
REAL_WORLD = [(['3gpp/rrc_8_6_0.asn'], 40), (['3gpp/lpp_14_3_0.asn'], 30), (['oma/ulp.asn'], 30),
              (['etsi/cam_pdu_descriptions_1_3_2.asn', 'etsi/its_container_1_2_1.asn'], 30)]


def run_real_world(tally, per_type=3):
    import asn1tools
    for files, ntypes in REAL_WORLD:
        paths = ['/repo/tests/files/' + f for f in files]
        parsed = asn1tools.parse_files(paths)
        names = sorted((m, t) for m in parsed for t in parsed[m]['types'] if 'parameters' not in parsed[m]['types'][t])
        for codec in ('uper', 'per'):
            spec = asn1tools.compile_dict(copy.deepcopy(parsed), codec)
            rng = random.Random(files[0])
            rng.shuffle(names)
            for m, t in names[:ntypes]:
                gen = ValueGen(parsed, rng)
                for _k in range(per_type):
                    try:
                        v = gen.value({'type': t}, m)
                    except (NotImplementedError, RecursionError):
                        tally.skip('generator: type')
                        break
                    compare(tally, 'real/%s/%s/%s' % (files[0], codec, t), parsed, m, t, v, codec, lambda: spec.encode(t, v))


# ---------------------------------------------------------------------------------------------
# 5. a few octet strings worked out by hand from the clauses, for rules asn1tools cannot arbitrate
#    (it deviates or cannot compile the type)
# ---------------------------------------------------------------------------------------------
HAND = [
    # 21.1: SET components in canonical tag order: y BOOLEAN (UNIVERSAL 1) before z INTEGER (UNIVERSAL 2)
    ('EXPLICIT TAGS', 'A ::= SET { z INTEGER (0..7), y BOOLEAN }', {'z': 5, 'y': True}, 'd0', 'd0'),
    # ... an untagged CHOICE counts with its smallest tag: c (BOOLEAN in it) < b INTEGER < a OCTET STRING
    ('EXPLICIT TAGS', 'A ::= SET { a OCTET STRING (SIZE(1)), b INTEGER (0..3), c CHOICE { p NULL, q BOOLEAN } }',
     {'a': b'\xff', 'b': 2, 'c': ('p', None)}, 'dfe0', 'dfe0'),    # c: index of p (NULL 5 > BOOLEAN 1) = 1 -> 1 | b 10 | a 11111111
    # 23.1: CHOICE index in canonical tag order: b BOOLEAN = 0, i INTEGER = 1
    ('', 'A ::= CHOICE { i INTEGER (0..7), b BOOLEAN }', ('i', 5), 'd0', 'd0'),
    ('', 'A ::= CHOICE { i INTEGER (0..7), b BOOLEAN }', ('b', True), '40', '40'),
    # 13.2.3 / 11.7: semi-constrained INTEGER: offset from the lower bound, unsigned, minimum octets
    ('', 'A ::= INTEGER (1..MAX)', 127, '017e', '017e'),
    ('', 'A ::= INTEGER (1..MAX)', 256, '01ff', '01ff'),
    ('', 'A ::= INTEGER (1..MAX)', 257, '020100', '020100'),
    ('', 'A ::= INTEGER (-1..MAX)', 127, '0180', '0180'),
    # 11.1.3 and 11.2: empty encodings
    ('', 'A ::= NULL', None, '00', '00'),
    ('AUTOMATIC TAGS', 'A ::= SEQUENCE { a BOOLEAN, ..., n NULL }', {'a': True, 'n': None}, 'c0400100', 'c0404000'),
    # 30.5.7: 3 x 4 bits < 16: no alignment; NumericString re-indexed (space = 0, "0" = 1 ...)
    ('', 'A ::= SEQUENCE { f BOOLEAN, v NumericString (SIZE(0..3)) }', {'f': True, 'v': '12'}, 'c460', 'c460'),
    # 30.5.7: 2 x 8 bits = 16: aligned (ALIGNED variant)
    ('', 'A ::= SEQUENCE { f BOOLEAN, v IA5String (SIZE(0..2)) }', {'f': True, 'v': 'a'}, 'a061', 'b840'),
    # 14.3 + 11.6.2: 65th extension addition of an ENUMERATED: index 64 needs the long form
    ('', 'A ::= ENUMERATED { r, ..., %s }' % ', '.join('x%d' % i for i in range(65)), 'x64', 'c00140', 'c05000'),
]


def run_hand(tally):
    import asn1tools
    from models import x691
    for tags, body, value, per_hex, uper_hex in HAND:
        parsed = asn1tools.parse_string(M(body, tags))
        for aligned, want in ((True, per_hex), (False, uper_hex)):
            got = x691.encode(parsed, 'T', 'A', value, aligned).concrete().hex()
            if got == want:
                tally.same += 1
            else:
                tally.unexpected.append(('HAND', body[:60], '%s value %r: model %s, worked out by hand %s'
                                         % ('per' if aligned else 'uper', value, got, want)))


# ---------------------------------------------------------------------------------------------
# symbolic smoke test (run in a sub-process: the import hook must precede asn1tools)
# ---------------------------------------------------------------------------------------------
def smoke(max_paths=25):
    """the model executed on pyfront proxies, every path of the exploration (up to max_paths per
    template and variant): the symbolic octets evaluated under a model of the path condition must be
    the octets the model computes for the concretized value"""
    from lib import codec as C          # installs the import hook  # noqa: F401
    import symcore
    from lib.runner import Ctx
    from lib.symvalue import Gen, Bounds, concretize
    from lib.codec import asn1tools
    from models import x691
    import corpus

    stats = dict(paths=0, checked=0, mismatch=0, rejected=0, inconclusive=0, differs=0)
    reasons = {}
    ids = ['int-m5-300', 'int-u32p', 'int-s64', 'int-ext', 'int-max', 'int-min', 'int', 'octets-range', 'octets-ext', 'bits-named',
           'bits-named-size', 'bits-range', 'seq-opt', 'seq-ext-group', 'seq-ext-mixed', 'set-tags', 'choice-ext', 'seqof-ext',
           'ia5-from5', 'numeric', 'printable', 'utf8', 'bmp', 'universal', 'general', 'oid', 'real', 'enum-ext', 'combo-uper6',
           'combo-bits-default', 'defaults-by-ref', 'combo-depth3', 'c11-ext', 'c11-strings', 'combo-import', 'tag-choice']
    for tid in ids:
        tpl = corpus.BY_ID[tid]
        parsed = asn1tools.parse_string(tpl['text'])
        td = parsed[tpl['module']]['types'][tpl['type']]
        for codec in ('per', 'uper'):
            compiled = asn1tools.compile_string(tpl['text'], codec)
            gen = Gen(parsed, Bounds(int_abs=1 << 40, n_len=2, depth=4, str_len=2, oid_arcs=3))

            def harness(ctx):
                try:
                    v = gen.value(ctx, td, tpl['module'])
                    buf = x691.encode(parsed, tpl['module'], tpl['type'], v, codec == 'per')
                    cells = buf.cells()
                except x691.EncodeError as e:
                    stats['rejected'] += 1
                    why = '%s: %s' % (tid, re.sub(r'\d+', 'N', str(e)))
                    reasons[why] = reasons.get(why, 0) + 1
                    return
                m = ctx.eng.get_model()
                cv = concretize(v, m)
                sym = bytes(m.eval(c, model_completion=True).as_long() for c in cells)
                conc = x691.encode(parsed, tpl['module'], tpl['type'], cv, codec == 'per').concrete()
                stats['checked'] += 1
                if sym != conc:
                    stats['mismatch'] += 1
                    print('SMOKE MISMATCH (symbolic vs concrete model)', tid, codec, cv, sym.hex(), conc.hex())
                try:
                    lib = bytes(compiled.encode(tpl['type'], cv))
                except Exception:      # noqa
                    lib = None
                if lib is not None and lib != conc:
                    stats['differs'] += 1
            results, _left = symcore.explore(harness, max_paths=max_paths,
                                             ctx_factory=lambda eng, res: Ctx(eng, res, {'id': 'smoke'}, []))
            stats['paths'] += len(results)
            stats['inconclusive'] += sum(1 for r in results if r.inconclusive)
            for r in results:
                if r.inconclusive and VERBOSE:
                    print('  inconclusive', tid, codec, r.inconclusive)
    print('smoke: %(paths)d symbolic paths over the corpus; %(checked)d symbolic encodings compared with the concrete model: '
          '%(mismatch)d mismatches; %(rejected)d paths rejected by the model (EncodeError), %(inconclusive)d inconclusive; '
          '%(differs)d of the concretized values encode differently in asn1tools (deviations, see the concrete part)' % stats)
    if VERBOSE:
        for why, n in sorted(reasons.items()):
            print('  rejected %3d  %s' % (n, why))
    return 1 if stats['mismatch'] else 0


# ---------------------------------------------------------------------------------------------
def main():
    if '--smoke' in sys.argv:
        sys.exit(smoke())
    import time
    tally = Tally()
    use_fast_buffer('--real-bitbuf' not in sys.argv)
    t0 = time.time()
    if '--no-repo' not in sys.argv:
        harvest_repo_tests(tally)
    if '--no-corpus' not in sys.argv:
        run_specs(tally, corpus_specs())
    if '--no-edge' not in sys.argv:
        run_edge(tally)
        run_hand(tally)
    if '--no-real' not in sys.argv:
        run_real_world(tally)
    if '--real-bitbuf' not in sys.argv and '--no-corpus' not in sys.argv:
        # the same corpus pass with the framework's BitBuf: must give the same results
        t2, t3 = Tally(), Tally()
        run_specs(t3, corpus_specs(), per_spec=4, seed=2)
        use_fast_buffer(False)
        run_specs(t2, corpus_specs(), per_spec=4, seed=2)
        use_fast_buffer(True)

        def digest(t):
            return (t.same, sorted((k, len(v)) for k, v in t.known.items()), sorted(t.unexpected))
        same = digest(t2) == digest(t3)
        print('lib.bits.BitBuf vs fast test buffer on the corpus (%d encodings): %s'
              % (t2.same, 'agree' if same else 'DISAGREE'))
        if not same:
            tally.unexpected.append(('BUFFER', 'buffer', 'lib.bits.BitBuf and the test buffer give different results'))
    print('[%.0f s]' % (time.time() - t0))
    print('identical encodings: %d; rejected by both: %d' % (tally.same, tally.both_reject))
    for why, n in sorted(tally.skipped.items()):
        print('skipped (%s): %d' % (why, n))
    print('differences explained by KNOWN_DEVIATIONS: %d' % sum(len(v) for v in tally.known.values()))
    for k in KNOWN_DEVIATIONS:
        items = tally.known.get(k, [])
        print('  %-50s %5d  %s' % (k, len(items), KNOWN_DEVIATIONS[k]))
        if VERBOSE:
            seen = set()
            for case, text in items:
                if case not in seen and len(seen) < 3:
                    seen.add(case)
                    print('        %s: %s' % (case, text))
    unused = [k for k in KNOWN_DEVIATIONS if k not in tally.known]
    if unused:
        print('KNOWN_DEVIATIONS entries that matched nothing: %s' % unused)
    print('differences within a sender\'s option (not deviations): %d' % sum(len(v) for v in tally.option.values()))
    for k, items in tally.option.items():
        print('  %-50s %5d  %s' % (k, len(items), SENDERS_OPTION[k]))
    print('unexpected differences: %d' % len(tally.unexpected))
    grouped = {}
    for kind, case, text in tally.unexpected:
        grouped.setdefault((kind, case), []).append(text)
    for (kind, case), texts in grouped.items():
        print('  [%s] %s (%d):' % (kind, case, len(texts)))
        for text in texts[:(50 if VERBOSE else 2)]:
            print('      ' + text)
    rc = 1 if tally.unexpected else 0
    if '--no-smoke' not in sys.argv:
        r = subprocess.run([sys.executable, os.path.abspath(__file__), '--smoke'], cwd=ROOT)
        rc = rc or r.returncode
    sys.exit(rc)


if __name__ == '__main__':
    main()
