"""Independent reader for GSER text (RFC 3641 value notation), type-directed by the *parsed*
specification dictionary, over a sequence of items: a concrete character or one of the
placeholder items of pyfront.text_items ('chr' symbolic character, 'bit'/'hex' symbolic digit,
'int' decimal rendering of a symbolic integer).  Every test on a symbolic item is a solver
decision (Engine.branch), so one run of the reader follows one class of texts and the set of
runs covers all texts the encoder can produce on the harness path.

Written from the RFC 3641 ABNF (recalled; the RFC text is not available offline):

    Value             per type, below
    StringValue       = dquote *SafeUTF8Character dquote     ; dquote inside is doubled
    bstring / hstring = squote *binary-digit squote %x42 / squote *hexadecimal-digit squote %x48
                        hexadecimal-digit = %x30-39 / %x41-46   (upper case only)
    INTEGER           = "0" / positive-number / ("-" positive-number)   (or identifier)
    BOOLEAN           = %x54.52.55.45 / %x46.41.4C.53.45
    NULL              = %x4E.55.4C.4C
    OBJECT IDENTIFIER = numeric-oid (or descr)
    REAL              = "0" / PLUS-INFINITY / MINUS-INFINITY / realnumber / "-" realnumber
                        realnumber = mantissa exponent
                        mantissa = (positive-number [ "." *decimal-digit ]) / ( "0." *("0") positive-number )
                        exponent = "E" ( "0" / ([ "-" ] positive-number))
    SEQUENCE / SET    = "{" [ sp NamedValue *( "," sp NamedValue) ] sp "}" ; NamedValue = identifier msp Value
    SEQUENCE/SET OF   = "{" [ sp Value *( "," sp Value) ] sp "}"
    CHOICE            = identifier ":" Value

Deliberate leniency (so that the reader does not demand more than the property): wherever the
ABNF has ``sp``/``msp`` any run of SPACE and LINE FEED is accepted (the property covers the
indented layout, which RFC 3641's ABNF does not have at all), white-space is also accepted
around the ":" of a CHOICE value and before "," (lexical white-space, as in X.680 value
notation; the library writes ``id : value``), and the text is wrapped as the X.680 value assignment
``valuereference Type ::= Value``.
"""
import re
import z3

from symcore import E, Inconclusive
from pyfront import SymInt, SymStr, SymBytes, SymBool
from lib.symvalue import (members_of, members_split, enum_items, STRING_TYPES)
from lib.oid import SymOid


class ParseError(Exception):
    pass


_IDCH = set('abcdefghijklmnopqrstuvwxyzABCDEFGHIJKLMNOPQRSTUVWXYZ0123456789-')
_REAL = re.compile(r'-?(?:[1-9][0-9]*(?:\.[0-9]*)?|0\.0*[1-9][0-9]*)E(?:0|-?[1-9][0-9]*)\Z')


def _symdec(neg, digits, exp10):
    from pyfront.dec import SymDec
    return SymDec(neg, digits, exp10)


def _branch(cond):
    return E().branch(cond)


def _idch_cond(e):
    runs = [(0x30, 0x39), (0x41, 0x5a), (0x61, 0x7a), (0x2d, 0x2d)]
    return z3.Or([z3.And(z3.UGE(e, a), z3.ULE(e, b)) for a, b in runs])


class Reader:
    def __init__(self, items, spec, numeric_enums=False, default_value=None):
        self.it = list(items)
        self.pos = 0
        self.spec = spec
        self.numeric_enums = numeric_enums
        self.default_value = default_value   # callable(member, rtd, rmod) -> value of a DEFAULT

    # ---- lexical helpers ---------------------------------------------------------------------
    def peek(self, k=0):
        p = self.pos + k
        return self.it[p] if p < len(self.it) else None

    def fail(self, what):
        ctx = ''.join(x if isinstance(x, str) else '<%s>' % x[0] for x in self.it[max(0, self.pos - 12):self.pos + 12])
        raise ParseError('%s at offset %d (near %r)' % (what, self.pos, ctx))

    def is_char(self, it, c):
        """is the item the character c (solver decision for symbolic items)"""
        if it is None:
            return False
        if isinstance(it, str):
            return it == c
        kind = it[0]
        if kind == 'chr':
            return _branch(it[1] == ord(c))
        if kind == 'bit':
            return c in '01' and _branch(it[1] == int(c))
        if kind == 'hex':
            if c in '0123456789':
                return _branch(it[1] == int(c))
            if c in ('ABCDEF' if it[2] else 'abcdef'):
                return _branch(it[1] == int(c, 16))
            return False
        if kind == 'int':
            if c in '-0123456789':
                raise Inconclusive('character test %r on a decimal token' % c)
            return False
        raise Inconclusive('item kind %r' % (kind,))

    def is_idch(self, it):
        if it is None:
            return False
        if isinstance(it, str):
            return it in _IDCH
        if it[0] == 'chr':
            return _branch(_idch_cond(it[1]))
        return True     # digits continue an identifier / keyword

    def ws(self, need=False):
        n = 0
        while True:
            it = self.peek()
            if it is None or not (self.is_char(it, ' ') or self.is_char(it, '\n')):
                break
            self.pos += 1
            n += 1
        if need and n == 0:
            self.fail('white-space expected')
        return n

    def expect(self, c):
        if not self.is_char(self.peek(), c):
            self.fail('%r expected' % c)
        self.pos += 1

    def literal(self, word):
        for k, c in enumerate(word):
            it = self.peek(k)
            if not isinstance(it, str) or it != c:
                return False
        if self.is_idch(self.peek(len(word))):
            return False
        self.pos += len(word)
        return True

    def identifier(self, first='lower'):
        it = self.peek()
        if not isinstance(it, str) or not (it.islower() if first == 'lower' else it.isupper()) or it not in _IDCH or it == '-':
            self.fail('identifier expected')
        out = []
        while True:
            it = self.peek()
            if isinstance(it, str) and it in _IDCH:
                out.append(it)
                self.pos += 1
                continue
            if it is not None and not isinstance(it, str) and self.is_idch(it):
                self.fail('symbolic content continues an identifier')
            break
        s = ''.join(out)
        if s.endswith('-') or '--' in s:
            self.fail('malformed identifier %r' % s)
        return s

    # ---- values ------------------------------------------------------------------------------
    def number(self):
        it = self.peek()
        if it is not None and not isinstance(it, str) and it[0] == 'int':
            self.pos += 1
            nxt = self.peek()
            if nxt is not None and (nxt in tuple('0123456789') if isinstance(nxt, str) else nxt[0] in ('int', 'bit', 'hex')):
                self.fail('digits follow a number')
            return it[1]
        digits = []
        if isinstance(it, str) and it == '-':
            digits.append('-')
            self.pos += 1
        while isinstance(self.peek(), str) and self.peek() in '0123456789':
            digits.append(self.peek())
            self.pos += 1
        nxt = self.peek()
        if nxt is not None and not isinstance(nxt, str) and nxt[0] in ('int', 'bit', 'hex'):
            self.fail('digits follow a number')
        s = ''.join(digits)
        if not re.fullmatch(r'0|-?[1-9][0-9]*', s):
            self.fail('malformed number %r' % s)
        return int(s)

    def quoted_digits(self, suffix):
        self.expect("'")
        out = []
        while True:
            it = self.peek()
            if it is None:
                self.fail("unterminated '...' string")
            if self.is_char(it, "'"):
                self.pos += 1
                break
            out.append(it)
            self.pos += 1
        it = self.peek()
        if not (isinstance(it, str) and it == suffix):
            self.fail('%r expected after the closing quote' % suffix)
        self.pos += 1
        if self.is_idch(self.peek()):
            self.fail('characters follow %r' % suffix)
        return out

    def bstring(self):
        bits = []
        for it in self.quoted_digits('B'):
            if isinstance(it, str):
                if it not in '01':
                    self.fail('binary digit expected, got %r' % it)
                bits.append(z3.BitVecVal(int(it), 1))
            elif it[0] == 'bit':
                bits.append(it[1])
            elif it[0] == 'hex':
                # a hex digit placeholder inside a bstring: well-formed only when it is 0 or 1
                if _branch(z3.UGT(it[1], 1)):
                    self.fail('non-binary digit inside a bstring')
                bits.append(z3.Extract(0, 0, it[1]))
            else:
                self.fail('binary digit expected')
        n = len(bits)
        pad = (8 - n % 8) % 8
        bits = bits + [z3.BitVecVal(0, 1)] * pad
        cells = [z3.simplify(z3.Concat(*bits[i:i + 8])) for i in range(0, len(bits), 8)]
        return (SymBytes(cells), n)

    def hstring(self, octets=True):
        nib = []
        for it in self.quoted_digits('H'):
            if isinstance(it, str):
                if it not in '0123456789ABCDEF':
                    self.fail('hexadecimal-digit (%%x30-39 / %%x41-46) expected, got %r' % it)
                nib.append(z3.BitVecVal(int(it, 16), 4))
            elif it[0] == 'hex':
                if not it[2] and _branch(z3.UGE(it[1], 10)):
                    self.fail('lower-case hexadecimal digit')
                nib.append(it[1])
            elif it[0] == 'bit':
                nib.append(z3.ZeroExt(3, it[1]))
            else:
                self.fail('hexadecimal digit expected')
        if octets and len(nib) % 2:
            self.fail('odd number of hexadecimal digits in an OCTET STRING value')
        if len(nib) % 2:
            nib.append(z3.BitVecVal(0, 4))
        return SymBytes([z3.simplify(z3.Concat(nib[i], nib[i + 1])) for i in range(0, len(nib), 2)])

    def string(self):
        self.expect('"')
        out = []
        while True:
            it = self.peek()
            if it is None:
                self.fail('unterminated string')
            if not isinstance(it, str) and it[0] != 'chr':
                if it[0] == 'int':
                    raise Inconclusive('decimal token inside a character string')
                # digit placeholders are ordinary characters of the string
                raise Inconclusive('digit placeholder inside a character string')
            if self.is_char(it, '"'):
                if self.is_char(self.peek(1), '"'):
                    out.append('"')
                    self.pos += 2
                    continue
                self.pos += 1
                break
            out.append(it if isinstance(it, str) else it[1])
            self.pos += 1
        return SymStr(out)

    def oid(self):
        arcs = [self.number()]
        while self.is_char(self.peek(), '.'):
            self.pos += 1
            arcs.append(self.number())
        if len(arcs) < 2:
            self.fail('OBJECT IDENTIFIER with fewer than two arcs')
        for a in arcs:
            if isinstance(a, int) and a < 0:
                self.fail('negative arc')
        return SymOid(arcs)

    def _isdigit(self, it):
        if it is None:
            return False
        if isinstance(it, str):
            return it in '0123456789'
        if it[0] == 'chr':
            return _branch(z3.And(z3.UGE(it[1], 0x30), z3.ULE(it[1], 0x39)))
        return False

    def _is_zero_digit(self, it):
        return it == '0' if isinstance(it, str) else _branch(it[1] == 0x30)

    def real(self):
        """RealValue; concrete text gives a float, text with symbolic digits a pyfront.dec.SymDec"""
        for word, val in (('PLUS-INFINITY', float('inf')), ('MINUS-INFINITY', float('-inf'))):
            if self.literal(word):
                return val
        start = self.pos
        neg = False
        if self.is_char(self.peek(), '-'):
            neg = True
            self.pos += 1
        ints, fracs, point = [], [], False
        while self._isdigit(self.peek()):
            ints.append(self.peek())
            self.pos += 1
        if not ints:
            self.fail('RealValue expected')
        if self.is_char(self.peek(), '.'):
            point = True
            self.pos += 1
            while self._isdigit(self.peek()):
                fracs.append(self.peek())
                self.pos += 1
        symbolic = any(not isinstance(x, str) for x in ints + fracs)
        if not self.is_char(self.peek(), 'E'):
            if not neg and not point and len(ints) == 1 and self._is_zero_digit(ints[0]):
                if self.is_idch(self.peek()):
                    self.fail('characters follow the RealValue "0"')
                return 0.0 if not symbolic else _symdec(False, [0], 0)
            self.fail('malformed RealValue (exponent expected)')
        self.pos += 1
        it = self.peek()
        if it is not None and not isinstance(it, str) and it[0] == 'int':
            exp = it[1]          # decimal rendering of an integer: "0" / ["-"] positive-number
            self.pos += 1
            symbolic = True
        else:
            ed = []
            if self.is_char(self.peek(), '-'):
                ed.append('-')
                self.pos += 1
            while isinstance(self.peek(), str) and self.peek() in '0123456789':
                ed.append(self.peek())
                self.pos += 1
            if not isinstance(self.peek(), (str, type(None))):
                raise Inconclusive('symbolic character inside a RealValue exponent')
            es = ''.join(ed)
            if not re.fullmatch(r'0|-?[1-9][0-9]*', es):
                self.fail('malformed RealValue exponent %r' % es)
            exp = int(es)
        if self.is_idch(self.peek()) or self.is_char(self.peek(), '.'):
            self.fail('characters follow the RealValue')
        # mantissa = (positive-number [ "." *decimal-digit ]) / ( "0." *("0") positive-number )
        if self._is_zero_digit(ints[0]):
            if len(ints) != 1 or not point:
                self.fail('RealValue mantissa with a leading zero')
            nonzero = [f for f in fracs if not (isinstance(f, str) and f == '0')]
            if not nonzero:
                self.fail('RealValue mantissa "0." without a positive-number')
            sym = [f[1] for f in nonzero if not isinstance(f, str)]
            if len(sym) == len(nonzero) and _branch(z3.And([c == 0x30 for c in sym])):
                self.fail('RealValue mantissa "0." without a positive-number')
        if not symbolic:
            text = ''.join(self.it[start:self.pos])
            m, e = text.split('E')
            return float('%se%s' % (m, e))
        digits = [int(x) if isinstance(x, str) else z3.Extract(3, 0, x[1] - 0x30) for x in ints + fracs]
        return _symdec(neg, digits, exp - len(fracs))

    def value(self, td, module):
        rtd, rmod, _ = self.spec.resolve(td, module)
        t = rtd['type']
        if t == 'BOOLEAN':
            if self.literal('TRUE'):
                return True
            if self.literal('FALSE'):
                return False
            self.fail('TRUE or FALSE expected')
        if t == 'NULL':
            if not self.literal('NULL'):
                self.fail('NULL expected')
            return None
        if t == 'INTEGER':
            return self.number()
        if t == 'ENUMERATED':
            name = self.identifier()
            items, _ = enum_items(rtd)
            for n, num, _e in items:
                if n == name:
                    return num if self.numeric_enums else n
            self.fail('unknown enumeration item %r' % name)
        if t == 'BIT STRING':
            return self.bstring()
        if t == 'OCTET STRING':
            return self.hstring()
        if t in STRING_TYPES:
            return self.string()
        if t == 'OBJECT IDENTIFIER':
            return self.oid()
        if t == 'REAL':
            return self.real()
        if t in ('SEQUENCE', 'SET'):
            return self.members(rtd, rmod, t == 'SEQUENCE')
        if t in ('SEQUENCE OF', 'SET OF'):
            return self.elements(rtd, rmod)
        if t == 'CHOICE':
            name = self.identifier()
            self.ws()
            self.expect(':')
            self.ws()
            for m, _a in members_of(rtd):
                if m['name'] == name:
                    return (name, self.value(m, rmod))
            self.fail('unknown alternative %r' % name)
        raise Inconclusive('GSER reader: type %s' % t)

    def members(self, rtd, rmod, ordered):
        ms = [m for m, _a in members_of(rtd)]
        names = [m['name'] for m in ms]
        out = {}
        last = -1
        self.expect('{')
        self.ws()
        if self.is_char(self.peek(), '}'):
            self.pos += 1
        else:
            while True:
                name = self.identifier()
                if name not in names:
                    self.fail('unknown component %r' % name)
                if name in out:
                    self.fail('component %r given twice' % name)
                k = names.index(name)
                if ordered and k < last:
                    self.fail('component %r out of order' % name)
                last = k
                self.ws(need=True)
                out[name] = self.value(ms[k], rmod)
                self.ws()
                if self.is_char(self.peek(), ','):
                    self.pos += 1
                    self.ws()
                    continue
                self.expect('}')
                break
        for m in ms:
            n = m['name']
            if n in out:
                continue
            if 'default' in m:
                if self.default_value is not None:
                    mt, mm, _ = self.spec.resolve(m, rmod)
                    out[n] = self.default_value(m, mt, mm)
            elif not m.get('optional'):
                root, adds, _e = members_split(rtd)
                if any(x is m for x in root):
                    self.fail('mandatory component %r missing' % n)
        return out

    def elements(self, rtd, rmod):
        out = []
        self.expect('{')
        self.ws()
        if self.is_char(self.peek(), '}'):
            self.pos += 1
            return out
        while True:
            out.append(self.value(rtd['element'], rmod))
            self.ws()
            if self.is_char(self.peek(), ','):
                self.pos += 1
                self.ws()
                continue
            self.expect('}')
            return out

    def assignment(self, type_name, td, module):
        """valuereference Type "::=" Value   (X.680 value assignment wrapping the GSER value)"""
        self.identifier('lower')
        self.ws(need=True)
        tn = self.identifier('upper')
        if tn != type_name:
            self.fail('type reference %r, expected %r' % (tn, type_name))
        self.ws(need=True)
        for c in '::=':
            self.expect(c)
        self.ws()
        v = self.value(td, module)
        if self.peek() is not None:
            self.fail('text continues after the value')
        return v


def render(items, model):
    """concrete text of an item sequence under a solver model"""
    out = []
    for it in items:
        if isinstance(it, str):
            out.append(it)
        elif it[0] == 'chr':
            out.append(chr(model.eval(it[1], model_completion=True).as_long()))
        elif it[0] == 'bit':
            out.append(str(model.eval(it[1], model_completion=True).as_long()))
        elif it[0] == 'hex':
            d = '%x' % model.eval(it[1], model_completion=True).as_long()
            out.append(d.upper() if it[2] else d)
        elif it[0] == 'int':
            v = it[1]
            out.append(str(model.eval(v.e, model_completion=True).as_signed_long() if isinstance(v, SymInt) else v))
    return ''.join(out)
