#!/bin/sh
# Build the framework's Python environment from files on disk only (offline).
set -e
cd "$(dirname "$0")"
if [ ! -x .venv/bin/python ] || ! .venv/bin/python -c "import z3, pycparser, asn1tools" 2>/dev/null; then
    rm -rf .venv
    /venv/bin/python -m venv .venv
    SP=$(.venv/bin/python -c "import site; print(site.getsitepackages()[0])")
    printf "import site; site.addsitedir('/venv/lib/python3.12/site-packages')\n/repo\n" > "$SP/verif.pth"
    PIP_NO_INDEX=1 .venv/bin/pip install -q --no-index --find-links /opt/veriftools/wheels z3-solver >/dev/null
fi
.venv/bin/python -c "import z3, pycparser, asn1tools; print('verif env ok: z3', z3.get_version_string())"
